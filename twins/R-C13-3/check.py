"""C13 refactoring 3: enumname() made table-driven and resolve_object_name() folded
with functools.reduce (genrv/tools/generate.py).

Checks that
  * enumname() maps a fixed list of keys, every enum key of specs/fileformat.yaml and a
    few thousand generated keys exactly as before, and fails the same way on bad input,
  * resolve_object_name()/generate()/main() find and run the generator as before,
  * regenerating from the real spec still reproduces every checked-in base class byte
    for byte, a synthetic edge-case spec renders to known text,
  * the registered module classes still equal the spec field by field (enum member
    names included).

Run from the repository root with PYTHONPATH=<root>/src/python.
"""
# ---- shared: field-by-field comparison of rv.modules against specs/fileformat.yaml ----
import pathlib
from enum import Enum

import yaml


def _enumname_ref(ekey):
    # independent restatement of the generator's enum key mangling
    for a, b in (("/", "_div_"), ("*", "_mul_"), (".", "_"), ("+", "_plus_"),
                 ("-", "_neg_"), ("^", "_pow_")):
        ekey = ekey.replace(a, b)
    if ekey[0].isdigit():
        ekey = "_" + ekey
    elif ekey[0] == "_":
        ekey = ekey[1:]
    while "__" in ekey:
        ekey = ekey.replace("__", "_")
    return ekey.lower()


def compare_with_spec(root, module_classes=None):
    """Return a list of mismatch strings (empty when the classes equal the spec)."""
    from rv.controller import (CompactRange, Controller, DependentRange,
                               NoOffsetRange, Range, WarnOnlyRange)
    from rv.option import Option
    import rv.modules

    if module_classes is None:
        module_classes = rv.modules.MODULE_CLASSES
    spec = yaml.safe_load((pathlib.Path(root) / "specs" / "fileformat.yaml").read_text())
    mts = spec["module_types"]
    bad = []
    say = bad.append
    names = {(m.get("type") or n) for n, m in mts.items()}
    if len(names) != len(mts):
        say("duplicate type names in spec")
    if set(module_classes) != names:
        say(f"registry keys differ: {sorted(set(module_classes) ^ names)}")
    nctl = nopt = 0
    for n, m in mts.items():
        mtype = m.get("type") or n
        cls = module_classes.get(mtype)
        if cls is None:
            continue
        tag = n
        if cls.__name__ != n:
            say(f"{tag}: class name {cls.__name__}")
        base = next((b for b in cls.__mro__ if b.__name__ == "Base" + n), None)
        if base is None or base.__module__ != "rv.modules.base." + n.lower():
            say(f"{tag}: generated base class missing")
            continue
        if cls.mtype != mtype or vars(base)["name"] != n or vars(base)["mtype"] != mtype:
            say(f"{tag}: mtype/name")
        if cls.mgroup != m["group"]:
            say(f"{tag}: group")
        if cls.default_flags != (m.get("defaultFlags") or 0) or cls.flags != cls.default_flags:
            say(f"{tag}: flags")
        if cls.options_chnm != m.get("options_chnm", 0):
            say(f"{tag}: options_chnm")
        # enums
        for ename, members in (m.get("enums") or {}).items():
            e = getattr(cls, ename, None)
            if not (isinstance(e, type) and issubclass(e, Enum)):
                say(f"{tag}: enum {ename} missing")
                continue
            got = [(x.name, x.value) for x in e]
            want = [(_enumname_ref(k), v) for k, v in members.items()]
            if got != want:
                say(f"{tag}: enum {ename} members {got} != {want}")
        # controllers
        want_ctls = []
        for d in m.get("controllers") or []:
            for cname, cdef in d.items():
                want_ctls.append(("in_" if cname == "in" else cname, cdef))
        got_ctls = list(cls.controllers.items())
        extra = got_ctls[len(want_ctls):]  # hand-written additions (MetaModule, Sampler)
        got_ctls = got_ctls[: len(want_ctls)]
        base_ctls = {k for k, v in vars(base).items() if isinstance(v, Controller)}
        if (
            [k for k, _ in got_ctls] != [k for k, _ in want_ctls]
            or base_ctls != {k for k, _ in want_ctls}
            or any(k in vars(base) for k, _ in extra)
        ):
            say(f"{tag}: controller order {[k for k, _ in got_ctls]}")
            continue
        for j, (k, c) in enumerate(extra, len(want_ctls) + 1):
            if c.number != j or c.name != k:
                say(f"{tag}.{k}: extra controller numbering")
        ctlmap = dict(want_ctls)
        for i, ((k, c), (_, cdef)) in enumerate(zip(got_ctls, want_ctls), 1):
            nctl += 1
            t = f"{tag}.{k}"
            if not isinstance(c, Controller) or getattr(cls, k) is not c:
                say(f"{t}: not the class attribute")
            if c.name != k or c.number != i or c.label != k.replace("_", " ").title():
                say(f"{t}: name/number/label {c.name} {c.number} {c.label}")
            if c._attached is not bool(cdef.get("attached", True)):
                say(f"{t}: attached")
            vt = c.value_type
            if "min" in cdef and "max" in cdef:
                kind = CompactRange if cdef.get("compact") else NoOffsetRange if cdef.get("no_offset") else Range
                if type(vt) is not kind or (vt.min, vt.max) != (cdef["min"], cdef["max"]):
                    say(f"{t}: range {vt!r}")
                if c.default != cdef["default"] or type(c.default) is not type(cdef["default"]):
                    say(f"{t}: default {c.default!r}")
            elif "enum" in cdef:
                e = getattr(cls, cdef["enum"])
                if vt is not e:
                    say(f"{t}: enum type {vt!r}")
                if c.default is not e[_enumname_ref(cdef["default"])]:
                    say(f"{t}: enum default {c.default!r}")
            elif "bool" in cdef:
                if vt is not bool or c.default is not cdef["default"]:
                    say(f"{t}: bool {vt!r} {c.default!r}")
            elif "depends_on" in cdef:
                if type(vt) is not DependentRange or vt.ctl_name != cdef["depends_on"]:
                    say(f"{t}: dependent {vt!r}")
                    continue
                e = getattr(cls, ctlmap[cdef["depends_on"]]["enum"])
                want_map = [(e[_enumname_ref(k2)], (r["min"], r["max"])) for k2, r in cdef["ranges"].items()]
                got_map = [(k2, (r.min, r.max)) for k2, r in vt.range_map.items()]
                if got_map != want_map or any(type(r) is not WarnOnlyRange for r in vt.range_map.values()):
                    say(f"{t}: range table {got_map}")
                first = next(iter(cdef["ranges"].values()))
                if type(vt.default) is not WarnOnlyRange or (vt.default.min, vt.default.max) != (first["min"], first["max"]):
                    say(f"{t}: dependent default range")
                if c.default != cdef["default"]:
                    say(f"{t}: default")
            else:
                say(f"{t}: unknown spec kind")
        # options
        want_opts = {}
        for d in m.get("options") or []:
            want_opts.update(d)
        base_opts = {k for k, v in vars(base).items() if isinstance(v, Option)}
        if list(cls.options) != sorted(want_opts) or base_opts != set(want_opts):
            say(f"{tag}: option names {list(cls.options)}")
            continue
        for oname, ospec in want_opts.items():
            nopt += 1
            o = cls.options[oname]
            t = f"{tag}.{oname}"
            if not isinstance(o, Option) or getattr(cls, oname) is not o or o.name != oname:
                say(f"{t}: identity/name")
            if (o.byte, o.bit, o.size) != (ospec["byte"], ospec["bit"], ospec["size"]):
                say(f"{t}: byte/bit/size")
            if o.number != (ospec.get("number") or None):
                say(f"{t}: number {o.number}")
            if "min" in ospec and "max" in ospec:
                if (o.min, o.max) != (ospec["min"], ospec["max"]) or o.inverted is not False:
                    say(f"{t}: bounds")
            else:
                if (o.min, o.max) != (None, None) or o.inverted is not bool(ospec.get("inverted", False)):
                    say(f"{t}: inverted/bounds")
            if o.exclusive_of != list(ospec.get("exclusive_of") or []):
                say(f"{t}: exclusive_of")
            if ospec.get("enum"):
                wd = getattr(getattr(cls, ospec["enum"]), ospec["default"])
                if o.default is not wd:
                    say(f"{t}: enum default")
            elif o.default != ospec["default"] or type(o.default) is not type(ospec["default"]):
                say(f"{t}: default {o.default!r}")
    return bad, len(mts), nctl, nopt


# ---- generator harness ----
import contextlib
import hashlib
import io
import os
import sys
import tempfile

SYNTH_SPEC = """
module_types:
  Plain:
    group: Misc
  Nothing:
    type: "Nothing At All"
    defaultFlags: 0
    group: Effect
    controllers: []
  Kitchen:
    type: "Kitchen Sink"
    defaultFlags: 0x2000451
    group: Synth
    enums:
      Unit:
        "Hz/64": 0
        "ms": 1
        "line/2": 2
        "-1": 3
        "1.5x": 4
        "a+b": 5
        "_hidden": 6
        "2^n": 7
        "a*b": 8
        "A--B": 9
      Mode:
        "off": 0
        "ON": 1
    controllers:
      - zero_floor: { min: 0, max: 0, default: 0 }
      - signed: { min: -128, max: 128, default: -5 }
      - unit: { enum: Mode, default: "off" }
      - compacted: { min: -3, max: 3, default: 0, compact: true }
      - raw: { min: -7, max: 7, default: 1, no_offset: true }
      - flag: { bool: true, default: true }
      - in: { min: 0, max: 1, default: 0, units: "x" }
      - detached: { min: 0, max: 255, default: 9, attached: false }
      - unit: { enum: Unit, default: "Hz/64" }
      - freq:
          depends_on: unit
          default: 256
          ranges:
            "Hz/64": { min: 0, max: 2048 }
            "ms": { min: 1, max: 4000 }
            "-1": { min: -1, max: 0 }
      - mode: { enum: Mode, default: "ON" }
    options_chnm: 1
    options:
      - first: { byte: 0, bit: 0, size: 1, default: false, number: 0 }
      - second: { byte: 0, bit: 1, size: 1, default: true, number: 125, inverted: true }
      - third: { byte: 1, bit: 0, size: 8, default: 0, min: 0, max: 4, number: 126 }
      - fourth: { byte: 2, bit: 0, size: 1, default: false, exclusive_of: [first, second] }
      - fifth: { byte: 3, bit: 0, size: 8, default: "off", enum: Mode }
    chunks:
      - name: curve
        parent_type: Array
        chnm: 0
        element_type: unsigned short
        min: 0
        max: 32768
        default: [0, 1, 2]
      - name: modes
        parent_type: Array
        chnm: 1
        length: 2
        element_type: unsigned byte
        enum: Mode
        default: ["off", "ON"]
      - name: other
        type: Whatever
        chnm: 2
"""

SYNTH_GOLDEN = {
    "modules/base/kitchen.py": "3e353ea27619971f316459ad365c070011c9d56a9a262da9b5580b44eadc1d08",
    "modules/base/nothing.py": "5c37dbdd2c00014d054c2aff40e0b9b92a6e5d6051c02f03166919d5a8bf1514",
    "modules/base/plain.py": "b0373ba95f7c54048af4486b439df1e615932e142a74a3ddbefcdd60a7446a6c",
}


def make_env():
    import genrv
    from genrv.tools.generate import enumname
    from jinja2 import Environment, FileSystemLoader, PrefixLoader
    from stringcase import camelcase, pascalcase

    gp = pathlib.Path(genrv.__file__).parent
    env = Environment(
        loader=PrefixLoader(
            {n: FileSystemLoader(gp / "codegen" / n) for n in ("python", "ts")}
        )
    )
    env.filters.update(
        camelcase=camelcase, enumname=enumname, hex=hex, pascalcase=pascalcase, repr=repr
    )
    return env


def run_generator(spec_base, dest_base, env=None):
    from genrv.codegen.python.gen import PythonGenerator

    gen = PythonGenerator(spec_base=spec_base, dest_base=dest_base)
    out = io.StringIO()
    with contextlib.redirect_stdout(out):
        gen.run(env or make_env())
    return gen, out.getvalue()


def generated_files(dest):
    dest = pathlib.Path(dest)
    return {
        str(p.relative_to(dest)): p.read_text()
        for p in sorted(dest.rglob("*"))
        if p.is_file()
    }


def check_regeneration(root, fails):
    """Regenerating from the real spec reproduces the checked-in base classes."""
    with tempfile.TemporaryDirectory() as d:
        run_generator(root / "specs", d)
        got = generated_files(d)
    basedir = root / "src" / "python" / "rv" / "modules" / "base"
    want = {
        "modules/base/" + p.name: p.read_text()
        for p in sorted(basedir.glob("*.py"))
        if p.name != "__init__.py"
    }
    if sorted(got) != sorted(want):
        fails.append(f"regeneration: file set differs {sorted(set(got) ^ set(want))}")
    for k in sorted(set(got) & set(want)):
        if got[k] != want[k]:
            fails.append(f"regeneration: {k} differs from the checked-in file")
    return len(got)


def check_synthetic(fails):
    """A hand-made spec full of edge cases renders to the known text, and the
    rendered classes agree with that spec."""
    with tempfile.TemporaryDirectory() as d:
        d = pathlib.Path(d)
        (d / "spec").mkdir()
        (d / "spec" / "fileformat.yaml").write_text(SYNTH_SPEC)
        run_generator(d / "spec", d / "out")
        got = generated_files(d / "out")
    digest = {k: hashlib.sha256(v.encode()).hexdigest() for k, v in got.items()}
    if digest != SYNTH_GOLDEN:
        fails.append(f"synthetic: output text changed: {digest}")
    if os.environ.get("C13_PRINT_GOLDEN"):
        print(digest)
    # semantic look at the rendered Kitchen class
    from rv.controller import (CompactRange, Controller, DependentRange,
                               NoOffsetRange, Range, WarnOnlyRange)
    from rv.option import Option

    ns = {}
    exec(compile(got["modules/base/kitchen.py"], "kitchen.py", "exec"), ns)
    K = ns["BaseKitchen"]
    exp = [
        (K.name, "Kitchen"), (K.mtype, "Kitchen Sink"), (K.mgroup, "Synth"),
        (K.flags, 0x2000451), (K.default_flags, 0x2000451),
        ([(e.name, e.value) for e in K.Unit],
         [("hz_div_64", 0), ("ms", 1), ("line_div_2", 2), ("neg_1", 3), ("_1_5x", 4),
          ("a_plus_b", 5), ("hidden", 6), ("_2_pow_n", 7), ("a_mul_b", 8), ("a_neg_neg_b", 9)]),
        (type(K.zero_floor.value_type), Range),
        ((K.zero_floor.value_type.min, K.zero_floor.value_type.max, K.zero_floor.default), (0, 0, 0)),
        ((K.signed.value_type.min, K.signed.value_type.max, K.signed.default), (-128, 128, -5)),
        (type(K.compacted.value_type), CompactRange),
        (type(K.raw.value_type), NoOffsetRange),
        ((K.flag.value_type, K.flag.default), (bool, True)),
        (K.in_.value_type.max, 1),
        (hasattr(K, "in"), False),
        (K.detached._attached, False),
        (K.signed._attached, True),
        (K.unit.value_type, K.Unit),  # the later duplicate wins
        (K.unit.default, K.Unit.hz_div_64),
        (type(K.freq.value_type), DependentRange),
        (K.freq.value_type.ctl_name, "unit"),
        ([(k, type(r), r.min, r.max) for k, r in K.freq.value_type.range_map.items()],
         [(K.Unit.hz_div_64, WarnOnlyRange, 0, 2048), (K.Unit.ms, WarnOnlyRange, 1, 4000),
          (K.Unit.neg_1, WarnOnlyRange, -1, 0)]),
        ((K.freq.value_type.default.min, K.freq.value_type.default.max), (0, 2048)),
        (K.freq.default, 256),
        (K.mode.default, K.Mode.on),
        # definition order == spec order (first definition position of a name)
        ([k for k, v in sorted(((k, v) for k, v in vars(K).items() if isinstance(v, Controller)),
                               key=lambda kv: kv[1]._order)],
         ["zero_floor", "signed", "compacted", "raw", "flag", "in_", "detached", "unit", "freq", "mode"]),
        (K.first, Option(name="first", byte=0, bit=0, size=1, default=False)),  # number 0 is dropped
        (K.second, Option(name="second", byte=0, bit=1, size=1, default=True, number=125, inverted=True)),
        (K.third, Option(name="third", byte=1, bit=0, size=8, default=0, number=126, min=0, max=4)),
        (K.fourth, Option(name="fourth", byte=2, bit=0, size=1, default=False, exclusive_of=["first", "second"])),
        (K.fifth.default, K.Mode.off),
        ((K.curve_chunk.chnm, K.curve_chunk.length, K.curve_chunk.type, K.curve_chunk.element_size,
          K.curve_chunk.min_value, K.curve_chunk.max_value, K.curve_chunk.default),
         (0, 3, "H", 2, 0, 32768, [0, 1, 2])),
        ((K.modes_chunk.chnm, K.modes_chunk.length, K.modes_chunk.type, K.modes_chunk.element_size),
         (1, 2, "B", 1)),
        (hasattr(K, "other_chunk"), False),
    ]
    for i, (a, b) in enumerate(exp):
        if a != b:
            fails.append(f"synthetic[{i}]: {a!r} != {b!r}")
    ns2 = {}
    exec(compile(got["modules/base/plain.py"], "plain.py", "exec"), ns2)
    P = ns2["BasePlain"]
    if (P.name, P.mtype, P.mgroup, P.flags) != ("Plain", "Plain", "Misc", 0):
        fails.append("synthetic: Plain")
    ns3 = {}
    exec(compile(got["modules/base/nothing.py"], "nothing.py", "exec"), ns3)
    N = ns3["BaseNothing"]
    if (N.name, N.mtype, N.mgroup, N.flags) != ("Nothing", "Nothing At All", "Effect", 0):
        fails.append("synthetic: Nothing")
    if sorted(got) != ["modules/base/kitchen.py", "modules/base/nothing.py", "modules/base/plain.py"]:
        fails.append(f"synthetic: files {sorted(got)}")


def check_generator_errors(fails):
    """Unformattable output is printed and the formatter's error propagates;
    nothing is written for that module type, earlier ones stay written."""
    import black

    spec = "module_types:\n  Good:\n    group: Misc\n  'Bad Name':\n    group: Misc\n  After:\n    group: Misc\n"
    with tempfile.TemporaryDirectory() as d:
        d = pathlib.Path(d)
        (d / "spec").mkdir()
        (d / "spec" / "fileformat.yaml").write_text(spec)
        try:
            run_generator(d / "spec", d / "out")
        except Exception as e:  # noqa
            if type(e) is not black.InvalidInput:
                fails.append(f"errors: wrong exception {type(e)!r}")
        else:
            fails.append("errors: no exception for an unformattable class name")
        if sorted(generated_files(d / "out")) != ["modules/base/good.py"]:
            fails.append(f"errors: files {sorted(generated_files(d / 'out'))}")
        out = io.StringIO()
        from genrv.codegen.python.gen import PythonGenerator

        gen = PythonGenerator(spec_base=str(d / "spec"), dest_base=str(d / "out2"))
        with contextlib.redirect_stdout(out):
            try:
                gen.run(make_env())
            except black.InvalidInput:
                pass
        if "class BaseBad Name:" not in out.getvalue():
            fails.append("errors: offending source was not printed")
        # a spec without module types renders nothing and needs no template
        (d / "spec" / "fileformat.yaml").write_text("module_types: {}\n")
        from jinja2 import DictLoader, Environment

        PythonGenerator(spec_base=d / "spec", dest_base=d / "out3").run(Environment(loader=DictLoader({})))
        if (d / "out3").exists():
            fails.append("errors: empty spec wrote something")
        # a missing template is reported by jinja
        (d / "spec" / "fileformat.yaml").write_text("module_types:\n  Good:\n    group: Misc\n")
        from jinja2 import TemplateNotFound

        try:
            PythonGenerator(spec_base=d / "spec", dest_base=d / "out4").run(Environment(loader=DictLoader({})))
        except TemplateNotFound:
            pass
        else:
            fails.append("errors: missing template not reported")
        # missing module_types key
        (d / "spec" / "fileformat.yaml").write_text("chunks: {}\n")
        try:
            PythonGenerator(spec_base=d / "spec", dest_base=d / "out5").run(make_env())
        except KeyError:
            pass
        else:
            fails.append("errors: missing module_types not a KeyError")


# ---- generate.py harness ----
import itertools
import logging
import random

ENUMNAME_CASES = [
    ("off", "off"),
    ("ON", "on"),
    ("Hz/64", "hz_div_64"),
    ("line/2", "line_div_2"),
    ("-1", "neg_1"),
    ("+1", "plus_1"),
    ("1", "_1"),
    ("2x", "_2x"),
    ("1.5x", "_1_5x"),
    ("x*2", "x_mul_2"),
    ("*2", "mul_2"),
    ("2^n", "_2_pow_n"),
    ("^", "pow_"),
    ("a+b", "a_plus_b"),
    ("a-b", "a_neg_b"),
    ("A--B", "a_neg_neg_b"),
    ("a.b.c", "a_b_c"),
    ("a..b", "a_b"),
    (".", ""),
    ("_", ""),
    ("__", "_"),
    ("___x", "_x"),
    ("_x", "x"),
    ("_1", "1"),
    ("x_", "x_"),
    ("x__y___z", "x_y_z"),
    ("a_/_b", "a_div_b"),
    ("/", "div_"),
    ("8bit", "_8bit"),
    ("٣abc", "_٣abc"),  # str.isdigit() digits count as leading digits
    ("²", "_²"),
    ("with space", "with space"),
    ("Ünï", "ünï"),
    ("x/y*z.w+v-u^t", "x_div_y_mul_z_w_plus_v_neg_u_pow_t"),
    ("-/-", "neg_div_neg_"),
    ("1/2", "_1_div_2"),
    ("-.5", "neg_5"),
]


def check_enumname(root, fails):
    from genrv.tools.generate import enumname

    for key, want in ENUMNAME_CASES:
        got = enumname(key)
        if got != want or type(got) is not str:
            fails.append(f"enumname({key!r}) = {got!r}, expected {want!r}")
        if _enumname_ref(key) != want:
            fails.append(f"check.py reference disagrees on {key!r}")
    # every key of the real spec, against the names the classes really carry
    spec = yaml.safe_load((root / "specs" / "fileformat.yaml").read_text())
    import rv.modules

    nkeys = 0
    for n, m in spec["module_types"].items():
        cls = rv.modules.MODULE_CLASSES[m.get("type") or n]
        for ename, members in (m.get("enums") or {}).items():
            for k, v in members.items():
                nkeys += 1
                name = enumname(k)
                if name != _enumname_ref(k) or getattr(cls, ename)[name].value != v:
                    fails.append(f"enumname: spec key {n}.{ename}.{k!r} -> {name!r}")
                if not name.isidentifier():
                    fails.append(f"enumname: spec key {k!r} -> {name!r} is not an identifier")
    # exhaustive short keys + random longer ones over the interesting alphabet
    alphabet = "/*.+-^_aB1 "
    ngen = 0
    for n in (1, 2, 3, 4):
        for tup in itertools.product(alphabet, repeat=n):
            k = "".join(tup)
            ngen += 1
            if enumname(k) != _enumname_ref(k):
                fails.append(f"enumname: {k!r} -> {enumname(k)!r}")
                break
    rnd = random.Random(13)
    for _ in range(3000):
        k = "".join(rnd.choice(alphabet) for _ in range(rnd.randint(5, 24)))
        ngen += 1
        if enumname(k) != _enumname_ref(k):
            fails.append(f"enumname: {k!r} -> {enumname(k)!r}")
            break
    # bad input
    for bad, exc in (("", IndexError), (5, AttributeError), (None, AttributeError), (b"a/b", TypeError)):
        try:
            enumname(bad)
        except exc:
            pass
        except Exception as e:  # noqa
            fails.append(f"enumname({bad!r}) raised {type(e).__name__}, expected {exc.__name__}")
        else:
            fails.append(f"enumname({bad!r}) did not raise")
    return nkeys, ngen


def check_resolve_and_run(root, fails):
    import collections
    import os.path

    import genrv.tools.generate as G
    from genrv.codegen.python.gen import PythonGenerator

    good = [
        ("genrv.codegen.python.gen:PythonGenerator", PythonGenerator),
        ("os:path.join", os.path.join),
        ("os.path:join", os.path.join),
        ("collections:OrderedDict.fromkeys", collections.OrderedDict.fromkeys),
        ("genrv.tools.generate:enumname", G.enumname),
        ("genrv.tools.generate:log.name.upper", G.log.name.upper),
    ]
    for name, want in good:
        got = G.resolve_object_name(name)
        if got != want:
            fails.append(f"resolve_object_name({name!r}) = {got!r}")
    bad = [
        ("os.path.join", ValueError),
        ("os:path:join", ValueError),
        ("no_such_module_c13:thing", ModuleNotFoundError),
        ("os:no_such_attr", AttributeError),
        ("os:path.no_such_attr", AttributeError),
        ("os:", AttributeError),
        ("os:path..join", AttributeError),
        (":join", ValueError),
    ]
    for name, exc in bad:
        try:
            G.resolve_object_name(name)
        except Exception as e:  # noqa
            if type(e) is not exc:
                fails.append(f"resolve_object_name({name!r}) raised {type(e).__name__}, expected {exc.__name__}")
        else:
            fails.append(f"resolve_object_name({name!r}) did not raise")
    if G.DESCRIPTION != "Radiant Voices code generator tool":
        fails.append("DESCRIPTION changed")
    if G.arg_parser().parse_args(["--config", "x.yaml"]).config != "x.yaml":
        fails.append("arg_parser changed")

    basedir = root / "src" / "python" / "rv" / "modules" / "base"
    want = {p.name: p.read_text() for p in basedir.glob("*.py") if p.name != "__init__.py"}
    logging.disable(logging.CRITICAL)
    try:
        with tempfile.TemporaryDirectory() as d:
            d = pathlib.Path(d)
            # generate(): resolves the generator by name and runs it
            out = io.StringIO()
            with contextlib.redirect_stdout(out):
                G.generate(
                    make_env(),
                    generator="genrv.codegen.python.gen:PythonGenerator",
                    spec_base=str(root / "specs"),
                    dest_base=str(d / "g"),
                )
            got = {p.name: p.read_text() for p in (d / "g" / "modules" / "base").glob("*.py")}
            if got != want:
                fails.append("generate(): output differs from the checked-in base classes")
            try:
                G.generate(make_env(), generator="genrv.codegen.python.gen:PythonGenerator", spec_base=str(root / "specs"))
            except TypeError:
                pass
            else:
                fails.append("generate(): missing option accepted")
            # main(): the command line entry point with its own environment and filters
            cfg = d / "genrv-config.yaml"
            cfg.write_text(
                "- generator: genrv.codegen.python.gen:PythonGenerator\n"
                f"  spec_base: {root / 'specs'}\n"
                f"  dest_base: {d / 'm'}\n"
            )
            argv = sys.argv
            sys.argv = ["genrv", "--config", str(cfg)]
            try:
                with contextlib.redirect_stdout(out), contextlib.redirect_stderr(io.StringIO()):
                    rc = G.main()
            finally:
                sys.argv = argv
            got = {p.name: p.read_text() for p in (d / "m" / "modules" / "base").glob("*.py")}
            if rc != 0 or got != want:
                fails.append("main(): output differs from the checked-in base classes")
    finally:
        logging.disable(logging.NOTSET)


def main():
    root = pathlib.Path.cwd()
    if not (root / "specs" / "fileformat.yaml").exists():
        print("FAIL: run from the repository root")
        return 1
    fails = []
    bad, nmod, nctl, nopt = compare_with_spec(root)
    fails += bad
    if (nmod, nctl, nopt) != (43, 502, 49):
        fails.append(f"spec coverage {(nmod, nctl, nopt)}")
    nkeys, ngen = check_enumname(root, fails)
    check_resolve_and_run(root, fails)
    nfiles = check_regeneration(root, fails)
    if nfiles != 43:
        fails.append(f"regenerated {nfiles} files")
    check_synthetic(fails)
    if fails:
        print("FAIL")
        for f in fails:
            print("  ", f)
        return 1
    print(
        f"PASS ({nmod} module types, {nctl} controllers, {nopt} options; "
        f"{nkeys} spec enum keys and {ngen} generated keys mangled identically; "
        f"{nfiles} files regenerated identically)"
    )
    return 0


if __name__ == "__main__":
    sys.exit(main())
