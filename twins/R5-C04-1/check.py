import hashlib
import io
import logging
import os
import struct
import sys
from enum import Enum
from pathlib import Path

logging.disable(logging.CRITICAL)

from rv.api import read_sunvox_file  # noqa: E402

ROOT = Path(os.getcwd())
FILES = ROOT / "tests" / "files"
FAILURES = []


def check(cond, msg):
    if not cond:
        FAILURES.append(msg)
        print("FAIL:", msg)


# ---------------------------------------------------------------- raw IFF tools
def split_chunks(blob):
    """Independent chunk splitter: [(id4, payload), ...]."""
    out, pos = [], 0
    while pos + 8 <= len(blob):
        cid = blob[pos : pos + 4]
        (size,) = struct.unpack("<I", blob[pos + 4 : pos + 8])
        out.append((cid, blob[pos + 8 : pos + 8 + size]))
        pos += 8 + size
    return out


def join_chunks(items):
    return b"".join(cid + struct.pack("<I", len(d)) + d for cid, d in items)


def u32(v):
    return struct.pack("<I", v)


def i32(v):
    return struct.pack("<i", v)


# ---------------------------------------------------------------- snapshots
SKIP_KEYS = {"parent", "project", "pattern", "_parent", "_project", "_pattern", "_order"}


def norm(v, depth=0, seen=None):
    seen = seen or ()
    if depth > 12:
        return "<deep>"
    if v is None or isinstance(v, (bool, int, float, str)):
        if isinstance(v, Enum):
            return ("enum", type(v).__name__, v.value)
        return v
    if isinstance(v, Enum):
        return ("enum", type(v).__name__, norm(v.value, depth + 1, seen))
    if isinstance(v, (bytes, bytearray)):
        return ("bytes", hashlib.sha1(bytes(v)).hexdigest(), len(v))
    if isinstance(v, (list, tuple)):
        return [norm(x, depth + 1, seen) for x in v]
    if isinstance(v, (set, frozenset)):
        return ("set", sorted((norm(x, depth + 1, seen) for x in v), key=repr))
    if isinstance(v, dict):
        return (
            "dict",
            sorted(
                ((norm(k, depth + 1, seen), norm(x, depth + 1, seen)) for k, x in v.items()),
                key=repr,
            ),
        )
    if hasattr(v, "tolist") and hasattr(v, "dtype"):
        return ("array", str(v.dtype), v.tolist())
    if id(v) in seen:
        return "<cycle>"
    if isinstance(v, type) or callable(v):
        return ("callable", getattr(v, "__name__", type(v).__name__))
    d = getattr(v, "__dict__", None)
    if d is None:
        slots = getattr(type(v), "__slots__", None)
        if slots:
            d = {s: getattr(v, s) for s in slots if hasattr(v, s)}
        else:
            return ("obj", type(v).__name__)
    seen = seen + (id(v),)
    return (
        "obj",
        type(v).__name__,
        sorted(
            ((k, norm(x, depth + 1, seen)) for k, x in d.items() if k not in SKIP_KEYS),
            key=repr,
        ),
    )


def snapshot(obj):
    """Deterministic, reader-independent dump of everything reachable from obj."""
    return norm(obj)


def digest(obj):
    return hashlib.sha256(repr(snapshot(obj)).encode()).hexdigest()[:16]


def load(blob):
    return read_sunvox_file(io.BytesIO(blob))


def fixture_paths():
    return sorted(p for p in FILES.rglob("*") if p.suffix in (".sunvox", ".sunsynth"))


def finish():
    if FAILURES:
        print("%d failure(s)" % len(FAILURES))
        sys.exit(1)
    print("PASS")


# ---------------------------------------------------------------- reference encoder
def cstr(s):
    return s.encode("utf8") + b"\0"


def ver(t):
    return bytes(reversed(t))


def enc_module(m):
    """m: None (empty slot) or dict description -> list of chunks."""
    if m is None:
        return [(b"SEND", b"")]
    out = [(b"SFFF", u32(m.get("flags", 0x49))), (b"SNAM", cstr(m["name"]).ljust(32, b"\0"))]
    if "type" in m:
        out.append((b"STYP", cstr(m["type"])))
    out += [
        (b"SFIN", i32(m.get("finetune", 0))),
        (b"SREL", i32(m.get("relnote", 0))),
        (b"SXXX", i32(m.get("x", 512))),
        (b"SYYY", i32(m.get("y", 512))),
        (b"SZZZ", u32(m.get("layer", 0))),
        (b"SSCL", u32(m.get("scale", 256))),
    ]
    if "vis" in m:
        out.append((b"SVPR", u32(m["vis"])))
    out.append((b"SCOL", bytes(m.get("color", (1, 2, 3)))))
    out.append((b"SMII", u32(m.get("smii", 0))))
    if "midi_out_name" in m:
        out.append((b"SMIN", cstr(m["midi_out_name"])))
    out += [
        (b"SMIC", i32(m.get("smic", 0))),
        (b"SMIB", i32(m.get("smib", -1))),
        (b"SMIP", i32(m.get("smip", -1))),
    ]
    if "links" in m:
        out.append((b"SLNK", b"".join(i32(x) for x in m["links"])))
    if "slots" in m:
        out.append((b"SLnK", b"".join(i32(x) for x in m["slots"])))
    for v in m.get("cvals", []):
        out.append((b"CVAL", i32(v)))
    if "cmid" in m:
        out.append((b"CMID", m["cmid"]))
    out.append((b"SEND", b""))
    return out


def enc_pattern(p):
    if p is None:
        return [(b"PEND", b"")]
    if "clone_of" in p:
        return [
            (b"PPAR", u32(p["clone_of"])),
            (b"PFFF", u32(p.get("pfff", 1))),
            (b"PXXX", i32(p.get("x", 0))),
            (b"PYYY", i32(p.get("y", 0))),
            (b"PEND", b""),
        ]
    notes = p["notes"]  # list of lines; each line a list of (note, vel, module, ctl, val)
    raw = b"".join(struct.pack("<BBHHH", *n) for line in notes for n in line)
    out = [(b"PDTA", raw)]
    if "name" in p:
        out.append((b"PNME", cstr(p["name"])))
    out += [
        (b"PCHN", u32(len(notes[0]))),
        (b"PLIN", u32(len(notes))),
        (b"PYSZ", u32(p.get("ysize", 32))),
        (b"PFLG", u32(p.get("pflg", 0))),
        (b"PICO", p.get("icon", bytes(range(32)))),
        (b"PFGC", bytes(p.get("fg", (0, 0, 0)))),
        (b"PBGC", bytes(p.get("bg", (255, 255, 255)))),
        (b"PFFF", u32(p.get("pfff", 0))),
        (b"PXXX", i32(p.get("x", 0))),
        (b"PYYY", i32(p.get("y", 0))),
        (b"PEND", b""),
    ]
    return out


def enc_project_chunks(d):
    out = [(b"SVOX", b""), (b"VERS", ver(d["vers"]))]
    if "bver" in d:
        out.append((b"BVER", ver(d["bver"])))
    for cid, key, pk in HEADER_FIELDS:
        if key in d:
            out.append((cid, pk(d[key])))
        if cid == b"GVOL" and "name" in d:
            out.append((b"NAME", cstr(d["name"])))
    for p in d.get("patterns", []):
        out += enc_pattern(p)
    for m in d.get("modules", []):
        out += enc_module(m)
    return out


HEADER_FIELDS = [
    (b"FLGS", "flags", u32),
    (b"SFGS", "sfgs", u32),
    (b"BPM ", "bpm", u32),
    (b"SPED", "tpl", u32),
    (b"TGRD", "tgrd", u32),
    (b"TGD2", "tgd2", u32),
    (b"GVOL", "gvol", u32),
    (b"MSCL", "mscl", u32),
    (b"MZOO", "mzoo", u32),
    (b"MXOF", "mxof", i32),
    (b"MYOF", "myof", i32),
    (b"LMSK", "lmsk", u32),
    (b"CURL", "curl", u32),
    (b"TIME", "time", i32),
    (b"REPS", "reps", i32),
    (b"SELS", "sels", u32),
    (b"LGEN", "lgen", i32),
    (b"PATN", "patn", u32),
    (b"PATT", "patt", u32),
    (b"PATL", "patl", u32),
]

REF = dict(
    vers=(1, 9, 6, 1),
    bver=(1, 9, 5, 2),
    flags=0x12345,
    sfgs=(5 << 3) | 2,
    bpm=133,
    tpl=5,
    tgrd=3,
    tgd2=7,
    gvol=90,
    name="Réf project",
    mscl=300,
    mzoo=200,
    mxof=-17,
    myof=23,
    lmsk=0b101,
    curl=2,
    time=-4,
    reps=12,
    sels=2,
    lgen=-1,
    patn=1,
    patt=2,
    patl=3,
    patterns=[
        dict(
            name="pat A",
            notes=[
                [(1, 2, 0x0103, 0x0405, 0x0607), (0, 0, 0, 0, 0)],
                [(128, 129, 0xFFFF, 0x1F00, 0x8001), (60, 0, 3, 0, 0)],
                [(0, 0, 0, 0, 0), (13, 64, 0x0201, 0x0011, 0x2233)],
            ],
            ysize=24,
            pflg=1,
            fg=(9, 8, 7),
            bg=(6, 5, 4),
            pfff=0x10,
            x=-64,
            y=96,
        ),
        None,
        dict(clone_of=0, pfff=0x9, x=12, y=-32),
    ],
    modules=[
        dict(name="Output", flags=0x43, links=[2, -1, -1], color=(255, 254, 253), x=900, y=-5),
        None,
        dict(
            name="amp one",
            type="Amplifier",
            flags=0x51,
            links=[3],
            cvals=[700, 28, 200],
            finetune=-33,
            relnote=4,
            layer=3,
            scale=128,
            vis=0x12345678,
            smii=(7 << 1) | 1,
            midi_out_name="dev",
            smic=3,
            smib=5,
            smip=9,
        ),
        dict(
            name="amp two",
            type="Amplifier",
            flags=0x51,
            links=[],
            cvals=[1, 2, 3, 1, 4, 0, 5, 6, 16390],
            cmid=b"".join(struct.pack("<BBBBHBB", i % 9, i, i % 6, 0, 1000 + i, 0, 0xC8) for i in range(9)),
        ),
        None,
        None,
    ],
)


def check_ref_project(p, label="ref"):
    """Assert every field of the hand-encoded reference project (independent oracle)."""
    def eq(a, b, what):
        check(a == b, "%s: %s: %r != %r" % (label, what, a, b))

    eq(type(p).__name__, "Project", "type")
    eq(p.loaded_sunvox_version, (1, 9, 6, 1), "VERS")
    eq(p.based_on_version, (1, 9, 5, 2), "BVER")
    eq(p.flags, 0x12345, "FLGS")
    eq(int(p.receive_sync_midi), 2, "SFGS midi")
    eq(int(p.receive_sync_other), 5, "SFGS other")
    eq(p.initial_bpm, 133, "BPM")
    eq(p.initial_tpl, 5, "SPED")
    eq(p.time_grid, 3, "TGRD")
    eq(p.time_grid2, 7, "TGD2")
    eq(p.global_volume, 90, "GVOL")
    eq(p.name, "Réf project", "NAME")
    eq(p.modules_scale, 300, "MSCL")
    eq(p.modules_zoom, 200, "MZOO")
    eq(p.modules_x_offset, -17, "MXOF")
    eq(p.modules_y_offset, 23, "MYOF")
    eq(p.modules_layer_mask, 5, "LMSK")
    eq(p.modules_current_layer, 2, "CURL")
    eq(p.timeline_position, -4, "TIME")
    eq(p.restart_position, 12, "REPS")
    eq(p.selected_module, 2, "SELS")
    eq(p.selected_generator, -1, "LGEN")
    eq(p.current_pattern, 1, "PATN")
    eq(p.current_track, 2, "PATT")
    eq(p.current_line, 3, "PATL")
    # patterns
    eq(len(p.patterns), 3, "pattern count")
    a, b, c = p.patterns
    eq(b, None, "empty pattern slot")
    eq(type(a).__name__, "Pattern", "pattern 0 type")
    eq((a.name, a.tracks, a.lines, a.y_size, a.flags_PFLG), ("pat A", 2, 3, 24, 1), "pattern hdr")
    eq(a.icon, bytes(range(32)), "PICO")
    eq((tuple(a.fg_color), tuple(a.bg_color)), ((9, 8, 7), (6, 5, 4)), "pattern colors")
    eq((a.flags_PFFF, a.x, a.y), (0x10, -64, 96), "pattern placement")
    got = [[(n.note, n.vel, n.module, n.ctl, n.val) for n in line] for line in a.data]
    eq(got, [[tuple(n) for n in line] for line in REF["patterns"][0]["notes"]], "notes")
    check(a.project is p and c.project is p, label + ": pattern.project")
    eq(type(c).__name__, "PatternClone", "pattern 2 type")
    eq((c.source, c.flags_PFFF, c.x, c.y), (0, 9, 12, -32), "clone fields")
    # modules
    eq([type(m).__name__ for m in p.modules], ["Output", "NoneType", "Amplifier", "Amplifier"], "module layout")
    m0, _, m2, m3 = p.modules
    eq([m0.index, m2.index, m3.index], [0, 2, 3], "module indexes")
    check(p.output is m0, label + ": project.output")
    check(all(m.parent is p for m in (m0, m2, m3)), label + ": module.parent")
    eq((m0.name, m0.flags, tuple(m0.color), m0.x, m0.y), ("Output", 0x43, (255, 254, 253), 900, -5), "output fields")
    eq((m0.in_links, m0.in_link_slots, m0.out_links, m0.out_link_slots), ([2], [0], [], []), "output links")
    eq((m2.in_links, m2.in_link_slots, m2.out_links, m2.out_link_slots), ([3], [0], [0], [0]), "amp one links")
    eq((m3.in_links, m3.in_link_slots, m3.out_links, m3.out_link_slots), ([], [], [2], [0]), "amp two links")
    eq((m2.name, m2.mtype, m2.flags), ("amp one", "Amplifier", 0x51), "amp one ident")
    eq((m2.mod_finetune, m2.mod_relative_note, m2.layer, m2.mod_scale), (-33, 4, 3, 128), "amp one misc")
    eq(int(m2.visualization), 0x12345678, "SVPR")
    eq((m2.midi_in_always, m2.midi_in_channel), (True, 7), "SMII")
    eq((m2.midi_out_name, m2.midi_out_channel, m2.midi_out_bank, m2.midi_out_program), ("dev", 3, 5, 9), "midi out")
    eq((m0.midi_in_always, m0.midi_in_channel, m0.midi_out_name), (False, 0, None), "output midi defaults")
    amp = lambda m: (m.volume, m.balance, m.dc_offset, m.inverse, m.stereo_width, m.absolute, m.fine_volume, m.gain, m.bipolar_dc_offset)
    eq(amp(m2), (700, -100, 72, False, 128, False, 32768, 1, 0), "truncated CVAL list leaves defaults")
    eq(amp(m3), (1, -126, -125, True, 4, False, 5, 6, 6), "full CVAL list")
    names = ["volume", "balance", "dc_offset", "inverse", "stereo_width", "absolute", "fine_volume", "gain", "bipolar_dc_offset"]
    got = [
        (mm.message_type.value, mm.channel, mm.slope.value, mm.message_parameter)
        for mm in (m3.controller_midi_maps[n] for n in names)
    ]
    eq(got, [(i % 9, i, i % 6, 1000 + i) for i in range(9)], "CMID")


def ref_blob():
    return join_chunks(enc_project_chunks(REF))


# digests of snapshot() for every shipped fixture, recorded on the unchanged tree
GOLDEN = {
    "amplifier.sunsynth": "5d6f880fedb5f904",
    "analog-generator.sunsynth": "3be7ceb0f016ec9c",
    "compressor.sunsynth": "e6f1038422f61688",
    "dc-blocker.sunsynth": "90aa1998869f0f48",
    "delay.sunsynth": "2e38f4fe0ca15aaa",
    "distortion.sunsynth": "1969b322f8a5dde9",
    "drum-synth.sunsynth": "488e1601728c1116",
    "echo.sunsynth": "580eaffedbb69fc2",
    "empty.sunvox": "66be1e92ec6532c7",
    "eq.sunsynth": "8f01a6e2c2d07800",
    "feedback.sunsynth": "7ad817f8f81fcd5a",
    "fft.sunsynth": "a0b0d6b410ada8bb",
    "filter-pro.sunsynth": "b3d981a8716b0a32",
    "filter.sunsynth": "43405146cbcc1e50",
    "flanger.sunsynth": "b12b2f389e627572",
    "fmx.sunsynth": "de9a7f9d3d90ad76",
    "generator.sunsynth": "624283da0b85d36b",
    "glide.sunsynth": "1cf43fc4070de7c7",
    "gpio.sunsynth": "cb05b77d563c8a09",
    "input.sunsynth": "a23f54a65f8c8ba9",
    "issue109/filter_lfo.sunvox": "6e55d05c6f26ed39",
    "issue41/sample.sunvox": "e11853aeb1ba9611",
    "issue54/test1.sunvox": "cea9ca107590a02d",
    "kicker.sunsynth": "59a6b8c06e9c1d8f",
    "lfo.sunsynth": "0d5bb121971aa05b",
    "loop.sunsynth": "4093635d3bd2e484",
    "metamodule-option-78.sunsynth": "c2666b79cc73033d",
    "metamodule-option-79.sunsynth": "2e5939fff56e3dbf",
    "metamodule-option-7a.sunsynth": "685d1bbb11bfd64a",
    "metamodule.sunsynth": "8fcc8d3bee277fda",
    "modulator.sunsynth": "15bace403c9eb3db",
    "module-multiselect.sunvox": "1683412b3881c570",
    "multictl.sunsynth": "b8e6c11ab7bcf06f",
    "multisynth-random-off.sunsynth": "741bd3f6ffea1442",
    "multisynth-random1.sunsynth": "aab8a6004f28bc26",
    "multisynth-random2.sunsynth": "ba1ea7fa357d858d",
    "multisynth-random3.sunsynth": "3f7571e21c859ac3",
    "multisynth.sunsynth": "f186cdab2dcb36b4",
    "pitch-shifter.sunsynth": "16664fcadd126d60",
    "pitch2ctl.sunsynth": "c3e5861640f5b8f2",
    "reverb.sunsynth": "bd96b899a99dcc63",
    "sampler.sunsynth": "d1c3c5ea0833ffdb",
    "single-fm.sunvox": "f67221a4f23364ad",
    "smooth.sunsynth": "9d2eebad4c95b971",
    "sound2ctl.sunsynth": "b43aafd48fbbc1ba",
    "spectravoice.sunsynth": "65143c11826b3abd",
    "supertracks.sunvox": "5596f5c3251e421d",
    "velocity2ctl.sunsynth": "663791474a8a7277",
    "vibrato.sunsynth": "abe22eeb52538033",
    "vocal-filter.sunsynth": "b4280c62a5d055c0",
    "vorbis-player.sunsynth": "03d538592c4550f5",
    "waveshaper.sunsynth": "0f1cfe307027aef4",
}


def check_fixtures_golden():
    paths = fixture_paths()
    check(len(paths) == len(GOLDEN), "fixture count %d" % len(paths))
    for p in paths:
        key = str(p.relative_to(FILES)).replace(os.sep, "/")
        got = digest(load(p.read_bytes()))
        check(got == GOLDEN.get(key), "golden digest differs for %s: %s" % (key, got))


# ================================================================ checks for refactoring 1
# (Reader.process_chunks / rewind / read_sunvox_file / rv.lib.iff.chunks, write_chunk)
import tempfile

import rv.errors
from rv.lib.iff import chunks as iff_chunks, write_chunk
from rv.readers.initial import InitialReader
from rv.readers.module import ModuleReader
from rv.readers.reader import Reader, ReaderFinished
from rv.readers.sunvox import SunVoxReader


class LogCapture(logging.Handler):
    def __init__(self):
        super().__init__(level=logging.DEBUG)
        self.records = []

    def emit(self, record):
        self.records.append((record.name, record.levelname, record.getMessage()))

    def __enter__(self):
        logging.disable(logging.NOTSET)
        root = logging.getLogger("rv")
        self._old = root.level
        root.setLevel(logging.DEBUG)
        root.addHandler(self)
        return self

    def __exit__(self, *exc):
        root = logging.getLogger("rv")
        root.removeHandler(self)
        root.setLevel(self._old)
        logging.disable(logging.CRITICAL)


def test_iff_chunks():
    items = [(b"ABCD", b""), (b"BPM ", b"\x01\x02\x03"), (b"X\x00YZ", bytes(range(255))), (b"LAST", b"z")]
    blob = join_chunks(items)
    check(list(iff_chunks(io.BytesIO(blob))) == items, "chunks(): plain stream")
    # trailing garbage shorter than a header ends iteration silently
    for extra in (b"A", b"ABC", b"ABCD", b"ABCD\x01\x00", b"ABCD\x01\x00\x00"):
        check(list(iff_chunks(io.BytesIO(blob + extra))) == items, "chunks(): short header %r" % extra)
    # truncated payload: short data is yielded, then iteration ends
    got = list(iff_chunks(io.BytesIO(blob + b"TRNC" + u32(10) + b"abc")))
    check(got == items + [(b"TRNC", b"abc")], "chunks(): truncated payload")
    check(list(iff_chunks(io.BytesIO(b""))) == [], "chunks(): empty")

    class NoSeek:
        def __init__(self, b):
            self._f = io.BytesIO(b)

        def read(self, n=-1):
            return self._f.read(n)

    check(list(iff_chunks(NoSeek(blob))) == items, "chunks(): unseekable stream")
    # the stream position after each yielded chunk is just past its payload
    f = io.BytesIO(blob)
    pos, expect = [], 0
    for cid, data in iff_chunks(f):
        pos.append(f.tell())
    acc = []
    for cid, data in items:
        expect += 8 + len(data)
        acc.append(expect)
    check(pos == acc, "chunks(): positions %r" % pos)
    # write_chunk round trip incl. padding / truncation of ids / None
    out = io.BytesIO()
    write_chunk(out, b"BPM", b"\x01")
    write_chunk(out, None, b"ignored")
    write_chunk(out, b"TOOLONG", b"")
    write_chunk(out, b"", b"xy")
    check(
        out.getvalue() == b"BPM " + u32(1) + b"\x01" + b"TOOL" + u32(0) + b"    " + u32(2) + b"xy",
        "write_chunk bytes",
    )

    class Rec:
        def __init__(self):
            self.w = []

        def write(self, b):
            self.w.append(bytes(b))

    r = Rec()
    write_chunk(r, b"AB", b"123")
    check(r.w == [b"AB  ", u32(3), b"123"], "write_chunk write calls")


def test_dispatch_and_logging():
    calls = []

    class R(Reader):
        process_JUNK = "not callable"

        def process_AAAA(self, data):
            calls.append(("AAAA", data, self.f.tell()))

        def process_BB(self, data):
            calls.append(("BB", data, self.f.tell()))
            self.rewind(data)
            calls.append(("rewound", self.f.tell()))
            self.f.seek(self.f.tell() + 8 + len(data))

        def process_STOP(self, data):
            self.object = "done"
            raise ReaderFinished()

    blob = join_chunks(
        [(b"AAAA", b"12345"), (b"ZZZZ", b"?"), (b"JUNK", b""), (b" BB ", b"xyz"), (b"STOP", b""), (b"AAAA", b"never")]
    )
    with LogCapture() as lc:
        r = R(io.BytesIO(blob))
        check(r.object == "done", "dispatch: object")
    check(
        calls == [("AAAA", b"12345", 13), ("BB", b"xyz", 13 + 9 + 8 + 11), ("rewound", 13 + 9 + 8)],
        "dispatch: calls %r" % calls,
    )
    msgs = [(lvl, msg) for name, lvl, msg in lc.records if name == "rv.readers.reader"]
    check(
        msgs
        == [
            ("DEBUG", "-> R.process_AAAA"),
            ("WARNING", "no R.process_ZZZZ method"),
            ("WARNING", "no R.process_JUNK method"),
            ("DEBUG", "-> R.process_BB"),
            ("DEBUG", "-> R.process_STOP"),
        ],
        "dispatch: log messages %r" % msgs,
    )
    # reaching EOF without a handler
    try:
        R(io.BytesIO(join_chunks([(b"AAAA", b"")]))).object
        check(False, "EOF without handler must raise")
    except RuntimeError as e:
        check(str(e) == "Reached end of file without a handler", "EOF message %r" % str(e))
    # object can only be set once
    r = R(io.BytesIO(b""))
    r.object = 1
    try:
        r.object = 2
        check(False, "second set must raise")
    except AttributeError as e:
        check(str(e) == "object was already set", "setter message")
    check(r.object == 1, "object kept")
    # PAMD is accepted and ignored by every reader
    check(Reader(io.BytesIO(b"")).process_PAMD(b"x") is None, "PAMD")
    # non-utf8 chunk id propagates the decode error
    try:
        R(io.BytesIO(join_chunks([(b"\xff\xfe\xfd\xfc", b"")]))).object
        check(False, "bad id must raise")
    except UnicodeDecodeError:
        pass
    # InitialReader: neither SVOX nor SSYN -> None; module reader at EOF -> RuntimeError
    check(load(join_chunks([(b"ABCD", b"")])) is None, "no magic -> None")
    check(load(b"") is None, "empty -> None")
    try:
        load(join_chunks([(b"SVOX", b""), (b"VERS", ver((1, 9, 6, 1))), (b"SFFF", u32(0)), (b"SNAM", b"x\0")]))
        check(False, "unterminated module must raise")
    except RuntimeError as e:
        check(str(e) == "Reached end of file without a handler", "unterminated module msg")


def test_read_entry_points():
    blob = ref_blob()
    want = digest(load(blob))
    with tempfile.TemporaryDirectory() as d:
        path = Path(d) / "ref.sunvox"
        path.write_bytes(blob)
        check(digest(read_sunvox_file(str(path))) == want, "read via str path")
        check(digest(read_sunvox_file(path)) == want, "read via Path")
        with path.open("rb") as f:
            check(digest(read_sunvox_file(f)) == want, "read via file object")
            check(not f.closed, "caller's file object stays open")
        bad = Path(d) / "bad.sunvox"
        bad.write_bytes(join_chunks([(b"SVOX", b""), (b"VERS", b"\x01")]))
        opened = []
        real_open = Path.open

        def spy(self, *a, **kw):
            fh = real_open(self, *a, **kw)
            opened.append(fh)
            return fh

        Path.open = spy
        try:
            read_sunvox_file(str(path))
            try:
                read_sunvox_file(bad)
                check(False, "bad VERS must raise")
            except struct.error:
                pass
        finally:
            Path.open = real_open
        check(len(opened) == 2 and all(fh.closed for fh in opened), "files we opened get closed")
        try:
            read_sunvox_file(str(Path(d) / "missing.sunvox"))
            check(False, "missing file must raise")
        except FileNotFoundError:
            pass
    bio = io.BytesIO(blob)
    read_sunvox_file(bio)
    check(not bio.closed, "BytesIO stays open")
    # the controller-value error flag is overridden during the read and restored after
    seen = []

    class Probe(io.BytesIO):
        def read(self, n=-1):
            seen.append(rv.errors.RAISE_CONTROLLER_VALUE_ERRORS)
            return super().read(n)

    for initial in (True, False):
        rv.errors.RAISE_CONTROLLER_VALUE_ERRORS = initial
        del seen[:]
        read_sunvox_file(Probe(blob))
        check(set(seen) == {rv.errors.RAISE_RANGE_ERRORS_ON_READ}, "flag during read")
        check(rv.errors.RAISE_CONTROLLER_VALUE_ERRORS is initial, "flag restored")
        try:
            read_sunvox_file(Probe(join_chunks([(b"SVOX", b""), (b"BPM ", b"")])))
            check(False, "bad BPM must raise")
        except struct.error:
            pass
        check(rv.errors.RAISE_CONTROLLER_VALUE_ERRORS is initial, "flag restored after error")
    rv.errors.RAISE_CONTROLLER_VALUE_ERRORS = True


def test_unknown_chunks_everywhere(blob, label, step=1):
    items = split_chunks(blob)
    want = digest(load(blob))
    junk = [(b"QQQQ", b""), (b"zz9 ", b"\x00\x01\x02"), (b"Ab1!", bytes(41))]
    for pos in range(1, len(items) + 1, step):
        edited = items[:pos] + [junk[pos % 3]] + items[pos:]
        try:
            got = digest(load(join_chunks(edited)))
        except Exception as e:  # noqa
            got = "raised %r" % (e,)
        check(got == want, "%s: unknown chunk at %d changed result: %s" % (label, pos, got))


def test_rewind_nested_readers():
    # Module/pattern sections are re-read by nested readers from their first chunk;
    # payload sizes of that first chunk must not matter (rewind uses len(data)).
    for n_lines in (1, 2, 5):
        d = dict(REF)
        d["patterns"] = [
            dict(notes=[[(i, 1, 2, 3, 4)] for i in range(n_lines)], name="p"),
            dict(clone_of=0),
        ]
        p = load(join_chunks(enc_project_chunks(d)))
        check([n.note for line in p.patterns[0].data for n in line] == list(range(n_lines)), "rewind PDTA %d" % n_lines)
        check(p.patterns[1].source == 0, "rewind PPAR")
        check([type(m).__name__ for m in p.modules] == ["Output", "NoneType", "Amplifier", "Amplifier"], "rewind SFFF")
    # sunsynth: module section inside SSYN
    syn = join_chunks([(b"SSYN", b""), (b"VERS", ver((2, 1, 2, 1)))] + enc_module(REF["modules"][2]))
    s = load(syn)
    check(type(s).__name__ == "Synth" and s.loaded_sunsynth_version == (2, 1, 2, 1), "synth header")
    check((s.module.name, s.module.volume, s.module.balance, s.module.gain) == ("amp one", 700, -100, 1), "synth module")
    test_unknown_chunks_everywhere(syn, "ref synth")


test_iff_chunks()
test_dispatch_and_logging()
test_read_entry_points()
check_ref_project(load(ref_blob()))
test_unknown_chunks_everywhere(ref_blob(), "ref project")
test_rewind_nested_readers()
check_fixtures_golden()
for name, step in (("single-fm.sunvox", 1), ("metamodule.sunsynth", 1), ("supertracks.sunvox", 7), ("issue109/filter_lfo.sunvox", 5)):
    test_unknown_chunks_everywhere((FILES / name).read_bytes(), name, step)
finish()
