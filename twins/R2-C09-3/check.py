"""Behaviour check for property C09 (controller domains and defaults).

Run from the repository root:
    PYTHONPATH=<root>/src/python python check.py
Prints PASS and exits 0 when behaviour is as expected.
"""
import keyword
import logging
import os
import sys
from enum import Enum

import yaml

import rv.errors
from rv.controller import (
    CompactRange,
    Controller,
    DependentRange,
    NoOffsetRange,
    Range,
    WarnOnlyRange,
)
from rv.errors import (
    ControllerValueError,
    RangeValidationError,
    override_raise_controller_value_errors,
    raise_or_warn_controller_value_validation,
)
from rv.modules import MODULE_CLASSES, Module
from rv.modules.meta import ModuleMeta

FAILURES = []
COUNTS = {"checks": 0}


def check(cond, *what):
    COUNTS["checks"] += 1
    if not cond:
        FAILURES.append(" ".join(str(w) for w in what))


class Capture(logging.Handler):
    def __init__(self):
        super().__init__(level=logging.DEBUG)
        self.records = []

    def emit(self, record):
        self.records.append(record)

    def take(self):
        out, self.records = self.records, []
        return out


CAP = Capture()
for logger_name in ("rv.controller", "rv.modules.module"):
    lg = logging.getLogger(logger_name)
    lg.addHandler(CAP)
    lg.setLevel(logging.DEBUG)
    lg.propagate = False

SPEC_PATH = os.path.join(os.getcwd(), "specs", "fileformat.yaml")
with open(SPEC_PATH) as f:
    SPEC = yaml.safe_load(f)["module_types"]


def spec_items():
    for cls_name, m in SPEC.items():
        mtype = m.get("type") or cls_name
        ctls = []
        for c in m.get("controllers") or []:
            ((name, d),) = c.items()
            if keyword.iskeyword(name):
                name += "_"
            ctls.append((name, d))
        yield cls_name, mtype, ctls


def expected_message(mod, name, value, lo, hi):
    return "{:x}({}).{}={} is not within [{}, {}]".format(
        mod.index or 0, mod.mtype, name, value, lo, hi
    )


# ---------------------------------------------------------------- defaults
def check_defaults_against_spec():
    n_ctl = 0
    for cls_name, mtype, ctls in spec_items():
        cls = MODULE_CLASSES[mtype]
        check(cls.__name__ == cls_name, "class name", cls_name)
        mod = cls()
        check(CAP.take() == [], "default construction logs nothing", cls_name)
        names = [n for n, _ in ctls]
        check(list(cls.controllers)[: len(names)] == names, "ctl order", cls_name)
        for i, (name, d) in enumerate(ctls, 1):
            n_ctl += 1
            c = cls.controllers[name]
            check(c.name == name, "ctl name", cls_name, name)
            check(c.number == i, "ctl number", cls_name, name, c.number)
            check(c.label == name.replace("_", " ").title(), "label", cls_name, name)
            check(getattr(cls, name) is c, "class access gives descriptor", name)
            got = getattr(mod, name)
            check(mod.controller_values[name] is got, "value stored", cls_name, name)
            check(name in mod.controllers_loaded, "loaded", cls_name, name)
            if "enum" in d:
                enum = getattr(cls, d["enum"])
                spec_value = SPEC[cls_name]["enums"][d["enum"]][d["default"]]
                check(got is enum(spec_value), "enum default", cls_name, name, got)
                check(c.value_type is enum, "enum type", cls_name, name)
            elif "bool" in d:
                check(got is d["default"], "bool default", cls_name, name, got)
                check(c.value_type is bool, "bool type", cls_name, name)
            elif "ranges" in d:
                check(got == d["default"], "dep default", cls_name, name, got)
                check(isinstance(c.value_type, DependentRange), "dep type", name)
            else:
                check(got == d["default"], "range default", cls_name, name, got)
                check(type(got) is type(d["default"]), "default type", cls_name, name)
                t = c.value_type
                check(isinstance(t, Range), "range type", cls_name, name)
                check((t.min, t.max) == (d["min"], d["max"]), "bounds", cls_name, name)
                want = (
                    CompactRange
                    if d.get("compact")
                    else NoOffsetRange
                    if d.get("no_offset")
                    else Range
                )
                check(type(t) is want, "range class", cls_name, name, type(t))
    check(n_ctl == 502, "502 controllers", n_ctl)
    check(len(MODULE_CLASSES) == 43, "43 module types")


# ------------------------------------------------------------- assignment
def try_set(mod, name, value):
    try:
        setattr(mod, name, value)
    except Exception as e:  # noqa
        return e
    return None


def candidate_values(t):
    if isinstance(t, Range):
        mid = (t.min + t.max) // 2
        return [t.min - 1, t.min, mid, t.max, t.max + 1, t.min - 1000, t.max + 70000]
    if isinstance(t, type) and issubclass(t, Enum):
        vals = []
        for m in t:
            vals += [m, m.value, m.name]
        values = [m.value for m in t]
        vals += [max(values) + 1, min(values) - 1, "no_such_member", ""]
        return vals
    if t is bool:
        return [True, False, 1, 0, 2, "x", "", None]
    return [0, 1]


def model(t, value):
    """Return ("ok", stored) | ("range", lo, hi, warn_only) | ("exc", type)."""
    if isinstance(value, str) and isinstance(t, type) and issubclass(t, Enum):
        if value in t.__members__:
            return ("ok", t[value])
        return ("exc", KeyError)
    if t is None:
        return ("ok", None)
    if isinstance(t, Range):
        if value < t.min or value > t.max:
            return ("range", t.min, t.max, isinstance(t, WarnOnlyRange))
        return ("ok", value)
    if isinstance(t, type) and issubclass(t, Enum):
        try:
            return ("ok", t(value))
        except ValueError:
            return ("exc", ValueError)
    return ("ok", t(value))


def check_assignment(strict):
    for mtype, cls in sorted(MODULE_CLASSES.items()):
        mod = cls(index=0x1F)
        CAP.take()
        events = []

        class Parent:
            def on_controller_changed(self, module, controller, value, down, up):
                events.append(("parent", module, controller, value, down, up))

        mod.parent = Parent()
        for name, c in cls.controllers.items():
            if name.startswith("user_defined_"):
                continue  # covered by check_metamodule_user_defined

            def specific(value, down, up, _n=name):
                events.append(("specific", _n, value, down, up))

            setattr(mod, "on_%s_changed" % name, specific)
            t0 = c.instance_value_type(mod)
            for value in candidate_values(t0):
                t = c.instance_value_type(mod)
                before = mod.controller_values[name]
                del events[:]
                with override_raise_controller_value_errors(strict):
                    err = try_set(mod, name, value)
                check(rv.errors.RAISE_CONTROLLER_VALUE_ERRORS is True, "flag restored")
                after = mod.controller_values[name]
                check(getattr(mod, name) is after, "getattr reads store", mtype, name)
                logs = CAP.take()
                m = model(t, value)
                ctx = (mtype, name, repr(value), "strict" if strict else "lenient")
                ok_events = [
                    ("specific", name, value, True, True),
                    ("parent", mod, c.controller(mod), value, False, True),
                ]
                if m[0] == "ok":
                    check(err is None, "no error", err, *ctx)
                    check(after == m[1] and type(after) is type(m[1]), "stored", *ctx)
                    check(logs == [], "no logs", *ctx)
                    check(events == ok_events, "callbacks", events, *ctx)
                elif m[0] == "exc":
                    check(type(err) is m[1], "exception type", repr(err), *ctx)
                    check(after is before, "unchanged after error", *ctx)
                    check(events == [], "no callbacks on error", *ctx)
                    check(logs == [], "no logs on error", *ctx)
                else:
                    _, lo, hi, warn_only = m
                    if warn_only:
                        check(err is None, "warn-only never raises", err, *ctx)
                        check(after == value, "warn-only stores", *ctx)
                        check(len(logs) == 1, "one warning", len(logs), *ctx)
                        if logs:
                            r = logs[0]
                            check(r.levelno == logging.WARNING, "level", *ctx)
                            check(r.name == "rv.controller", "logger", *ctx)
                            check(
                                r.getMessage() == str((value, lo, hi)),
                                "warn-only text",
                                r.getMessage(),
                                *ctx
                            )
                            check(not r.exc_info, "no exc_info", *ctx)
                        check(events == ok_events, "callbacks", events, *ctx)
                    elif strict:
                        check(type(err) is ControllerValueError, "CVE", repr(err), *ctx)
                        check(isinstance(err, ValueError), "is ValueError", *ctx)
                        if err is not None:
                            msg = expected_message(mod, name, value, lo, hi)
                            check(err.args == (msg,), "message", err.args, msg)
                            cause = err.__cause__
                            check(type(cause) is RangeValidationError, "cause", *ctx)
                            check(cause.args == (value, lo, hi), "cause args", *ctx)
                        check(after is before, "previous value remains", *ctx)
                        check(events == [], "no callbacks when rejected", *ctx)
                        check(logs == [], "no logs when raising", *ctx)
                    else:
                        check(err is None, "lenient does not raise", err, *ctx)
                        check(after == value, "lenient stores raw value", after, *ctx)
                        check(len(logs) == 1, "one warning", len(logs), *ctx)
                        if logs:
                            r = logs[0]
                            msg = expected_message(mod, name, value, lo, hi)
                            check(r.getMessage() == msg, "log text", r.getMessage())
                            check(r.levelno == logging.WARNING, "level", *ctx)
                            check(r.name == "rv.controller", "logger", *ctx)
                            check(
                                r.exc_info
                                and type(r.exc_info[1]) is RangeValidationError
                                and r.exc_info[1].args == (value, lo, hi),
                                "exc_info",
                                *ctx
                            )
                        check(events == ok_events, "callbacks", events, *ctx)
            # restore a sane value so that dependent ranges stay predictable
            with override_raise_controller_value_errors(False):
                setattr(mod, name, c.default)
            CAP.take()


def check_metamodule_user_defined():
    """User defined controllers are reached through a proxy descriptor."""
    MetaModule = MODULE_CLASSES["MetaModule"]
    mm = MetaModule(index=2)
    names = list(MetaModule.controllers)
    check(len(names) == 5 + 96, "5 + 96 controllers", len(names))
    check(names[5] == "user_defined_1" and names[-1] == "user_defined_96", "ud names")
    check([MetaModule.controllers[n].number for n in names] == list(range(1, 102)), "nums")
    check(mm.user_defined_1 == 0 and mm.user_defined_96 == 0, "ud defaults")
    err = try_set(mm, "user_defined_2", 44101)
    check(type(err) is ControllerValueError, "ud strict", repr(err))
    if err is not None:
        check(err.args == ("2(MetaModule).user_defined_2=44101 is not within [0, 44100]",),
              "ud message", err.args)
    check(mm.user_defined_2 == 0, "ud previous value remains")
    # In-range values are stored before the (unmapped) target lookup fails.
    err = try_set(mm, "user_defined_2", 44100)
    check(type(err) is IndexError, "unmapped target", repr(err))
    check(mm.user_defined_2 == 44100, "ud stored")
    with override_raise_controller_value_errors(False):
        err = try_set(mm, "user_defined_3", -1)
    check(type(err) is IndexError and mm.user_defined_3 == -1, "ud lenient", repr(err))
    logs = CAP.take()
    check([r.getMessage() for r in logs]
          == ["2(MetaModule).user_defined_3=-1 is not within [0, 44100]"], "ud log")
    try:
        MetaModule(user_defined_4=50000)
    except ControllerValueError as e:
        check(e.args == ("0(MetaModule).user_defined_4=50000 is not within [0, 44100]",),
              "ud ctor")
    else:
        check(False, "ud ctor must raise")
    check(MetaModule(user_defined_4=5).user_defined_4 == 5, "ud ctor ok")


# ------------------------------------------------------------ constructor
def check_constructor():
    m = MODULE_CLASSES
    amp = m["Amplifier"](volume=1024, balance=-128, inverse=1, index=3, name="A")
    check((amp.volume, amp.balance, amp.inverse) == (1024, -128, True), "kw values")
    check(amp.inverse is True, "bool coerced")
    check((amp.index, amp.name) == (3, "A"), "index/name")
    for kw in ({"volume": 1025}, {"volume": -1}, {"balance": 129}, {"gain": 5001}):
        try:
            m["Amplifier"](**kw)
        except ControllerValueError as e:
            ((k, v),) = kw.items()
            t = m["Amplifier"].controllers[k].value_type
            want = "0(Amplifier).{}={} is not within [{}, {}]".format(k, v, t.min, t.max)
            check(e.args == (want,), "ctor message", e.args)
            check(type(e.__cause__) is RangeValidationError, "ctor cause")
        else:
            check(False, "ctor kw must be rejected", kw)
    check(CAP.take() == [], "strict ctor logs nothing")
    with override_raise_controller_value_errors(False):
        amp = m["Amplifier"](volume=1025, index=0x2A)
    check(amp.volume == 1025, "lenient ctor stores")
    logs = CAP.take()
    check(
        [r.getMessage() for r in logs]
        == ["2a(Amplifier).volume=1025 is not within [0, 1024]"],
        "lenient ctor log",
        [r.getMessage() for r in logs],
    )
    adsr = m["ADSR"](attack_curve="exp2", sustain=2, sustain_pedal=True)
    check(adsr.attack_curve is m["ADSR"].Curve.exp2, "enum by name in ctor")
    check(adsr.sustain is m["ADSR"].Sustain.repeat, "enum by value in ctor")
    for kw, exc in (({"sustain": 3}, ValueError), ({"sustain": "nope"}, KeyError)):
        try:
            m["ADSR"](**kw)
        except exc as e:
            check(type(e) is exc, "exact enum exception", repr(e))
        else:
            check(False, "enum ctor must fail", kw)
    # Dependent ranges are seeded after what they depend on.
    Lfo = m["LFO"]
    lfo = Lfo(freq=3000, frequency_unit="ms")
    check(lfo.freq == 3000 and lfo.frequency_unit is Lfo.FrequencyUnit.ms, "lfo")
    check(CAP.take() == [], "in-range dependent value logs nothing")
    lfo = Lfo(freq=3000)
    check(lfo.freq == 3000, "warn-only dependent value stored")
    check([r.getMessage() for r in CAP.take()] == ["(3000, 1, 2048)"], "lfo warn")
    lfo = Lfo(freq=300, frequency_unit=Lfo.FrequencyUnit.tick)
    check([r.getMessage() for r in CAP.take()] == ["(300, 1, 256)"], "lfo warn 2")
    check(Lfo.controllers["freq"].instance_value_type(lfo) == WarnOnlyRange(1, 256), "t")
    lfo.frequency_unit = "hz"
    check(Lfo.controllers["freq"].instance_value_type(lfo) == WarnOnlyRange(1, 16384), "t")
    Loop = m["Loop"]
    loop = Loop(length=9000, length_unit=Loop.LengthUnit.line)
    check([r.getMessage() for r in CAP.take()] == ["(9000, 0, 8192)"], "loop warn")
    check(loop.length == 9000, "loop length")
    check(list(loop.controller_values) == [
        k for k, c in Loop.controllers.items()
        if not isinstance(c.value_type, DependentRange)
    ] + [
        k for k, c in Loop.controllers.items()
        if isinstance(c.value_type, DependentRange)
    ], "seeding order: independent first, then dependent")
    # Common attributes and the scale collision.
    Smooth = m["Smooth"]
    s = Smooth()
    check(s.controller_values["scale"] == 100, "Smooth.scale ctl default")
    check(s.mod_scale == 256, "Smooth.mod_scale default")
    s = Smooth(scale=400, mod_scale=300)
    check((s.controller_values["scale"], s.mod_scale) == (400, 300), "Smooth kw")
    try:
        Smooth(scale=401)
    except ControllerValueError:
        pass
    else:
        check(False, "Smooth(scale=401) must be rejected")
    a = m["Amplifier"](scale=300)
    check((a.mod_scale, a.scale) == (300, 300), "scale kw on ordinary module")
    a = m["Amplifier"](scale=300, mod_scale=200)
    check(a.mod_scale == 300, "scale wins over mod_scale")
    a.scale = 111
    check(a.mod_scale == 111, "scale property setter")
    d = m["Amplifier"]()
    want = dict(
        index=None, parent=None, mod_finetune=0, mod_relative_note=0, x=512, y=512,
        layer=0, mod_scale=256, color=(255, 255, 255), midi_in_always=False,
        midi_in_channel=0, midi_out_name=None, midi_out_channel=0, midi_out_bank=-1,
        midi_out_program=-1, name="Amplifier", in_links=[], in_link_slots=[],
        out_links=[], out_link_slots=[], option_values={},
    )
    for k, v in want.items():
        check(getattr(d, k) == v and type(getattr(d, k)) is type(v), "common", k)
    check(int(d.visualization) == 0x000C0101, "visualization default")
    check(d._visualization == 0x000C0101, "raw visualization")
    check(len(d.controller_midi_maps) == 0, "midi maps empty")
    e = m["Amplifier"]()
    for k in ("in_links", "in_link_slots", "out_links", "out_link_slots"):
        check(getattr(d, k) is not getattr(e, k), "fresh list", k)
        check(getattr(d, k) is not getattr(d, "out_links" if k != "out_links" else "in_links"), k)
    check(d.controller_values is not e.controller_values, "fresh dict")
    kw = dict(
        finetune=-3, relative_note=7, x=1, y=2, layer=3, mod_scale=9, color=(1, 2, 3),
        midi_in_always=True, midi_in_channel=4, midi_out_name="dev", midi_out_channel=5,
        midi_out_bank=6, midi_out_program=7, visualization=0x123, name=None,
    )
    g = m["Generator"](**kw)
    got = (
        g.mod_finetune, g.mod_relative_note, g.x, g.y, g.layer, g.mod_scale, g.color,
        g.midi_in_always, g.midi_in_channel, g.midi_out_name, g.midi_out_channel,
        g.midi_out_bank, g.midi_out_program, int(g.visualization), g.name,
    )
    check(got == (-3, 7, 1, 2, 3, 9, (1, 2, 3), True, 4, "dev", 5, 6, 7, 0x123,
                  "Generator"), "common kw", got)
    ms = m["MultiSynth"](trigger=True, static_note_c=True)
    check(ms.trigger is True and ms.option_values["trigger"] is True, "options seeded")
    check(m["MultiSynth"]().option_values["trigger"] is False, "option default")
    # Serialised form of default modules (common attributes go to the right chunks).
    for mtype, cls in sorted(MODULE_CLASSES.items()):
        mod = cls(x=10, y=20, layer=2, scale=300 if "scale" not in cls.controllers else 50)
        chunks = dict(mod.iff_chunks(in_project=True))
        check(chunks[b"SXXX"] == (10).to_bytes(4, "little"), "SXXX", mtype)
        check(chunks[b"SYYY"] == (20).to_bytes(4, "little"), "SYYY", mtype)
        check(chunks[b"SZZZ"] == (2).to_bytes(4, "little"), "SZZZ", mtype)
        exp_scale = 300 if "scale" not in cls.controllers else 256
        check(chunks[b"SSCL"] == exp_scale.to_bytes(4, "little"), "SSCL", mtype)
        check(chunks[b"SFIN"] == b"\0" * 4 and chunks[b"SREL"] == b"\0" * 4, "fin", mtype)
        for name, c in cls.controllers.items():
            if name.startswith("user_defined_"):
                continue
            t = c.instance_value_type(mod)
            raw = mod.get_raw(name)
            val = mod.controller_values[name]
            if isinstance(val, Enum):
                val = val.value
            if isinstance(t, Range) and t.min < 0 and not isinstance(t, NoOffsetRange):
                check(raw == val - t.min, "raw shifted", mtype, name)
            else:
                check(raw == int(val), "raw", mtype, name)
    CAP.take()


# ------------------------------------- metaclass / strictness switch extras
def check_meta_and_switch_extras():
    from collections import namedtuple

    from rv.option import Option

    saved = dict(MODULE_CLASSES)
    try:
        shared = Controller((0, 3), 1)
        first = Controller((0, 5), 2)
        ns = dict(
            yy=shared,
            bb=shared,  # the same controller under two names
            aa=first,
            opt_z=Option("opt_z", 0, 1, 1, True),
            opt_a=Option("opt_a", 0, 0, 1, False),
            not_a_ctl=(0, 5),
            mtype="Alias",
            mgroup="Test",
            flags=0,
        )
        Alias = ModuleMeta("Alias", (Module,), ns)
        # `shared` was created first; its two names tie and stay alphabetical.
        check(list(Alias.controllers) == ["bb", "yy", "aa"], "alias order",
              list(Alias.controllers))
        check((shared.name, shared.number, shared.label) == ("yy", 2, "Yy"), "alias attrs",
              (shared.name, shared.number, shared.label))
        check((first.name, first.number, first.label) == ("aa", 3, "Aa"), "first attrs")
        check(list(Alias.options) == ["opt_a", "opt_z"], "options alphabetical")
        check(Alias.options["opt_z"] is ns["opt_z"], "option objects kept")
        a = Alias()
        check(a.controller_values == {"yy": 1, "aa": 2}, "alias values", a.controller_values)
        check(a.option_values == {"opt_a": False, "opt_z": True}, "alias options")

        # Redefining an inherited controller moves it to the end (newer _order).
        ns2 = dict(aa=Controller((0, 7), 7), mtype="Alias2", mgroup="Test", flags=0)
        Alias2 = ModuleMeta("Alias2", (Alias,), ns2)
        check(list(Alias2.controllers) == ["bb", "yy", "aa"], "override order")
        check(Alias2.controllers["aa"] is ns2["aa"] and ns2["aa"].number == 3, "override")
        check(Alias2().aa == 7, "override default")
        check(list(Alias.controllers) == ["bb", "yy", "aa"] and first.number == 3, "base kept")
        check(Alias2.options == Alias.options and Alias2.options is not Alias.options,
              "options recomputed per class")
        # keyword-like and multi-word names
        ns3 = dict(in_=Controller(bool, False), a_b_c=Controller(bool, True),
                   mtype="Lbl", mgroup="Test", flags=0)
        Lbl = ModuleMeta("Lbl", (Module,), ns3)
        check([c.label for c in Lbl.controllers.values()] == ["In ", "A B C"], "labels")
        # a class without controllers
        Bare = ModuleMeta("Bare", (Module,), dict(mtype="Bare", mgroup="Test", flags=0))
        check(Bare.controllers == {} and Bare.options == {}, "bare")
        check("This module has no controllers." in Bare.__doc__, "bare doc")
        check(Module.controllers == {} and Module.options == {}, "Module itself")
    finally:
        MODULE_CLASSES.clear()
        MODULE_CLASSES.update(saved)

    # Every real module: numbering is 1..n in creation order, names match keys.
    for mtype, cls in sorted(MODULE_CLASSES.items()):
        cs = list(cls.controllers.items())
        check([c.number for _, c in cs] == list(range(1, len(cs) + 1)), "numbers", mtype)
        check(all(k == c.name for k, c in cs), "names", mtype)
        orders = [c._order for _, c in cs]
        check(orders == sorted(orders) and len(set(orders)) == len(orders), "orders", mtype)
        check(all(getattr(cls, k) is c for k, c in cs), "class attrs", mtype)
        check(list(cls.options) == sorted(cls.options), "options sorted", mtype)
        check(all(isinstance(o, Option) for o in cls.options.values()), "option type", mtype)

    # Controller construction: only real tuples are shorthand for Range.
    Pair = namedtuple("Pair", "lo hi")
    check(Controller(Pair(1, 2), 1).value_type == Range(1, 2), "namedtuple shorthand")
    as_list = [1, 2]
    check(Controller(as_list, 1).value_type is as_list, "list is kept as-is")
    r = CompactRange(0, 4)
    check(Controller(r, 1).value_type is r, "Range instance kept")
    check(Controller(None, 1).value_type is None, "None kept")
    try:
        Controller((1, 2, 3), 0)
    except TypeError:
        pass
    else:
        check(False, "3-tuple is not a valid Range shorthand")
    n0 = Controller._next_order
    try:
        Controller((1,), 0)
    except TypeError:
        pass
    check(Controller._next_order == n0, "failed construction takes no order number")
    many = [Controller(bool, False) for _ in range(5)]
    check([c._order for c in many] == list(range(n0, n0 + 5)), "sequence")

    # Strictness switch: truthiness, argument shapes, decorator use.
    class FakeLog:
        def __init__(self):
            self.calls = []

        def warning(self, *a, **k):
            self.calls.append((a, k))

    src = RangeValidationError(9, 0, 1)
    for flag, strict in ((True, True), (1, True), ("yes", True), (False, False),
                         (0, False), ("", False), (None, False)):
        for args in ((), ("only",), ("a %s %s", 1, 2)):
            fl = FakeLog()
            with override_raise_controller_value_errors(flag):
                check(rv.errors.RAISE_CONTROLLER_VALUE_ERRORS is flag, "flag identity")
                try:
                    res = raise_or_warn_controller_value_validation(src, fl, *args)
                except ControllerValueError as e:
                    check(strict, "raised only when strict", flag)
                    check(e.args == args and e.__cause__ is src, "exc args", e.args)
                    check(e.__suppress_context__ is True, "explicit chaining")
                    check(fl.calls == [], "silent when raising")
                else:
                    check(not strict, "returned only when lenient", flag)
                    check(res is None, "None")
                    check(fl.calls == [(args, {"exc_info": src})], "warn call", fl.calls)
            check(rv.errors.RAISE_CONTROLLER_VALUE_ERRORS is True, "restored")

    @override_raise_controller_value_errors(False)
    def lenient_assign():
        a = MODULE_CLASSES["Amplifier"]()
        a.volume = -7
        return a.volume

    check(lenient_assign() == -7, "context manager works as a decorator")
    check(rv.errors.RAISE_CONTROLLER_VALUE_ERRORS is True, "restored after decorator")
    err = try_set(MODULE_CLASSES["Amplifier"](), "volume", -7)
    check(type(err) is ControllerValueError, "strict again")
    CAP.take()


# ---------------------------------------------------------------- pieces
def check_pieces():
    r = Range(-5, 10)
    check(r(-5) == -5 and r(10) == 10 and r(3) == 3, "Range call")
    check(r(2.5) == 2.5, "Range passes value through unchanged")
    check(r.validate(0) is None, "validate returns None")
    for v in (-6, 11, 10.5, -5.01):
        try:
            r(v)
        except RangeValidationError as e:
            check(e.args == (v, -5, 10), "RVE args")
            check(not isinstance(e, ValueError), "RVE is not a ValueError")
        else:
            check(False, "Range must reject", v)
    nan = float("nan")
    check(r(nan) is nan, "NaN compares false both ways and passes")
    check(CAP.take() == [], "Range does not log")
    w = WarnOnlyRange(1, 4)
    check(w(0) == 0 and w(5) == 5 and w(2) == 2, "WarnOnlyRange passes all")
    check([x.getMessage() for x in CAP.take()] == ["(0, 1, 4)", "(5, 1, 4)"], "w logs")
    for cls in (CompactRange, NoOffsetRange):
        try:
            cls(0, 1)(2)
        except RangeValidationError as e:
            check(e.args == (2, 0, 1), "subclass raises")
        else:
            check(False, "subclass must raise")
    check(Range(0, 1) == Range(0, 1) and Range(0, 1) != CompactRange(0, 1), "eq")
    check(repr(WarnOnlyRange(1, 2)) == "<WarnOnlyRange 1..2>", "repr")
    check(Range(-3, 3).to_raw_value(-3) == 0 and Range(-3, 3).from_raw_value(0) == -3, "raw")

    # Controller construction bookkeeping.
    n0 = Controller._next_order
    c1 = Controller((0, 9), 4)
    c2 = Controller(bool, False, attached=False)
    check((c1._order, c2._order) == (n0, n0 + 1), "orders are consecutive")
    check(Controller._next_order == n0 + 2, "counter advanced")
    check(c1.value_type == Range(0, 9) and type(c1.value_type) is Range, "tuple->Range")
    check(c2.value_type is bool and c2.default is False, "type kept")
    check(c1.attached(None) is True and c2.attached(None) is False, "attached")
    check(c1.name is None and c1.number is None, "unnamed until bound")
    check(c1.__get__(None, object) is c1, "class-level get")
    check(c1.__set__(None, 5) is None, "class-level set ignored")
    check(c1.controller(None) is c1, "controller()")

    # A throw-away module class exercises ModuleMeta ordering/numbering.
    saved = dict(MODULE_CLASSES)
    try:
        class Color(Enum):
            red = 0
            blue = 7

        ns = dict(
            zeta=Controller((0, 10), 5),
            alpha=Controller(Color, Color.blue),
            mid_value=Controller(bool, True),
            nothing=Controller(None, 3),
            Color=Color,
            mtype="Tmp",
            mgroup="Test",
            flags=0,
            __qualname__="Tmp",
        )
        Tmp = ModuleMeta("Tmp", (Module,), ns)
        check(MODULE_CLASSES.get("Tmp") is Tmp, "registered")
        check(list(Tmp.controllers) == ["zeta", "alpha", "mid_value", "nothing"], "order")
        check([c.number for c in Tmp.controllers.values()] == [1, 2, 3, 4], "numbers")
        check([c.label for c in Tmp.controllers.values()]
              == ["Zeta", "Alpha", "Mid Value", "Nothing"], "labels")
        check([c.name for c in Tmp.controllers.values()]
              == ["zeta", "alpha", "mid_value", "nothing"], "names")
        check(Tmp.controllers["zeta"] is ns["zeta"], "same objects")
        check(Tmp.options == {}, "no options")
        check("``01`` (1)" in Tmp.__doc__ and "zeta" in Tmp.__doc__, "docstring table")
        t = Tmp(index=255)
        check(t.controller_values == dict(zeta=5, alpha=Color.blue, mid_value=True,
                                          nothing=None), "None type stores None")
        t.nothing = 99
        check(t.nothing is None, "None-typed controller always reads None")
        t.alpha = "red"
        check(t.alpha is Color.red, "by name")
        t.alpha = 7
        check(t.alpha is Color.blue, "by value")
        err = try_set(t, "zeta", 11)
        check(type(err) is ControllerValueError and err.args
              == ("ff(Tmp).zeta=11 is not within [0, 10]",), "hex index in message", err)
        check(t.zeta == 5, "kept")
        t.set_raw("zeta", 10)
        check(t.zeta == 10, "set_raw")
        try:
            t.set_raw("zeta", 12)
        except ControllerValueError as e:
            check(e.args == ("ff(Tmp).zeta=12 is not within [0, 10]",), "set_raw msg")
        else:
            check(False, "set_raw strict must raise")
        with override_raise_controller_value_errors(False):
            t.set_raw("zeta", 12)
        check(t.zeta == 12, "set_raw lenient stores")
        logs = CAP.take()
        check([x.name for x in logs] == ["rv.modules.module"], "set_raw logger")
        # subclass: inherited controllers keep order, new ones appended by _order
        ns2 = dict(extra=Controller((0, 1), 0), mtype="Tmp2", mgroup="Test", flags=0)
        Tmp2 = ModuleMeta("Tmp2", (Tmp,), ns2)
        check(list(Tmp2.controllers) == ["zeta", "alpha", "mid_value", "nothing", "extra"],
              "inherited order")
        check(Tmp2.controllers["extra"].number == 5, "number 5")
        check(Tmp2.controllers is not Tmp.controllers, "own dict")
    finally:
        MODULE_CLASSES.clear()
        MODULE_CLASSES.update(saved)

    # The strictness switch.
    class FakeLog:
        def __init__(self):
            self.calls = []

        def warning(self, *a, **k):
            self.calls.append((a, k))

    src = RangeValidationError(1, 2, 3)
    fl = FakeLog()
    try:
        raise_or_warn_controller_value_validation(src, fl, "m %s", "x")
    except ControllerValueError as e:
        check(e.args == ("m %s", "x") and e.__cause__ is src, "raise path")
    else:
        check(False, "strict raises")
    check(fl.calls == [], "no logging when raising")
    with override_raise_controller_value_errors(False):
        check(rv.errors.RAISE_CONTROLLER_VALUE_ERRORS is False, "flag off")
        res = raise_or_warn_controller_value_validation(src, fl, "m %s", "x")
        check(res is None, "returns None")
        with override_raise_controller_value_errors(True):
            check(rv.errors.RAISE_CONTROLLER_VALUE_ERRORS is True, "nested on")
        check(rv.errors.RAISE_CONTROLLER_VALUE_ERRORS is False, "nested restore")
    check(fl.calls == [(("m %s", "x"), {"exc_info": src})], "warn path", fl.calls)
    try:
        with override_raise_controller_value_errors(False):
            raise KeyError("boom")
    except KeyError:
        pass
    check(rv.errors.RAISE_CONTROLLER_VALUE_ERRORS is True, "restored after exception")
    rv.errors.RAISE_CONTROLLER_VALUE_ERRORS = False  # plain global assignment works too
    try:
        a = MODULE_CLASSES["Amplifier"]()
        a.volume = 5000
        check(a.volume == 5000, "global flag honoured at call time")
    finally:
        rv.errors.RAISE_CONTROLLER_VALUE_ERRORS = True
    CAP.take()


def main():
    check_defaults_against_spec()
    check_assignment(strict=True)
    check_assignment(strict=False)
    check_metamodule_user_defined()
    check_constructor()
    check_meta_and_switch_extras()
    check_pieces()
    if FAILURES:
        print("FAIL (%d of %d checks)" % (len(FAILURES), COUNTS["checks"]))
        for line in FAILURES[:40]:
            print("  ", line)
        sys.exit(1)
    print("PASS (%d checks)" % COUNTS["checks"])


if __name__ == "__main__":
    main()
