"""Behaviour check for rv.errors strictness switch helpers (property C18).

Exercises override_raise_controller_value_errors and
raise_or_warn_controller_value_validation directly, then through real loads
(success, injected I/O faults, truncation, nested loads).
"""
import io
import logging
import struct
import sys
from pathlib import Path

import rv
import rv.errors as E
from rv._vendor.chunk import Chunk
from rv.lib.iff import chunks
from rv.readers.reader import read_sunvox_file

ROOT = Path(rv.__file__).resolve().parents[3]
FILES = ROOT / "tests" / "files"
logging.disable(logging.CRITICAL)

failures = []


def expect(cond, msg):
    if not cond:
        failures.append(msg)


class FakeLog:
    def __init__(self):
        self.calls = []

    def warning(self, *args, **kwargs):
        self.calls.append((args, kwargs))


class Boom(OSError):
    pass


# ---------------------------------------------------------------- direct: cm
def check_context_manager():
    cm_factory = E.override_raise_controller_value_errors
    sentinel_a, sentinel_b = object(), object()
    for initial in (True, False, None, 0, 1, "x", sentinel_a):
        E.RAISE_CONTROLLER_VALUE_ERRORS = initial
        for new in (True, False, sentinel_b, None):
            # creating the manager must not touch the flag (lazy)
            cm = cm_factory(new)
            expect(E.RAISE_CONTROLLER_VALUE_ERRORS is initial, "cm creation eager")
            with cm as bound:
                expect(bound is None, "cm yields a value")
                expect(E.RAISE_CONTROLLER_VALUE_ERRORS is new, "cm did not set")
            expect(E.RAISE_CONTROLLER_VALUE_ERRORS is initial, "cm did not restore")
            # single use (generator based)
            try:
                with cm:
                    pass
            except (RuntimeError, AttributeError, TypeError) as e:
                reuse = type(e).__name__
            else:
                reuse = "reusable"
            expect(reuse != "reusable", "cm became reusable")
            expect(E.RAISE_CONTROLLER_VALUE_ERRORS is initial, "reuse changed flag")
            # exceptions of all kinds propagate and restore
            for exc in (ValueError("v"), Boom("b"), KeyboardInterrupt(), SystemExit(3)):
                try:
                    with cm_factory(new):
                        expect(E.RAISE_CONTROLLER_VALUE_ERRORS is new, "not set (exc)")
                        raise exc
                except BaseException as caught:  # noqa
                    expect(caught is exc, "exception replaced")
                else:
                    expect(False, "exception swallowed")
                expect(
                    E.RAISE_CONTROLLER_VALUE_ERRORS is initial, "not restored (exc)"
                )
    # nesting restores layer by layer, even if inner code rebinds the flag
    E.RAISE_CONTROLLER_VALUE_ERRORS = True
    with cm_factory(False):
        with cm_factory("inner"):
            E.RAISE_CONTROLLER_VALUE_ERRORS = "rebound"
            with cm_factory(True):
                expect(E.RAISE_CONTROLLER_VALUE_ERRORS is True, "nest3")
            expect(E.RAISE_CONTROLLER_VALUE_ERRORS == "rebound", "nest2 rebound")
        expect(E.RAISE_CONTROLLER_VALUE_ERRORS is False, "nest1")
    expect(E.RAISE_CONTROLLER_VALUE_ERRORS is True, "nest0")

    # usable as a decorator, re-entered on each call
    @cm_factory(False)
    def probe(arg):
        return (arg, E.RAISE_CONTROLLER_VALUE_ERRORS)

    for initial in (True, False):
        E.RAISE_CONTROLLER_VALUE_ERRORS = initial
        expect(probe(1) == (1, False), "decorator 1")
        expect(probe(2) == (2, False), "decorator 2")
        expect(E.RAISE_CONTROLLER_VALUE_ERRORS is initial, "decorator restore")

    # generator abandoned inside the with block (GeneratorExit path)
    def gen():
        with cm_factory(False):
            yield 1
            yield 2

    E.RAISE_CONTROLLER_VALUE_ERRORS = True
    g = gen()
    next(g)
    expect(E.RAISE_CONTROLLER_VALUE_ERRORS is False, "gen set")
    g.close()
    expect(E.RAISE_CONTROLLER_VALUE_ERRORS is True, "gen close restore")
    expect(cm_factory.__name__ == "override_raise_controller_value_errors", "name")
    expect(bool(cm_factory.__doc__), "doc")


# ------------------------------------------------------- direct: raise_or_warn
def check_raise_or_warn():
    fn = E.raise_or_warn_controller_value_validation
    cause = E.RangeValidationError(5, 0, 4)
    for args in ((), ("msg",), ("fmt %s %s", 1, 2)):
        for flag in (True, 1, "yes"):
            E.RAISE_CONTROLLER_VALUE_ERRORS = flag
            log = FakeLog()
            try:
                fn(cause, log, *args)
            except E.ControllerValueError as e:
                expect(type(e) is E.ControllerValueError, "exact type")
                expect(e.args == args, "raise args")
                expect(e.__cause__ is cause, "cause chained")
                expect(isinstance(e, ValueError), "is ValueError")
            else:
                expect(False, "strict mode did not raise")
            expect(log.calls == [], "strict mode logged")
        for flag in (False, 0, None, ""):
            E.RAISE_CONTROLLER_VALUE_ERRORS = flag
            log = FakeLog()
            if args:
                r = fn(cause, log, *args)
                expect(r is None, "lenient returns None")
                expect(log.calls == [(args, {"exc_info": cause})], "lenient log call")
            else:
                # FakeLog accepts no-arg; still one call
                r = fn(cause, log)
                expect(log.calls == [((), {"exc_info": cause})], "lenient no-arg")
        # from_exc None
        E.RAISE_CONTROLLER_VALUE_ERRORS = True
        try:
            fn(None, FakeLog(), *args)
        except E.ControllerValueError as e:
            expect(e.__cause__ is None, "None cause")
    # a log object without .warning fails only in lenient mode
    E.RAISE_CONTROLLER_VALUE_ERRORS = False
    try:
        fn(cause, object(), "m")
    except AttributeError:
        pass
    else:
        expect(False, "bad log accepted")
    E.RAISE_CONTROLLER_VALUE_ERRORS = True
    try:
        fn(cause, object(), "m")
    except E.ControllerValueError:
        pass
    # flag flips inside an override
    with E.override_raise_controller_value_errors(False):
        log = FakeLog()
        fn(cause, log, "inside")
        expect(len(log.calls) == 1, "override lenient")
    try:
        fn(cause, FakeLog(), "outside")
    except E.ControllerValueError:
        pass
    else:
        expect(False, "strict after override")


# ------------------------------------------------------------- through loads
class SpyFile(io.BytesIO):
    """BytesIO that records the flag at every read and can fail at read n."""

    def __init__(self, data, fail_at=None):
        super().__init__(data)
        self.fail_at = fail_at
        self.n = 0
        self.seen = []

    def read(self, *a):
        self.seen.append(E.RAISE_CONTROLLER_VALUE_ERRORS)
        i = self.n
        self.n += 1
        if self.fail_at is not None and i == self.fail_at:
            raise Boom("read %d" % i)
        return super().read(*a)


def outcome(fn):
    try:
        obj = fn()
    except Exception as e:
        return "E:" + type(e).__name__
    return "R:" + type(obj).__name__


def chunk_offsets(data):
    offs, off = [], 0
    for name, d in chunks(io.BytesIO(data)):
        offs.append(off)
        off += 8 + len(d)
    offs.append(off)
    return offs


def check_loads():
    names = [
        "amplifier.sunsynth",
        "metamodule.sunsynth",
        "sampler.sunsynth",
        "empty.sunvox",
        "single-fm.sunvox",
        "multictl.sunsynth",
    ]
    for name in names:
        data = (FILES / name).read_bytes()
        for initial in (True, False):
            E.RAISE_CONTROLLER_VALUE_ERRORS = initial
            spy = SpyFile(data)
            obj = read_sunvox_file(spy)
            total = spy.n
            expect(obj is not None, "load failed " + name)
            expect(E.RAISE_CONTROLLER_VALUE_ERRORS is initial, "flag after ok " + name)
            expect(set(spy.seen) == {E.RAISE_RANGE_ERRORS_ON_READ}, "flag during " + name)
            expect(not spy.closed, "caller's file closed " + name)
            step = max(1, total // 40)
            for n in sorted(set(range(0, total, step)) | {total - 1, 1, 2}):
                spy = SpyFile(data, fail_at=n)
                try:
                    read_sunvox_file(spy)
                except Boom as e:
                    expect(str(e) == "read %d" % n, "wrong boom")
                else:
                    expect(False, "fault %d swallowed %s" % (n, name))
                expect(
                    E.RAISE_CONTROLLER_VALUE_ERRORS is initial,
                    "flag after fault %d %s" % (n, name),
                )
            offs = chunk_offsets(data)
            cuts = set(offs) | {o + 4 for o in offs} | {o + 9 for o in offs}
            cuts |= set(range(0, len(data), max(1, len(data) // 25)))
            for cut in sorted(c for c in cuts if c < len(data)):
                outcome(lambda: read_sunvox_file(io.BytesIO(data[:cut])))
                expect(
                    E.RAISE_CONTROLLER_VALUE_ERRORS is initial,
                    "flag after truncation %d %s" % (cut, name),
                )

    # faults at every Chunk.read, which also reaches nested loads
    orig_read = Chunk.read
    for name in ("metamodule.sunsynth", "sampler.sunsynth"):
        data = (FILES / name).read_bytes()
        counter = {"n": 0, "fail": None}

        def spy_read(self, *a, **k):
            i = counter["n"]
            counter["n"] += 1
            if i == counter["fail"]:
                raise Boom("chunk %d" % i)
            return orig_read(self, *a, **k)

        Chunk.read = spy_read
        try:
            read_sunvox_file(io.BytesIO(data))
            total = counter["n"]
            top = sum(1 for _ in chunks(io.BytesIO(data)))
            expect(total > top, "no nested reads seen for " + name)
            for initial in (True, False):
                E.RAISE_CONTROLLER_VALUE_ERRORS = initial
                for n in range(total):
                    counter.update(n=0, fail=n)
                    try:
                        read_sunvox_file(io.BytesIO(data))
                    except Boom:
                        pass
                    else:
                        expect(False, "chunk fault %d swallowed" % n)
                    expect(
                        E.RAISE_CONTROLLER_VALUE_ERRORS is initial,
                        "flag after chunk fault %d %s" % (n, name),
                    )
        finally:
            Chunk.read = orig_read


def check_lenient_load_then_strict_use():
    data = (FILES / "amplifier.sunsynth").read_bytes()
    i = data.index(b"CVAL")
    bad = data[: i + 8] + struct.pack("<I", 99999) + data[i + 12 :]
    E.RAISE_CONTROLLER_VALUE_ERRORS = True
    synth = read_sunvox_file(io.BytesIO(bad))
    expect(synth.module.volume == 99999, "lenient load kept raw value")
    expect(E.RAISE_CONTROLLER_VALUE_ERRORS is True, "strict after lenient load")
    try:
        synth.module.set_raw("volume", 99999)
    except E.ControllerValueError as e:
        expect(isinstance(e.__cause__, E.RangeValidationError), "cause type")
        expect("volume=99999" in str(e), "message")
    else:
        expect(False, "strict set_raw accepted out-of-range")
    # strict load via explicit override inside: read wraps with lenient anyway
    with E.override_raise_controller_value_errors(True):
        synth = read_sunvox_file(io.BytesIO(bad))
        expect(E.RAISE_CONTROLLER_VALUE_ERRORS is True, "inner restore")
    E.RAISE_CONTROLLER_VALUE_ERRORS = False
    synth.module.set_raw("volume", 77777)
    expect(synth.module.volume == 77777, "lenient set_raw")
    E.RAISE_CONTROLLER_VALUE_ERRORS = True


def main():
    saved = E.RAISE_CONTROLLER_VALUE_ERRORS
    try:
        check_context_manager()
        check_raise_or_warn()
        check_loads()
        check_lenient_load_then_strict_use()
    finally:
        E.RAISE_CONTROLLER_VALUE_ERRORS = saved
    if failures:
        for f in sorted(set(failures))[:30]:
            print("FAIL:", f)
        sys.exit(1)
    print("PASS")


if __name__ == "__main__":
    main()
