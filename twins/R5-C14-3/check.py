"""Behaviour check for Project.__iadd__ / attach_pattern and the Pattern code
that maintains the note -> pattern -> project back-references (property C14).
Run from the repository root with PYTHONPATH=<root>/src/python.
"""
import struct
import sys
from io import BytesIO

import rv.api as rv
from rv.errors import ModuleOwnershipError, PatternOwnershipError
from rv.note import NOTECMD, Note
from rv.pattern import Pattern, PatternClone
from rv.project import Project
from rv.readers.reader import read_sunvox_file

m = rv.m
MSG = "Pattern already attached to a project"


def raises(exc, fn, msg=None):
    try:
        fn()
    except exc as e:
        if msg is not None:
            assert str(e) == msg, str(e)
        return e
    raise AssertionError("expected %s" % exc.__name__)


def reload(p):
    return read_sunvox_file(BytesIO(p.read()))


def coherent(p):
    assert p.modules[0] is p.output
    for i, mod in enumerate(p.modules):
        if mod is not None:
            assert mod.index == i and mod.parent is p
    for pat in p.patterns:
        if pat:
            assert pat.project is p
            if isinstance(pat, Pattern):
                for row in pat.data:
                    for note in row:
                        assert note.pattern is pat and note.project is p


def same_items(a, b):
    assert len(a) == len(b) and all(x is y for x, y in zip(a, b)), (a, b)


def test_attach_pattern_indices_and_ownership():
    p = Project()
    assert p.patterns == []
    a, b = Pattern(), Pattern(tracks=2, lines=3)
    assert a.project is None
    assert p.attach_pattern(a) == 0
    assert p.attach_pattern(None) == 1
    assert p.attach_pattern(b) == 2
    clone = PatternClone(source=0)
    assert p.attach_pattern(clone) == 3
    assert p.attach_pattern(None) == 4
    same_items(p.patterns, [a, None, b, clone, None])
    assert a.project is p and b.project is p and clone.project is p
    assert clone.source_pattern is a
    coherent(p)


def test_attach_pattern_refusals():
    p, q = Project(), Project()
    a = Pattern()
    clone = PatternClone(source=0)
    p.attach_pattern(a)
    p.attach_pattern(clone)
    q.attach_pattern(None)
    before_p, before_q = list(p.patterns), list(q.patterns)
    # owned by another project
    raises(PatternOwnershipError, lambda: q.attach_pattern(a), MSG)
    raises(PatternOwnershipError, lambda: q.attach_pattern(clone), MSG)
    # attaching a pattern twice to its own project is refused as well
    raises(PatternOwnershipError, lambda: p.attach_pattern(a), MSG)
    raises(PatternOwnershipError, lambda: p.attach_pattern(clone), MSG)
    same_items(p.patterns, before_p)
    same_items(q.patterns, before_q)
    assert a.project is p and clone.project is p
    # a pattern constructed with an owner is refused, too, and stays as it was
    claimed = Pattern(project=q)
    raises(PatternOwnershipError, lambda: p.attach_pattern(claimed), MSG)
    raises(PatternOwnershipError, lambda: q.attach_pattern(claimed), MSG)
    assert claimed.project is q and claimed not in q.patterns
    same_items(p.patterns, before_p)
    # the next index is unaffected by the refusals
    assert q.attach_pattern(Pattern()) == 1
    coherent(p)
    coherent(q)


def test_iadd_dispatch():
    p = Project()
    amp, gen = m.Amplifier(), m.Generator()
    pat, clone = Pattern(), PatternClone(source=0)
    r = p
    r += amp
    assert r is p and amp.index == 1 and amp.parent is p
    r += pat
    assert r is p and pat.project is p
    r += [gen, clone]
    assert r is p
    same_items(p.modules, [p.output, amp, gen])
    same_items(p.patterns, [pat, clone])
    # __iadd__ is usable directly and returns the project
    lfo = m.Lfo()
    assert p.__iadd__(lfo) is p and lfo.index == 3
    # unsupported operands are ignored, at any depth
    for junk in (None, 5, "text", (m.Echo(), Pattern()), {"a": 1}, object()):
        r += junk
        r += [junk, [junk]]
    assert r is p
    same_items(p.modules, [p.output, amp, gen, lfo])
    same_items(p.patterns, [pat, clone])
    r += []
    r += [[], [[]]]
    same_items(p.modules, [p.output, amp, gen, lfo])
    coherent(p)


def test_iadd_nested_lists_keep_order():
    p = Project()
    p.attach_module(None)  # a gap, to be filled by the first module added
    mods = [m.Amplifier(), m.Echo(), m.Filter(), m.Reverb(), m.Lfo()]
    pats = [Pattern(name="a"), Pattern(name="b"), Pattern(name="c")]
    p += [
        mods[0],
        [pats[0], [mods[1], [pats[1]], mods[2]], None],
        [],
        [[[[mods[3]]]]],
        pats[2],
        mods[4],
    ]
    same_items(p.modules, [p.output] + mods)
    assert [x.index for x in mods] == [1, 2, 3, 4, 5]
    same_items(p.patterns, pats)

    class MyList(list):
        pass

    extra = m.Generator()
    p += MyList([extra, MyList([Pattern()])])
    assert extra.index == 6 and len(p.patterns) == 4
    # duplicates inside the list: modules are no-ops
    before = list(p.modules)
    p += [mods[0], [mods[0], p.output], extra]
    same_items(p.modules, before)
    # adding the project's own module list changes nothing
    p += p.modules
    same_items(p.modules, before)
    coherent(p)


def test_iadd_stops_at_first_refusal():
    p, q = Project(), Project()
    foreign_mod = q.new_module(m.Amplifier)
    foreign_pat = Pattern()
    q += foreign_pat
    ok1, ok2, late1, late2 = m.Echo(), Pattern(), m.Filter(), Pattern()
    r = p

    def add_with_foreign_module():
        nonlocal r
        r += [ok1, [ok2, [foreign_mod, late1]], late2]

    raises(ModuleOwnershipError, add_with_foreign_module)
    same_items(p.modules, [p.output, ok1])
    same_items(p.patterns, [ok2])
    assert late1.parent is None and late1.index is None and late2.project is None
    assert foreign_mod.parent is q and foreign_mod.index == 1

    def add_with_foreign_pattern():
        nonlocal r
        r += [[late1], foreign_pat, late2]

    raises(PatternOwnershipError, add_with_foreign_pattern, MSG)
    same_items(p.modules, [p.output, ok1, late1])
    same_items(p.patterns, [ok2])
    assert foreign_pat.project is q and late2.project is None

    def add_same_pattern_twice():
        nonlocal r
        r += [late2, late2]

    raises(PatternOwnershipError, add_same_pattern_twice, MSG)
    same_items(p.patterns, [ok2, late2])
    same_items(q.patterns, [foreign_pat])
    coherent(p)
    coherent(q)


def test_pattern_data_backrefs():
    p = Project()
    amp = p.new_module(m.Amplifier)
    pat = Pattern(tracks=3, lines=4)
    assert not hasattr(pat, "_data")
    rows = pat.data
    assert hasattr(pat, "_data") and pat.data is rows
    assert len(rows) == 4 and all(len(r) == 3 for r in rows)
    assert len({id(r) for r in rows}) == 4
    assert len({id(n) for r in rows for n in r}) == 12
    assert all(n.pattern is pat and n == Note(pattern=pat) for r in rows for n in r)
    p += pat
    coherent(p)
    rows[0][0].note = NOTECMD.C4
    pat.clear()
    assert pat.data is not rows and pat.data[0][0].note == NOTECMD.EMPTY
    assert rows[0][0].note == NOTECMD.C4  # old rows are left alone
    coherent(p)

    def fn(pattern, line, track):
        assert pattern is pat
        return Note(module=amp.index + 1, vel=line * 3 + track + 1)

    old = pat.data
    assert pat.set_via_fn(fn) is pat
    assert pat.data is not old
    for line in range(4):
        for track in range(3):
            note = pat.data[line][track]
            assert note.vel == line * 3 + track + 1
            assert note.pattern is pat and note.mod is amp
    coherent(p)

    seen = {}

    def gen(pattern, new):
        assert pattern is pat
        seen["new"] = new
        assert new is not pat.data and new[1][1].vel == 5
        yield 0, 2, Note(note=NOTECMD.D4)
        yield 3, 0, Note(note=NOTECMD.E4, module=1)
        yield 3, 0, Note(note=NOTECMD.F4, module=1)

    old = pat.data
    assert pat.set_via_gen(gen) is pat
    assert pat.data is seen["new"] and pat.data is not old
    assert pat.data[0][2].note == NOTECMD.D4 and pat.data[0][2].pattern is pat
    assert pat.data[3][0].note == NOTECMD.F4 and pat.data[3][0].mod is p.output
    assert pat.data[1][1].vel == 5 and pat.data[1][1].pattern is pat
    assert old[0][2].note == NOTECMD.EMPTY
    coherent(p)

    # a failing callback leaves the pattern data untouched
    def bad_fn(pattern, line, track):
        if line == 2:
            raise KeyError("boom")
        return Note(vel=99)

    keep = pat.data
    raises(KeyError, lambda: pat.set_via_fn(bad_fn))
    assert pat.data is keep and keep[0][0].vel == 1

    def bad_gen(pattern, new):
        yield 0, 0, Note(vel=77)
        raise KeyError("boom")

    raises(KeyError, lambda: pat.set_via_gen(bad_gen))
    assert pat.data is keep and keep[0][0].vel == 1
    raises(IndexError, lambda: pat.set_via_gen(lambda s, n: iter([(9, 0, Note())])))
    assert pat.data is keep
    coherent(p)


def test_raw_data_and_save_load():
    p = Project()
    amp = p.new_module(m.Amplifier)
    pat = Pattern(tracks=3, lines=2, name="x")
    blob = b"".join(
        struct.pack("<BBHHH", 0, line * 3 + track + 1, track, 0x0102, 0x0304)
        for line in range(2)
        for track in range(3)
    )
    pat.raw_data = blob
    for line in range(2):
        for track in range(3):
            note = pat.data[line][track]
            assert (note.vel, note.module, note.ctl, note.val) == (
                line * 3 + track + 1, track, 0x0102, 0x0304,
            )
            assert note.pattern is pat
    assert pat.raw_data == blob
    pat.raw_data = bytearray(blob + b"trailing bytes are ignored")
    assert pat.raw_data == blob
    raises(struct.error, lambda: setattr(pat, "raw_data", blob[:-1]))
    one = Pattern(tracks=1, lines=1)
    one.raw_data = struct.pack("<BBHHH", 1, 2, 3, 4, 5)
    assert one.data[0][0].module == 3 and one.data[0][0].val == 5
    wide = Pattern(tracks=32, lines=3)
    wide_blob = b"".join(struct.pack("<BBHHH", 0, 0, i, 0, 0) for i in range(96))
    wide.raw_data = wide_blob
    assert [n.module for row in wide.data for n in row] == list(range(96))
    assert wide.data[2][31].module == 95

    p += [pat, None, PatternClone(source=0, x=32)]
    assert p.attach_pattern(None) == 2
    assert len(p.patterns) == 3
    q = reload(p)
    assert [type(x) for x in q.patterns] == [Pattern, PatternClone, type(None)]
    assert q.patterns[0].raw_data == blob and q.patterns[0].name == "x"
    assert q.patterns[1].source_pattern is q.patterns[0]
    assert q.patterns[0].data[0][1].mod is q.output
    assert isinstance(q.patterns[0].data[0][2].mod, m.Amplifier)
    coherent(q)
    # loaded patterns belong to the loaded project only
    raises(PatternOwnershipError, lambda: p.attach_pattern(q.patterns[0]), MSG)
    raises(PatternOwnershipError, lambda: q.attach_pattern(pat), MSG)
    assert q.attach_pattern(Pattern()) == 3
    q2 = reload(q)
    assert len(q2.patterns) == 4 and q2.patterns[2] is None
    coherent(q2)
    coherent(p)
    assert amp.parent is p


def main():
    tests = [v for k, v in sorted(globals().items()) if k.startswith("test_")]
    for t in tests:
        t()
    print("PASS (%d groups)" % len(tests))


if __name__ == "__main__":
    main()
    sys.exit(0)
