"""Behaviour check for the writer side of the project round trip (property C01).

Exercises Project.chunks(), rv.lib.iff.write_chunk(), Pattern.raw_data (getter
and setter), Pattern.iff_chunks() and PatternClone.iff_chunks().

The expectations are computed independently of the library (own IFF parser,
own struct formats), so the script passes on the original tree and on any
behaviour-preserving refactoring of it.
"""
import hashlib
import struct
import sys
from io import BytesIO

from rv.api import NOTE, NOTECMD, Pattern, PatternClone, Project, m, read_sunvox_file
from rv.lib.iff import write_chunk

FAILURES = []


def check(cond, label):
    if not cond:
        FAILURES.append(label)
        print("FAIL:", label)


def parse(blob):
    """Independent IFF parser -> [(name, data), ...]."""
    out, pos = [], 0
    while pos < len(blob):
        name = blob[pos : pos + 4]
        (size,) = struct.unpack("<I", blob[pos + 4 : pos + 8])
        out.append((name, blob[pos + 8 : pos + 8 + size]))
        pos += 8 + size
    check(pos == len(blob), "file is a whole number of chunks")
    return out


def save(project):
    f = BytesIO()
    project.write_to(f)
    return f.getvalue()


def snapshot(project):
    fields = (
        "sunvox_version based_on_version flags initial_bpm initial_tpl global_volume "
        "name time_grid time_grid2 modules_scale modules_zoom modules_x_offset "
        "modules_y_offset modules_layer_mask modules_current_layer timeline_position "
        "restart_position selected_module selected_generator current_pattern "
        "current_track current_line"
    ).split()
    snap = {k: getattr(project, k) for k in fields if k != "sunvox_version"}
    snap["sync"] = (int(project.receive_sync_midi), int(project.receive_sync_other))
    mods = []
    for mod in project.modules:
        if mod is None:
            mods.append(None)
            continue
        mods.append(
            dict(
                cls=type(mod).__name__,
                mtype=mod.mtype,
                name=mod.name,
                flags=mod.flags,
                index=mod.index,
                pos=(mod.x, mod.y, mod.layer),
                scale=mod.mod_scale,
                vis=int(mod.visualization),
                color=tuple(mod.color),
                fine=(mod.mod_finetune, mod.mod_relative_note),
                midi=(
                    mod.midi_in_always,
                    mod.midi_in_channel,
                    mod.midi_out_name or None,
                    mod.midi_out_channel,
                    mod.midi_out_bank,
                    mod.midi_out_program,
                ),
                ctl={
                    k: mod.get_raw(k)
                    for k, c in mod.controllers.items()
                    if c.attached(mod)
                },
                opts=dict(mod.option_values),
                cmid={
                    k: mod.controller_midi_maps[k].cmid_data
                    for k, c in mod.controllers.items()
                    if c.attached(mod)
                },
                in_links=[x for x in mod.in_links],
                in_slots=[x for x in mod.in_link_slots],
            )
        )
    snap["modules"] = mods
    pats = []
    for pat in project.patterns:
        if pat is None:
            pats.append(None)
        elif isinstance(pat, PatternClone):
            pats.append(("clone", pat.source, pat.flags_PFFF, pat.x, pat.y))
        else:
            pats.append(
                (
                    "pattern",
                    pat.name,
                    pat.tracks,
                    pat.lines,
                    pat.y_size,
                    pat.flags_PFLG,
                    bytes(pat.icon),
                    tuple(pat.fg_color),
                    tuple(pat.bg_color),
                    pat.flags_PFFF,
                    pat.x,
                    pat.y,
                    [
                        [(n.note, n.vel, n.module, n.ctl, n.val) for n in line]
                        for line in pat.data
                    ],
                )
            )
    snap["patterns"] = pats
    return snap


def fill(pattern, seed):
    for ln, line in enumerate(pattern.data):
        for tr, note in enumerate(line):
            k = seed + ln * 31 + tr * 7
            note.note = [0, NOTE.C4, NOTE.a5, NOTECMD.NOTE_OFF, NOTECMD.SET_PITCH][k % 5]
            note.vel = k % 130
            note.module = (k * 3) % 300
            note.ctl = (k * 257) % 65536
            note.val = (k * 911) % 65536


def build_big():
    p = Project()
    p.name = "Perf éè project"
    p.flags = 0x12345678
    p.initial_bpm = 300
    p.initial_tpl = 31
    p.global_volume = 4000
    p.time_grid = 7
    p.time_grid2 = 9
    p.modules_scale = 512
    p.modules_zoom = 128
    p.modules_x_offset = -77
    p.modules_y_offset = 2**31 - 1
    p.modules_layer_mask = 0xFFFFFFFF
    p.modules_current_layer = 3
    p.timeline_position = -5
    p.restart_position = 12
    p.selected_module = 2
    p.selected_generator = 1
    p.current_pattern = 1
    p.current_track = 2
    p.current_line = 3
    p.receive_sync_midi = 5
    p.receive_sync_other = 6
    gen = p.new_module(m.Generator, name="gen ♫", volume=77, x=-40, y=900)
    amp = p.new_module(m.Amplifier, volume=333, color=(1, 2, 3), layer=2)
    dly = p.new_module(m.Delay, midi_out_name="out port", midi_in_channel=5)
    flt = p.new_module(m.Filter, midi_in_always=True, mod_scale=300)
    ana = p.new_module(m.AnalogGenerator)
    ana.controller_midi_maps["volume"].channel = 3
    ana.controller_midi_maps["volume"].message_parameter = 1000
    gen >> amp >> p.output
    gen >> dly >> p.output
    ana >> flt >> p.output
    gen >> flt
    ana >> amp
    # break a link so that a -1 entry (not at the end) and non-trivial slots appear
    gen >> ~amp
    pat = Pattern(tracks=3, lines=5, name="lead ü", x=-8, y=32)
    pat.fg_color = (9, 8, 7)
    pat.bg_color = (250, 251, 252)
    pat.icon = bytes(range(32))
    pat.flags_PFLG = 3
    pat.flags_PFFF = 0x18
    pat.y_size = 48
    fill(pat, 1)
    p.attach_pattern(pat)
    p.attach_pattern(None)
    p.attach_pattern(PatternClone(source=0, x=20, y=-32))
    pat2 = Pattern(tracks=1, lines=1)
    fill(pat2, 99)
    p.attach_pattern(pat2)
    return p


def build_with_gaps():
    p = Project()
    a = p.new_module(m.Generator)
    p.attach_module(None)
    p.attach_module(None)
    b = p.attach_module(m.Reverb(), loading=True)
    a >> b >> p.output
    p.attach_pattern(None)
    return p


def expected_link_chunks(mod):
    links = list(mod.in_links)
    slots = list(mod.in_link_slots)
    if not links:
        return [(b"SLNK", b"")]
    out = [(b"SLNK", struct.pack("<" + "i" * len(links), *links))]
    if any(s not in (-1, 0) for s in slots):
        out.append((b"SLnK", struct.pack("<" + "i" * len(slots), *slots)))
    return out


def check_project_bytes(p, label):
    blob = save(p)
    chunks = parse(blob)
    names = [n for n, _ in chunks]
    d = dict()
    for n, data in chunks:
        d.setdefault(n, data)
    check(chunks[0] == (b"SVOX", b""), label + ": magic first")
    check(d[b"VERS"] == bytes(reversed(p.sunvox_version)), label + ": VERS")
    check(d[b"BVER"] == bytes(reversed(p.based_on_version)), label + ": BVER")
    u32 = {
        b"FLGS": p.flags,
        b"SFGS": int(p.receive_sync_midi) | (int(p.receive_sync_other) << 3),
        b"BPM ": p.initial_bpm,
        b"SPED": p.initial_tpl,
        b"TGRD": p.time_grid,
        b"TGD2": p.time_grid2,
        b"GVOL": p.global_volume,
        b"MSCL": p.modules_scale,
        b"MZOO": p.modules_zoom,
        b"LMSK": p.modules_layer_mask,
        b"CURL": p.modules_current_layer,
        b"SELS": p.selected_module,
        b"PATN": p.current_pattern,
        b"PATT": p.current_track,
        b"PATL": p.current_line,
    }
    for k, v in u32.items():
        check(d[k] == struct.pack("<I", v), label + ": " + k.decode())
    i32 = {
        b"MXOF": p.modules_x_offset,
        b"MYOF": p.modules_y_offset,
        b"LGEN": p.selected_generator,
    }
    for k, v in i32.items():
        check(d[k] == struct.pack("<i", v), label + ": " + k.decode())
    check((b"TIME" in d) == (p.timeline_position != 0), label + ": TIME optional")
    check((b"REPS" in d) == (p.restart_position != 0), label + ": REPS optional")
    if p.timeline_position:
        check(d[b"TIME"] == struct.pack("<i", p.timeline_position), label + ": TIME")
    if p.restart_position:
        check(d[b"REPS"] == struct.pack("<i", p.restart_position), label + ": REPS")
    check(d[b"NAME"] == p.name.encode("utf-8") + b"\0", label + ": NAME")
    header_order = [n for n in names[: names.index(b"PATL") + 1]]
    wanted = [
        b"SVOX", b"VERS", b"BVER", b"FLGS", b"SFGS", b"BPM ", b"SPED", b"TGRD",
        b"TGD2", b"GVOL", b"NAME", b"MSCL", b"MZOO", b"MXOF", b"MYOF", b"LMSK",
        b"CURL", b"TIME", b"REPS", b"SELS", b"LGEN", b"PATN", b"PATT", b"PATL",
    ]
    wanted = [w for w in wanted if w in header_order or w not in (b"TIME", b"REPS")]
    check(header_order == wanted, label + ": header order")
    check(names.count(b"PEND") == len(p.patterns), label + ": one PEND per pattern slot")
    check(names.count(b"SEND") == len(p.modules), label + ": one SEND per module slot")
    # split the module section per slot and compare link / controller chunks
    first_mod = names.index(b"PATL") + 1
    while names[first_mod - 1 : first_mod] and b"PEND" in names[first_mod:]:
        first_mod = names.index(b"PEND", first_mod) + 1
    slots, cur = [], []
    for item in chunks[first_mod:]:
        if item[0] == b"SEND":
            check(item[1] == b"", label + ": SEND empty")
            slots.append(cur)
            cur = []
        else:
            cur.append(item)
    check(cur == [], label + ": nothing after last SEND")
    check(len(slots) == len(p.modules), label + ": slot count")
    for mod, slot in zip(p.modules, slots):
        if mod is None:
            check(slot == [], label + ": empty slot has no chunks")
            continue
        where = "%s: module %d" % (label, mod.index)
        links = [c for c in slot if c[0] in (b"SLNK", b"SLnK")]
        check(links == expected_link_chunks(mod), where + " link chunks")
        attached = [k for k, c in mod.controllers.items() if c.attached(mod)]
        cvals = [c[1] for c in slot if c[0] == b"CVAL"]
        check(
            cvals == [struct.pack("<i", mod.get_raw(k)) for k in attached],
            where + " CVAL chunks",
        )
        cmid = [c[1] for c in slot if c[0] == b"CMID"]
        if attached:
            want = b"".join(mod.controller_midi_maps[k].cmid_data for k in attached)
            check(cmid == [want], where + " CMID chunk")
        else:
            check(cmid == [], where + " no CMID")
        chnk = [c[1] for c in slot if c[0] == b"CHNK"]
        if mod.chnk:
            check(chnk == [struct.pack("<I", mod.chnk)], where + " CHNK")
        else:
            check(chnk == [], where + " no CHNK")
        order = [c[0] for c in slot]
        check(order[0] == b"SFFF", where + " SFFF first")
        if cvals:
            check(
                order.index(b"SLNK") < order.index(b"CVAL") < order.index(b"CMID"),
                where + " order",
            )
    return blob


def check_pattern_chunks():
    pat = Pattern(tracks=2, lines=3, name="näme", x=-3, y=70000)
    pat.fg_color = (1, 2, 3)
    pat.bg_color = (4, 5, 6)
    pat.flags_PFLG = 2
    pat.flags_PFFF = 0x10
    pat.y_size = 17
    fill(pat, 5)
    cells = b"".join(
        struct.pack("<BBHHH", n.note, n.vel, n.module, n.ctl, n.val)
        for line in pat.data
        for n in line
    )
    check(pat.raw_data == cells, "Pattern.raw_data is row-major concatenation")
    check(len(pat.raw_data) == 2 * 3 * 8, "Pattern.raw_data length")
    got = list(pat.iff_chunks())
    want = [
        (b"PDTA", cells),
        (b"PNME", "näme".encode("utf-8") + b"\0"),
        (b"PCHN", struct.pack("<I", 2)),
        (b"PLIN", struct.pack("<I", 3)),
        (b"PYSZ", struct.pack("<I", 17)),
        (b"PFLG", struct.pack("<I", 2)),
        (b"PICO", b"\0" * 32),
        (b"PFGC", bytes((1, 2, 3))),
        (b"PBGC", bytes((4, 5, 6))),
        (b"PFFF", struct.pack("<I", 0x10)),
        (b"PXXX", struct.pack("<i", -3)),
        (b"PYYY", struct.pack("<i", 70000)),
    ]
    check(got == want, "Pattern.iff_chunks content and order")
    pat.name = None
    check([n for n, _ in pat.iff_chunks()][1] == b"PCHN", "PNME skipped when unnamed")
    clone = PatternClone(source=7, x=-1, y=2)
    check(
        list(clone.iff_chunks())
        == [
            (b"PPAR", struct.pack("<I", 7)),
            (b"PFFF", struct.pack("<I", 1)),
            (b"PXXX", struct.pack("<i", -1)),
            (b"PYYY", struct.pack("<i", 2)),
        ],
        "PatternClone.iff_chunks",
    )
    # out-of-range values are still reported by struct
    bad = Pattern()
    bad.x = 2**31
    try:
        list(bad.iff_chunks())
        check(False, "PXXX overflow must raise")
    except struct.error:
        pass
    # setter: exact inverse of the getter
    other = Pattern(tracks=2, lines=3)
    other.raw_data = cells
    check(other.raw_data == cells, "raw_data setter/getter round trip")
    check(
        [[(n.note, n.vel, n.module, n.ctl, n.val) for n in l] for l in other.data]
        == [[(n.note, n.vel, n.module, n.ctl, n.val) for n in l] for l in pat.data],
        "raw_data setter fills cells row-major",
    )
    # setter with short data: cells before the gap are written, then struct.error
    short = Pattern(tracks=2, lines=2)
    try:
        short.raw_data = cells[:20]
        check(False, "short raw_data must raise")
    except struct.error:
        pass
    got = [(n.note, n.vel, n.module, n.ctl, n.val) for l in short.data for n in l]
    ref = [(n.note, n.vel, n.module, n.ctl, n.val) for l in pat.data for n in l]
    check(got[:2] == ref[:2], "short raw_data: leading cells written")
    check(got[2:] == [(0, 0, 0, 0, 0)] * 2, "short raw_data: later cells untouched")
    # extra data is ignored
    longer = Pattern(tracks=1, lines=1)
    longer.raw_data = cells
    check(longer.raw_data == cells[:8], "extra raw_data ignored")
    # lines grown after the grid exists -> IndexError from the grid
    grown = Pattern(tracks=1, lines=1)
    grown.data
    grown.lines = 2
    try:
        grown.raw_data = cells
        check(False, "grown pattern must raise IndexError")
    except IndexError:
        pass
    # tracks shrunk after the grid exists: offsets follow the *current* tracks
    shrunk = Pattern(tracks=2, lines=2)
    shrunk.data
    shrunk.tracks = 1
    shrunk.raw_data = cells
    got = [(n.note, n.vel, n.module, n.ctl, n.val) for l in shrunk.data for n in l]
    check(got[0] == ref[0] and got[2] == ref[1], "shrunk: offsets use current tracks")
    check(got[1] == (0, 0, 0, 0, 0) == got[3], "shrunk: second column untouched")


class Recorder:
    def __init__(self):
        self.calls = []

    def write(self, b):
        self.calls.append(b)


def check_write_chunk():
    for name, padded in [
        (b"", b"    "),
        (b"A", b"A   "),
        (b"AB", b"AB  "),
        (b"ABC", b"ABC "),
        (b"ABCD", b"ABCD"),
        (b"ABCDEF", b"ABCD"),
        (b"BPM ", b"BPM "),
    ]:
        for data in (b"", b"x", bytes(range(256)) * 3):
            rec = Recorder()
            write_chunk(rec, name, data)
            check(
                rec.calls == [padded, struct.pack("<I", len(data)), data],
                "write_chunk(%r, %d bytes)" % (name, len(data)),
            )
    rec = Recorder()
    check(write_chunk(rec, None, None) is None and rec.calls == [], "None name no-op")
    check(write_chunk(Recorder(), b"ABCD", b"") is None, "write_chunk returns None")
    for bad in ("AB", "ABCD"):
        try:
            write_chunk(Recorder(), bad, b"")
            check(False, "str chunk name must raise TypeError")
        except TypeError:
            pass
    try:
        write_chunk(object(), b"ABCD", b"")
        check(False, "file without write must raise AttributeError")
    except AttributeError:
        pass
    f = BytesIO()
    write_chunk(f, b"ABCD", bytearray(b"xyz"))
    check(f.getvalue() == b"ABCD\x03\x00\x00\x00xyz", "bytearray payload")


def main():
    check_write_chunk()
    check_pattern_chunks()
    big = build_big()
    blob = check_project_bytes(big, "big")
    gaps = build_with_gaps()
    check_project_bytes(gaps, "gaps")
    check_project_bytes(Project(), "default")
    # the generator is repeatable and read() == write_to()
    check(big.read() == blob, "read() equals write_to() output")
    check(list(big.chunks()) == list(big.chunks()), "chunks() repeatable")
    check(all(isinstance(c, tuple) and len(c) == 2 for c in big.chunks()), "2-tuples")
    # round trip
    for label, proj in (("big", big), ("gaps", gaps), ("default", Project())):
        data = save(proj)
        loaded = read_sunvox_file(BytesIO(data))
        check(snapshot(loaded) == snapshot(proj), label + ": round trip snapshot")
        check(save(loaded) == data, label + ": saved bytes are a fixed point")
    # link arrays of several sizes share nothing observable
    fan = Project()
    sources = [fan.new_module(m.Generator) for _ in range(40)]
    for count, src in enumerate(sources, 1):
        src >> fan.output
        data = parse(save(fan))
        slnk = [d for n, d in data if n == b"SLNK"][0]
        check(
            slnk == struct.pack("<%s" % ("i" * count), *range(1, count + 1)),
            "fan-in of %d" % count,
        )
    check(b"SLnK" not in [n for n, _ in parse(save(fan))], "fan: trivial slots elided")
    # mismatched link arrays are still rejected by struct
    broken = Project()
    g = broken.new_module(m.Generator)
    g >> broken.output
    broken.output.in_link_slots.append(0)
    try:
        save(broken)
        check(False, "mismatched link arrays must raise struct.error")
    except struct.error:
        pass
    # out-of-range project field
    over = Project()
    over.initial_bpm = 2**32
    try:
        save(over)
        check(False, "u32 overflow must raise struct.error")
    except struct.error:
        pass
    # golden digest of a deterministic project (computed on the original tree)
    digest = hashlib.sha256(blob).hexdigest()
    check(digest == GOLDEN, "golden digest (got %s)" % digest)
    if FAILURES:
        print("%d check(s) failed" % len(FAILURES))
        sys.exit(1)
    print("PASS")


GOLDEN = "68f54e9af776e5427a9a98dd97e1feccfde0f95260d5667cd5e881011ee448f4"

if __name__ == "__main__":
    main()
