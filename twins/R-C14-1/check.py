"""Behaviour check for Project.attach_module (slot placement, ownership, output)."""
import sys
from io import BytesIO

from rv.api import Project, m, read_sunvox_file
from rv.errors import ModuleOwnershipError
from rv.modules.module import Module
from rv.modules.output import Output


def coherent(project):
    assert isinstance(project.modules[0], Output)
    assert project.output is project.modules[0]
    for i, mod in enumerate(project.modules):
        if mod is not None:
            assert mod.index == i, (mod.index, i)
            assert mod.parent is project


def roundtrip(project):
    f = BytesIO()
    project.write_to(f)
    f.seek(0)
    return read_sunvox_file(f)


def snapshot(project):
    return [(id(x), None if x is None else (x.index, id(x.parent))) for x in project.modules]


def main():
    # fresh project
    p = Project()
    assert len(p.modules) == 1 and p.output.index == 0 and p.output.parent is p
    coherent(p)

    # appending with no gaps
    mods = [p.new_module(m.Amplifier) for _ in range(4)]
    assert [x.index for x in mods] == [1, 2, 3, 4]
    coherent(p)

    # return value is the module itself
    g = m.Generator()
    assert g.index is None and g.parent is None
    assert p.attach_module(g) is g
    assert g.index == 5 and g.parent is p

    # attaching twice is a no-op
    before = snapshot(p)
    assert p.attach_module(g) is g
    assert p.attach_module(g, loading=True) is g
    p += g
    assert snapshot(p) == before

    # None appends an empty slot (both loading and not)
    assert p.attach_module(None) is None
    assert p.attach_module(None, loading=True) is None
    assert p.modules[-2:] == [None, None] and len(p.modules) == 8
    coherent(p)

    # make more gaps by hand: positions 2, 4
    p.modules[2] = None
    p.modules[4] = None
    others = {i: p.modules[i] for i in (0, 1, 3, 5)}
    a = p.attach_module(m.Echo())
    assert a.index == 2 and p.modules[2] is a
    b = p.attach_module(m.Echo(), loading=False)
    assert b.index == 4 and p.modules[4] is b
    # loading=True appends even though gaps (6, 7) remain
    c = p.attach_module(m.Echo(), loading=True)
    assert c.index == 8 and p.modules[8] is c and len(p.modules) == 9
    assert p.modules[6] is None and p.modules[7] is None
    d = p.attach_module(m.Reverb())
    assert d.index == 6
    e = p.new_module(m.Reverb)
    assert e.index == 7
    f = p.new_module(m.Reverb)
    assert f.index == 9 and len(p.modules) == 10
    for i, x in others.items():
        assert p.modules[i] is x and x.index == i
    coherent(p)

    # base Module refused, nothing changes
    before = snapshot(p)
    try:
        p.attach_module(Module())
    except RuntimeError as exc:
        assert str(exc) == "Cannot attach base Module instance."
    else:
        raise AssertionError("base Module accepted")
    assert snapshot(p) == before

    # foreign module refused, nothing changes anywhere
    q = Project()
    q.modules.append(None)
    q.attach_module(None)
    before_q = snapshot(q)
    before_p = snapshot(p)
    for kwargs in ({}, {"loading": True}, {"loading": False}):
        try:
            q.attach_module(a, **kwargs)
        except ModuleOwnershipError as exc:
            assert str(exc) == "Module is already attached to another project."
        else:
            raise AssertionError("foreign module accepted")
    try:
        q += [a]
    except ModuleOwnershipError:
        pass
    else:
        raise AssertionError("foreign module accepted by +=")
    assert snapshot(q) == before_q and snapshot(p) == before_p
    assert a.parent is p and a.index == 2

    # module whose parent is preset to the project but not yet in list
    pre = m.Amplifier(parent=q)
    assert q.attach_module(pre) is pre and pre.index == 1 and pre.parent is q
    pre2 = m.Amplifier(parent=q, index=77)
    q.attach_module(pre2, loading=True)
    assert pre2.index == 3 and q.modules[3] is pre2 and q.modules[2] is None
    coherent(q)

    # Output handling: a second Output not at 0 does not replace project.output
    out0 = p.output
    o2 = p.attach_module(Output())
    assert o2.index == 10 and p.output is out0
    # Output landing on slot 0 becomes the project's output
    r = Project()
    old = r.output
    r.modules[0] = None
    o3 = r.attach_module(Output())
    assert o3.index == 0 and r.output is o3 and r.output is not old
    # ... but not when loading (appended at the end instead)
    r2 = Project()
    old2 = r2.output
    r2.modules[0] = None
    o4 = r2.attach_module(Output(), loading=True)
    assert o4.index == 1 and r2.output is old2
    # a non-Output filling slot 0 leaves .output alone
    r3 = Project()
    old3 = r3.output
    r3.modules[0] = None
    amp = r3.attach_module(m.Amplifier())
    assert amp.index == 0 and r3.output is old3

    # save / load keeps gaps and indexes, then gap filling on the loaded project
    s = Project()
    ms = [s.new_module(m.Amplifier, name="m%d" % i) for i in range(1, 7)]
    s.connect(ms[0], ms[1])
    s.connect(ms[5], s.output)
    s.modules[3] = None
    s.modules[5] = None
    t = roundtrip(s)
    assert [None if x is None else x.name for x in t.modules] == [
        "Output", "m1", "m2", None, "m4", None, "m6"]
    coherent(t)
    n1 = t.new_module(m.Generator)
    n2 = t.new_module(m.Generator)
    n3 = t.new_module(m.Generator)
    assert (n1.index, n2.index, n3.index) == (3, 5, 7)
    coherent(t)
    u = roundtrip(t)
    coherent(u)
    assert [type(x).__name__ for x in u.modules] == [type(x).__name__ for x in t.modules]
    try:
        u.attach_module(n1)
    except ModuleOwnershipError:
        pass
    else:
        raise AssertionError("foreign module accepted after reload")
    coherent(u)

    # += with lists (nested) of modules
    w = Project()
    x1, x2, x3 = m.Amplifier(), m.Echo(), m.Reverb()
    w += [x1, [x2, x3]]
    assert (x1.index, x2.index, x3.index) == (1, 2, 3)
    coherent(w)

    print("PASS")


if __name__ == "__main__":
    try:
        main()
    except AssertionError:
        import traceback
        traceback.print_exc()
        print("FAIL")
        sys.exit(1)
