"""C13 refactoring 2: ModuleMeta's registry/controller/option/docstring set-up
rewritten with equivalent expressions (rv/modules/meta.py).

Checks that
  * the registered module classes still equal specs/fileformat.yaml field by field
    (registry keys, controller order and numbering from 1, ranges, enums, defaults,
    dependent range tables, options),
  * the generated class and enum docstrings of all 43 module classes are unchanged,
  * ad-hoc classes built with the metaclass get the same registry entries,
    controller order/number/name/label, option dict and docstrings as before,
    including inheritance, overriding, aliasing and the error cases.

Run from the repository root with PYTHONPATH=<root>/src/python.
"""
# ---- shared: field-by-field comparison of rv.modules against specs/fileformat.yaml ----
import pathlib
from enum import Enum

import yaml


def _enumname_ref(ekey):
    # independent restatement of the generator's enum key mangling
    for a, b in (("/", "_div_"), ("*", "_mul_"), (".", "_"), ("+", "_plus_"),
                 ("-", "_neg_"), ("^", "_pow_")):
        ekey = ekey.replace(a, b)
    if ekey[0].isdigit():
        ekey = "_" + ekey
    elif ekey[0] == "_":
        ekey = ekey[1:]
    while "__" in ekey:
        ekey = ekey.replace("__", "_")
    return ekey.lower()


def compare_with_spec(root, module_classes=None):
    """Return a list of mismatch strings (empty when the classes equal the spec)."""
    from rv.controller import (CompactRange, Controller, DependentRange,
                               NoOffsetRange, Range, WarnOnlyRange)
    from rv.option import Option
    import rv.modules

    if module_classes is None:
        module_classes = rv.modules.MODULE_CLASSES
    spec = yaml.safe_load((pathlib.Path(root) / "specs" / "fileformat.yaml").read_text())
    mts = spec["module_types"]
    bad = []
    say = bad.append
    names = {(m.get("type") or n) for n, m in mts.items()}
    if len(names) != len(mts):
        say("duplicate type names in spec")
    if set(module_classes) != names:
        say(f"registry keys differ: {sorted(set(module_classes) ^ names)}")
    nctl = nopt = 0
    for n, m in mts.items():
        mtype = m.get("type") or n
        cls = module_classes.get(mtype)
        if cls is None:
            continue
        tag = n
        if cls.__name__ != n:
            say(f"{tag}: class name {cls.__name__}")
        base = next((b for b in cls.__mro__ if b.__name__ == "Base" + n), None)
        if base is None or base.__module__ != "rv.modules.base." + n.lower():
            say(f"{tag}: generated base class missing")
            continue
        if cls.mtype != mtype or vars(base)["name"] != n or vars(base)["mtype"] != mtype:
            say(f"{tag}: mtype/name")
        if cls.mgroup != m["group"]:
            say(f"{tag}: group")
        if cls.default_flags != (m.get("defaultFlags") or 0) or cls.flags != cls.default_flags:
            say(f"{tag}: flags")
        if cls.options_chnm != m.get("options_chnm", 0):
            say(f"{tag}: options_chnm")
        # enums
        for ename, members in (m.get("enums") or {}).items():
            e = getattr(cls, ename, None)
            if not (isinstance(e, type) and issubclass(e, Enum)):
                say(f"{tag}: enum {ename} missing")
                continue
            got = [(x.name, x.value) for x in e]
            want = [(_enumname_ref(k), v) for k, v in members.items()]
            if got != want:
                say(f"{tag}: enum {ename} members {got} != {want}")
        # controllers
        want_ctls = []
        for d in m.get("controllers") or []:
            for cname, cdef in d.items():
                want_ctls.append(("in_" if cname == "in" else cname, cdef))
        got_ctls = list(cls.controllers.items())
        extra = got_ctls[len(want_ctls):]  # hand-written additions (MetaModule, Sampler)
        got_ctls = got_ctls[: len(want_ctls)]
        base_ctls = {k for k, v in vars(base).items() if isinstance(v, Controller)}
        if (
            [k for k, _ in got_ctls] != [k for k, _ in want_ctls]
            or base_ctls != {k for k, _ in want_ctls}
            or any(k in vars(base) for k, _ in extra)
        ):
            say(f"{tag}: controller order {[k for k, _ in got_ctls]}")
            continue
        for j, (k, c) in enumerate(extra, len(want_ctls) + 1):
            if c.number != j or c.name != k:
                say(f"{tag}.{k}: extra controller numbering")
        ctlmap = dict(want_ctls)
        for i, ((k, c), (_, cdef)) in enumerate(zip(got_ctls, want_ctls), 1):
            nctl += 1
            t = f"{tag}.{k}"
            if not isinstance(c, Controller) or getattr(cls, k) is not c:
                say(f"{t}: not the class attribute")
            if c.name != k or c.number != i or c.label != k.replace("_", " ").title():
                say(f"{t}: name/number/label {c.name} {c.number} {c.label}")
            if c._attached is not bool(cdef.get("attached", True)):
                say(f"{t}: attached")
            vt = c.value_type
            if "min" in cdef and "max" in cdef:
                kind = CompactRange if cdef.get("compact") else NoOffsetRange if cdef.get("no_offset") else Range
                if type(vt) is not kind or (vt.min, vt.max) != (cdef["min"], cdef["max"]):
                    say(f"{t}: range {vt!r}")
                if c.default != cdef["default"] or type(c.default) is not type(cdef["default"]):
                    say(f"{t}: default {c.default!r}")
            elif "enum" in cdef:
                e = getattr(cls, cdef["enum"])
                if vt is not e:
                    say(f"{t}: enum type {vt!r}")
                if c.default is not e[_enumname_ref(cdef["default"])]:
                    say(f"{t}: enum default {c.default!r}")
            elif "bool" in cdef:
                if vt is not bool or c.default is not cdef["default"]:
                    say(f"{t}: bool {vt!r} {c.default!r}")
            elif "depends_on" in cdef:
                if type(vt) is not DependentRange or vt.ctl_name != cdef["depends_on"]:
                    say(f"{t}: dependent {vt!r}")
                    continue
                e = getattr(cls, ctlmap[cdef["depends_on"]]["enum"])
                want_map = [(e[_enumname_ref(k2)], (r["min"], r["max"])) for k2, r in cdef["ranges"].items()]
                got_map = [(k2, (r.min, r.max)) for k2, r in vt.range_map.items()]
                if got_map != want_map or any(type(r) is not WarnOnlyRange for r in vt.range_map.values()):
                    say(f"{t}: range table {got_map}")
                first = next(iter(cdef["ranges"].values()))
                if type(vt.default) is not WarnOnlyRange or (vt.default.min, vt.default.max) != (first["min"], first["max"]):
                    say(f"{t}: dependent default range")
                if c.default != cdef["default"]:
                    say(f"{t}: default")
            else:
                say(f"{t}: unknown spec kind")
        # options
        want_opts = {}
        for d in m.get("options") or []:
            want_opts.update(d)
        base_opts = {k for k, v in vars(base).items() if isinstance(v, Option)}
        if list(cls.options) != sorted(want_opts) or base_opts != set(want_opts):
            say(f"{tag}: option names {list(cls.options)}")
            continue
        for oname, ospec in want_opts.items():
            nopt += 1
            o = cls.options[oname]
            t = f"{tag}.{oname}"
            if not isinstance(o, Option) or getattr(cls, oname) is not o or o.name != oname:
                say(f"{t}: identity/name")
            if (o.byte, o.bit, o.size) != (ospec["byte"], ospec["bit"], ospec["size"]):
                say(f"{t}: byte/bit/size")
            if o.number != (ospec.get("number") or None):
                say(f"{t}: number {o.number}")
            if "min" in ospec and "max" in ospec:
                if (o.min, o.max) != (ospec["min"], ospec["max"]) or o.inverted is not False:
                    say(f"{t}: bounds")
            else:
                if (o.min, o.max) != (None, None) or o.inverted is not bool(ospec.get("inverted", False)):
                    say(f"{t}: inverted/bounds")
            if o.exclusive_of != list(ospec.get("exclusive_of") or []):
                say(f"{t}: exclusive_of")
            if ospec.get("enum"):
                wd = getattr(getattr(cls, ospec["enum"]), ospec["default"])
                if o.default is not wd:
                    say(f"{t}: enum default")
            elif o.default != ospec["default"] or type(o.default) is not type(ospec["default"]):
                say(f"{t}: default {o.default!r}")
    return bad, len(mts), nctl, nopt


# ---- metaclass harness ----
import hashlib
import sys
from textwrap import dedent

DOC_GOLDEN = "8bf3f355b9246a949a672f3d6029536ba3f63a2f6649166dd6bac2f3d9068e84"


def ref_class_doc(cls, original_doc):
    """Independent restatement of the documented class docstring layout."""
    bar = "=" * 40
    out = ['"%s" SunVox %s Module' % (cls.mtype, cls.mgroup), ""]
    if original_doc:
        out.append(dedent(original_doc))
    out += ["", "Behaviors:", ""]
    out += ["- " + b.name for b in sorted(cls.behaviors)]
    if cls.controllers:
        out += ["", "Controllers:", "", " ".join([bar] * 4)]
        out.append("%-40s %-40s %-40s %-40s" % ("Number", "Name", "Type", "Default"))
        out.append(" ".join([bar] * 4))
        for i, c in enumerate(cls.controllers.values(), 1):
            out.append(
                "%-40s %-40s %-40s %-40s"
                % ("``%02x`` (%d)" % (i, i), c.name, repr(c.value_type), repr(c.default))
            )
        out += [" ".join([bar] * 4), ""]
    else:
        out.append("This module has no controllers.")
    return "\n".join(out)


def ref_enum_doc(e):
    bar = "=" * 40
    out = ["An enumeration.", "", bar + " " + bar, "%-40s %-40s" % ("Name", "Value"), bar + " " + bar]
    out += ["%-40s %40d" % (v.name, v.value) for v in e]
    out.append(bar + " " + bar)
    return "\n".join(out)


def check_real_docstrings(fails):
    import rv.modules
    from enum import Enum

    h = hashlib.sha256()
    n_enum = 0
    for mtype in sorted(rv.modules.MODULE_CLASSES):
        cls = rv.modules.MODULE_CLASSES[mtype]
        h.update(mtype.encode() + b"\0" + cls.__doc__.encode() + b"\0")
        for k in dir(cls):
            e = getattr(cls, k)
            if isinstance(e, type) and issubclass(e, Enum):
                n_enum += 1
                # (enums attached after class creation, e.g. DrumSynth.BDNOTE, have no table)
                h.update(k.encode() + b"\0" + (e.__doc__ or "<none>").encode() + b"\0")
                if e.__doc__ is not None and e.__doc__ != ref_enum_doc(e):
                    fails.append(f"docs: enum {cls.__name__}.{k}")
        # layout (the part below the hand-written text) is predictable
        tail = ref_class_doc(cls, None)
        head, rest = tail.split("\n\nBehaviors:", 1)
        if not (cls.__doc__.startswith(head) and cls.__doc__.endswith("\n\nBehaviors:" + rest)):
            fails.append(f"docs: class {cls.__name__} layout")
    if rv.modules.Module.__doc__ is None or "Abstract base class" not in rv.modules.Module.__doc__:
        fails.append("docs: Module docstring was rewritten")
    if os_environ_flag("C13_PRINT_GOLDEN"):
        print("DOC", h.hexdigest(), n_enum)
    if h.hexdigest() != DOC_GOLDEN:
        fails.append(f"docs: digest {h.hexdigest()}")


def os_environ_flag(name):
    import os

    return bool(os.environ.get(name))


def check_adhoc_classes(fails):
    from enum import Enum, IntEnum

    import rv.modules
    from rv.controller import Controller
    from rv.modules import Behavior, Module
    from rv.modules.meta import ModuleMeta
    from rv.option import Option

    reg = rv.modules.MODULE_CLASSES
    saved = dict(reg)

    def expect(tag, got, want):
        if got != want:
            fails.append(f"adhoc {tag}: {got!r} != {want!r}")

    try:
        class ZBase:
            zeta = Controller((0, 10), 1)
            alpha = Controller((-5, 5), 0)
            f_exponential_freq = Controller(bool, True)
            o_b = Option(name="o_b", byte=0, bit=1, size=1, default=False)
            o_a = Option(name="o_a", byte=0, bit=0, size=1, default=True)

        class T1(ZBase, Module):
            """
            Hand written text.

              indented
            """

            mtype = "T1 Test"
            mgroup = "Misc"
            behaviors = {Behavior.sends_audio, Behavior.receives_audio}

            class Shape(IntEnum):
                round = 0
                square = 7

            beta = Controller(Shape, Shape.round)
            own_opt = Option(name="own_opt", byte=1, bit=0, size=1, default=False)

        expect("registered", reg.get("T1 Test"), T1)
        expect("order", list(T1.controllers), ["zeta", "alpha", "f_exponential_freq", "beta"])
        expect("numbers", [c.number for c in T1.controllers.values()], [1, 2, 3, 4])
        expect("names", [c.name for c in T1.controllers.values()], list(T1.controllers))
        expect("labels", [c.label for c in T1.controllers.values()],
               ["Zeta", "Alpha", "F Exponential Freq", "Beta"])
        expect("identity", [T1.controllers[k] is getattr(T1, k) for k in T1.controllers], [True] * 4)
        expect("options", list(T1.options.items()),
               [("o_a", ZBase.__dict__["o_a"]), ("o_b", ZBase.__dict__["o_b"]), ("own_opt", T1.__dict__["own_opt"])])
        expect("own dicts", ("controllers" in vars(T1), "options" in vars(T1)), (True, True))
        expect("Module untouched", (Module.controllers, Module.options), ({}, {}))
        expect("doc", T1.__doc__, ref_class_doc(T1, "\n            Hand written text.\n\n              indented\n            "))
        expect("doc first line", T1.__doc__.splitlines()[0], '"T1 Test" SunVox Misc Module')
        expect("doc row", T1.__doc__.splitlines()[-2],
               "%-40s %-40s %-40s %-40s" % ("``04`` (4)", "beta", "<enum 'Shape'>", "<Shape.round: 0>"))
        expect("enum doc", T1.Shape.__doc__, ref_enum_doc(T1.Shape))
        expect("enum doc row", T1.Shape.__doc__.splitlines()[-2], "square" + " " * 34 + " " + " " * 39 + "7")
        inst = T1()
        expect("instance values", (inst.zeta, inst.alpha, inst.beta), (1, 0, T1.Shape.round))

        # subclass: inherited mtype re-registers, new/overriding controllers go last
        class T2(T1):
            aardvark = Controller((0, 1), 0)
            alpha = Controller((0, 99), 50)
            o_a = Option(name="o_a", byte=5, bit=0, size=1, default=False)

        expect("sub registered", reg.get("T1 Test"), T2)
        expect("sub order", list(T2.controllers), ["zeta", "f_exponential_freq", "beta", "aardvark", "alpha"])
        expect("sub numbers", [c.number for c in T2.controllers.values()], [1, 2, 3, 4, 5])
        expect("sub override", (T2.controllers["alpha"].value_type.max, T2.options["o_a"].byte), (99, 5))
        expect("parent dict kept", list(T1.controllers), ["zeta", "alpha", "f_exponential_freq", "beta"])
        # controller objects are shared with the parent, so they now carry T2's numbers
        expect("shared numbering", [c.number for c in T1.controllers.values()], [1, 2, 2, 3])
        expect("sub options", list(T2.options), ["o_a", "o_b", "own_opt"])
        # (class docstrings are not inherited, so no hand-written part here)
        expect("sub doc", T2.__doc__, ref_class_doc(T2, None))

        # one controller bound to two names: both listed, the later name sticks
        class T3(Module):
            mtype = "T3 Test"
            mgroup = "Misc"
            first = Controller((0, 1), 0)
            xx = yy = Controller((0, 2), 0)
            last = Controller((0, 3), 0)

        expect("alias order", list(T3.controllers), ["first", "xx", "yy", "last"])
        expect("alias obj", (T3.xx is T3.yy, T3.xx.name, T3.xx.number, T3.xx.label), (True, "yy", 3, "Yy"))
        expect("alias numbers", [c.number for c in T3.controllers.values()], [1, 3, 3, 4])
        expect("alias doc", T3.__doc__, ref_class_doc(T3, None))

        # no controllers at all
        class T4(Module):
            mtype = "T4 Test"
            mgroup = "Effect"

        expect("empty", (T4.controllers, T4.options), ({}, {}))
        expect("empty doc", T4.__doc__,
               '"T4 Test" SunVox Effect Module\n\n\nBehaviors:\n\nThis module has no controllers.')

        # falsy mtype: class is built but not registered
        before = dict(reg)

        class T5(Module):
            mtype = ""
            mgroup = "Misc"

        expect("falsy mtype", reg, before)

        # missing mtype: not registered, docstring set-up raises AttributeError
        try:
            ModuleMeta("NoType", (), {"mgroup": "Misc", "behaviors": set()})
        except AttributeError:
            pass
        else:
            fails.append("adhoc: class without mtype did not raise AttributeError")
        expect("missing mtype registry", reg, before)
        try:
            ModuleMeta("NoGroup", (), {"mtype": "NoGroup Test", "behaviors": set()})
        except AttributeError:
            pass
        else:
            fails.append("adhoc: class without mgroup did not raise AttributeError")
        expect("registered before failing", reg.get("NoGroup Test").__name__, "NoGroup")

        # a class literally called Module keeps its docstring
        M = ModuleMeta("Module", (), {"__doc__": "keep me", "c": Controller((0, 1), 0)})
        expect("Module-named", (M.__doc__, list(M.controllers), M.c.number, M.options), ("keep me", ["c"], 1, {}))

        # enum with non-integer values cannot be tabulated
        class Words(Enum):
            a = "x"

        try:
            ModuleMeta("BadEnum", (), {"mtype": "BadEnum Test", "mgroup": "Misc", "behaviors": set(), "Words": Words})
        except ValueError:
            pass
        else:
            fails.append("adhoc: non-integer enum did not raise ValueError")
    finally:
        reg.clear()
        reg.update(saved)


def main():
    root = pathlib.Path.cwd()
    if not (root / "specs" / "fileformat.yaml").exists():
        print("FAIL: run from the repository root")
        return 1
    fails = []
    bad, nmod, nctl, nopt = compare_with_spec(root)
    fails += bad
    if (nmod, nctl, nopt) != (43, 502, 49):
        fails.append(f"spec coverage {(nmod, nctl, nopt)}")
    check_real_docstrings(fails)
    check_adhoc_classes(fails)
    # the ad-hoc classes renumbered only their own controllers
    bad, *_ = compare_with_spec(root)
    fails += ["after adhoc: " + b for b in bad]
    if fails:
        print("FAIL")
        for f in fails:
            print("  ", f)
        return 1
    print(f"PASS ({nmod} module types, {nctl} controllers, {nopt} options)")
    return 0


if __name__ == "__main__":
    sys.exit(main())
