"""C13-2 check: genrv.tools.generate (enumname, resolve_object_name, generate, main).

Run from the repository root with PYTHONPATH=<root>/src/python.
"""
import contextlib
import io
import itertools
import logging
import random
import sys
import tempfile
from pathlib import Path

import yaml

from genrv.tools import generate as G

FAILURES = []


def check(cond, msg):
    if not cond:
        FAILURES.append(msg)


def ref_enumname(ekey):
    # verbatim reference copy of the original implementation
    ekey = ekey.replace("/", "_div_")
    ekey = ekey.replace("*", "_mul_")
    ekey = ekey.replace(".", "_")
    ekey = ekey.replace("+", "_plus_")
    ekey = ekey.replace("-", "_neg_")
    ekey = ekey.replace("^", "_pow_")
    if ekey[0].isdigit():
        ekey = f"_{ekey}"
    elif ekey[0] == "_":
        ekey = ekey[1:]
    while "__" in ekey:
        ekey = ekey.replace("__", "_")
    ekey = ekey.lower()
    return ekey


def outcome(fn, *a):
    try:
        return ("ok", fn(*a))
    except Exception as e:  # noqa
        return ("err", type(e))


# ------------------------------------------------------------------- enumname
def check_enumname():
    fixed = {
        "Hz/64": "hz_div_64",
        "line/2": "line_div_2",
        "off": "off",
        "-1": "neg_1",
        "+1": "plus_1",
        "x^2": "x_pow_2",
        "x*2": "x_mul_2",
        "1.5": "_1_5",
        "8bit": "_8bit",
        "_x": "x",
        "__x": "_x",
        "___x": "_x",
        "a__b___c": "a_b_c",
        "A.B": "a_b",
        "LP_12dB": "lp_12db",
        "-": "neg_",
        "_": "",
        "__": "_",
        "-.": "neg_",
        "._a": "_a",
        ".5": "5",
        "1/x": "_1_div_x",
        "a/-b": "a_div_neg_b",
        "a-/b": "a_neg_div_b",
        "٣x": "_٣x",  # non-ASCII digit still counts as a digit
        "²": "_²",  # superscript two: isdigit() is true
        "Ä-": "ä_neg_",
    }
    for k, v in fixed.items():
        check(G.enumname(k) == v, f"enumname({k!r}) == {v!r}, got {G.enumname(k)!r}")
        check(ref_enumname(k) == v, f"(reference) enumname({k!r})")
    check(outcome(G.enumname, "") == ("err", IndexError), "enumname('') -> IndexError")
    check(outcome(G.enumname, None)[0] == "err", "enumname(None) raises")
    check(outcome(G.enumname, 3) == outcome(ref_enumname, 3), "enumname(3) same error")
    check(outcome(G.enumname, True) == outcome(ref_enumname, True), "enumname(True)")
    # exhaustive over a small alphabet up to length 5, random beyond that
    alphabet = "/*.+-^_a1Z"
    n = 0
    for length in range(1, 6):
        for tup in itertools.product(alphabet, repeat=length):
            s = "".join(tup)
            n += 1
            if G.enumname(s) != ref_enumname(s):
                check(False, f"enumname mismatch on {s!r}")
                return
    rng = random.Random(13)
    for _ in range(20000):
        s = "".join(rng.choice(alphabet + "_" * 5) for _ in range(rng.randint(1, 24)))
        if G.enumname(s) != ref_enumname(s):
            check(False, f"enumname mismatch on {s!r}")
            return
    # every key and enum default in the real spec
    spec = yaml.safe_load(Path("specs/fileformat.yaml").read_text())
    seen = 0
    for mname, m in spec["module_types"].items():
        for ename, members in (m.get("enums") or {}).items():
            names = []
            for key in members:
                seen += 1
                check(
                    outcome(G.enumname, key) == outcome(ref_enumname, key),
                    f"{mname}.{ename}.{key!r}",
                )
                if isinstance(key, str):
                    names.append(G.enumname(key))
            check(len(set(names)) == len(names), f"{mname}.{ename} names unique")
            check(all(x.isidentifier() for x in names), f"{mname}.{ename} identifiers")
        for entry in m.get("controllers") or []:
            for cname, cdef in entry.items():
                if "enum" in cdef:
                    d = cdef["default"]
                    check(
                        outcome(G.enumname, d) == outcome(ref_enumname, d),
                        f"{mname}.{cname} default",
                    )
                for key in cdef.get("ranges") or {}:
                    check(G.enumname(key) == ref_enumname(key), f"{mname}.{cname} range")
    check(seen > 300, "walked the spec enums")
    check(G.enumname.__annotations__ == {"ekey": str, "return": str}, "signature")


# -------------------------------------------------------- resolve_object_name
class FakeGen:
    instances = []

    def __init__(self, **options):
        self.options = options
        self.ran_with = []
        FakeGen.instances.append(self)

    def __repr__(self):
        return "<FakeGen>"

    def run(self, env):
        self.ran_with.append(env)

    class Inner:
        class Deeper(object):
            marker = 42


def check_resolve():
    import collections
    import os.path

    from genrv.codegen.python.gen import PythonGenerator

    r = G.resolve_object_name
    check(r("genrv.codegen.python.gen:PythonGenerator") is PythonGenerator, "resolve gen")
    check(r("os:path.join") is os.path.join, "resolve dotted attr")
    check(r("os.path:join") is os.path.join, "resolve dotted module")
    check(
        r("collections:OrderedDict.fromkeys") == collections.OrderedDict.fromkeys,
        "resolve classmethod",
    )
    check(r("__main__:FakeGen.Inner.Deeper.marker") == 42, "resolve 4 levels")
    check(outcome(r, "os") == ("err", ValueError), "no colon -> ValueError")
    check(outcome(r, "a:b:c") == ("err", ValueError), "two colons -> ValueError")
    check(outcome(r, "os:nope") == ("err", AttributeError), "missing attr")
    check(outcome(r, "os:path.nope.x") == ("err", AttributeError), "missing mid attr")
    check(outcome(r, "os:") == ("err", AttributeError), "empty attr")
    check(outcome(r, "no_such_module_c13:x") == ("err", ModuleNotFoundError), "missing mod")
    check(outcome(r, ":x") == ("err", ValueError), "empty module name")


# ---------------------------------------------------------- generate and main
def check_generate():
    FakeGen.instances.clear()
    records = []

    class H(logging.Handler):
        def emit(self, record):
            records.append(record)

    h = H()
    G.log.addHandler(h)
    old = G.log.level
    G.log.setLevel(logging.DEBUG)
    try:
        env = object()
        res = G.generate(env, "__main__:FakeGen", spec_base="a/", dest_base="b/")
    finally:
        G.log.removeHandler(h)
        G.log.setLevel(old)
    check(res is None, "generate returns None")
    check(len(FakeGen.instances) == 1, "one generator instance")
    inst = FakeGen.instances[0]
    check(inst.options == {"spec_base": "a/", "dest_base": "b/"}, "options as kwargs")
    check(inst.ran_with == [env], "run(env) called once")
    check(
        [(x.levelno, x.getMessage()) for x in records]
        == [(logging.INFO, "Running codegen <FakeGen>")],
        "generate log message",
    )
    check(outcome(G.generate, None, "__main__:FakeGen.nope") == ("err", AttributeError),
          "generate bad name")


def run_main(argv):
    old_argv = sys.argv
    sys.argv = ["genrv"] + argv
    err = io.StringIO()
    try:
        with contextlib.redirect_stderr(err), contextlib.redirect_stdout(io.StringIO()):
            try:
                return ("ok", G.main(), err.getvalue())
            except SystemExit as e:
                return ("exit", e.code, err.getvalue())
    finally:
        sys.argv = old_argv


def check_main():
    from jinja2 import Environment
    from stringcase import camelcase, pascalcase

    check(run_main([])[:2] == ("exit", 2), "missing --config -> exit 2")
    check("--config" in run_main([])[2], "usage mentions --config")
    check(G.DESCRIPTION == "Radiant Voices code generator tool", "description")
    check(G.arg_parser().description == G.DESCRIPTION, "parser description")
    check(G.arg_parser().parse_args(["--config", "x.yaml"]).config == "x.yaml", "parse")

    with tempfile.TemporaryDirectory() as tmp:
        tmp = Path(tmp)
        saved = sys.argv
        sys.argv = ["genrv", "--config", str(tmp / "nope.yaml")]
        try:
            with contextlib.redirect_stderr(io.StringIO()):
                check(outcome(G.main) == ("err", FileNotFoundError), "FileNotFoundError")
        finally:
            sys.argv = saved

        # 1. fake generators, listed twice: each config entry is run, in order
        FakeGen.instances.clear()
        cfg = tmp / "fake.yaml"
        cfg.write_text(
            yaml.safe_dump(
                [
                    {"generator": "__main__:FakeGen", "spec_base": "s1", "dest_base": "d1"},
                    {"generator": "__main__:FakeGen", "tag": 2},
                ]
            )
        )
        messages = []

        class Collect(logging.Handler):
            def emit(self, record):
                messages.append((record.levelno, record.getMessage()))

        collector = Collect()
        G.log.addHandler(collector)
        try:
            res = run_main(["--config", str(cfg)])
        finally:
            G.log.removeHandler(collector)
        check(res[:2] == ("ok", 0), f"main returns 0 ({res[:2]})")
        check(
            [i.options for i in FakeGen.instances]
            == [{"spec_base": "s1", "dest_base": "d1"}, {"tag": 2}],
            "configs run in order",
        )
        envs = [e for i in FakeGen.instances for e in i.ran_with]
        check(len(envs) == 2 and envs[0] is envs[1], "one shared environment")
        env = envs[0]
        check(isinstance(env, Environment), "jinja environment")
        want = dict(camelcase=camelcase, enumname=G.enumname, hex=hex,
                    pascalcase=pascalcase, repr=repr)
        for name, fn in want.items():
            check(env.filters.get(name) is fn, f"filter {name}")
        default_filters = set(Environment().filters)
        check(set(env.filters) == default_filters | set(want), "no other filters added")
        check(sorted(env.loader.mapping) == ["python", "ts"], "prefix loader keys")
        t = env.get_template("python/base_module.py.jinja2")
        check(t.filename.endswith("base_module.py.jinja2"), "python template loads")
        check(any(n.startswith("ts/") for n in env.list_templates()), "ts templates")
        check(
            env.from_string("{{ 'Hz/64' | enumname }} {{ 255 | hex }} {{ 'a' | repr }} "
                            "{{ 'foo_bar' | pascalcase }} {{ 'foo_bar' | camelcase }}").render()
            == "hz_div_64 0xff 'a' FooBar fooBar",
            "filters render",
        )
        check(
            messages
            == [
                (logging.INFO, "Generating code with __main__:FakeGen..."),
                (logging.INFO, "Running codegen <FakeGen>"),
            ]
            * 2,
            "progress log",
        )
        check(logging.getLogger("genrv").level == logging.DEBUG, "genrv logger level")

        # 2. the real python generator, end to end through main()
        dest = tmp / "out" / "rv"
        cfg2 = tmp / "real.yaml"
        cfg2.write_text(
            yaml.safe_dump(
                [
                    {
                        "generator": "genrv.codegen.python.gen:PythonGenerator",
                        "spec_base": "specs/",
                        "dest_base": str(dest),
                    }
                ]
            )
        )
        res = run_main(["--config", str(cfg2)])
        check(res[:2] == ("ok", 0), "real generation ok")
        checked_in = Path("src/python/rv/modules/base")
        produced = sorted(p.name for p in (dest / "modules" / "base").glob("*.py"))
        expected = sorted(
            p.name for p in checked_in.glob("*.py") if p.name != "__init__.py"
        )
        check(produced == expected and len(produced) == 43, "43 files generated")
        for name in produced:
            check(
                (dest / "modules" / "base" / name).read_text()
                == (checked_in / name).read_text(),
                f"generated {name} == checked-in",
            )


check_enumname()
check_resolve()
check_generate()
check_main()

if FAILURES:
    print("FAIL")
    for f in FAILURES[:40]:
        print("  -", f)
    print(len(FAILURES), "failure(s)")
    sys.exit(1)
print("PASS")
