"""Behaviour check for C08 (connection graph / slot order across save/load).

Focus of this script: the per-module link readers ``ModuleReader.process_SLNK``
and ``ModuleReader.process_SLnK`` -- payload decoding, accumulation over
repeated chunks, stripping of trailing -1 entries, empty / misaligned payloads.
They are driven both directly (on a bare ModuleReader) and through complete
files (round trips and doctored files compared with an independent reference
model of the original algorithm); the writer's chunk stream is checked too.

Run:  cd <root> && PYTHONPATH=<root>/src/python /venv/bin/python check.py
"""
import logging
import random
import struct
import sys
from io import BytesIO
from struct import pack, unpack

from rv.api import Project, m, read_sunvox_file
from rv.lib.iff import chunks as iff_chunks
from rv.lib.iff import write_chunk

FAILURES = []


def expect(cond, msg):
    if not cond:
        FAILURES.append(msg)


# --------------------------------------------------------------------------
# helpers
# --------------------------------------------------------------------------


def tables(project):
    out = []
    for mod in project.modules:
        if mod is None:
            out.append(None)
        else:
            out.append(
                (
                    list(mod.in_links),
                    list(mod.in_link_slots),
                    list(mod.out_links),
                    list(mod.out_link_slots),
                )
            )
    return out


def save(project):
    f = BytesIO()
    project.write_to(f)
    return f.getvalue()


def load(data):
    return read_sunvox_file(BytesIO(data))


def split_modules(chunk_list):
    """Return (head, [module sections], tail) from a flat chunk list.

    A module section is the list of chunks from SFFF (or a bare SEND for an
    empty slot) up to and including SEND.
    """
    head, sections, cur = [], [], None
    seen_module = False
    for name, data in chunk_list:
        if name == b"SFFF" and cur is None:
            cur = [(name, data)]
            seen_module = True
        elif name == b"SEND":
            if cur is None:
                sections.append([(name, data)])
                seen_module = True
            else:
                cur.append((name, data))
                sections.append(cur)
                cur = None
        elif cur is not None:
            cur.append((name, data))
        elif not seen_module:
            head.append((name, data))
        else:
            raise AssertionError("chunk after modules: %r" % name)
    assert cur is None
    return head, sections


def join_file(head, sections):
    f = BytesIO()
    for name, data in head:
        write_chunk(f, name, data)
    for sec in sections:
        for name, data in sec:
            write_chunk(f, name, data)
    return f.getvalue()


def parse_file(data):
    return split_modules(list(iff_chunks(BytesIO(data))))


def ref_link_chunks(in_links, in_link_slots):
    """Reference model of what the writer emits for one module's links."""
    if len(in_links) > 0:
        fmt = "<" + "i" * len(in_links)
        a = pack(fmt, *in_links)
        b = pack(fmt, *in_link_slots)
        out = [(b"SLNK", a)]
        if any(s not in (-1, 0) for s in in_link_slots):
            out.append((b"SLnK", b))
        return out
    return [(b"SLNK", b"")]


def ints(data):
    return list(unpack("<" + "i" * (len(data) // 4), data))


def strip(lst):
    lst = list(lst)
    while lst[-1:] == [-1]:
        lst.pop()
    return lst


class RefMod:
    def __init__(self, index):
        self.index = index
        self.in_links = []
        self.in_link_slots = []
        self.out_links = []
        self.out_link_slots = []


def ref_load(sections):
    """Reference model of the loader's link handling (original algorithm).

    Returns ("ok", tables, n_warnings) or ("err", exception type).
    """
    warnings = 0
    try:
        mods = []
        for idx, sec in enumerate(sections):
            if len(sec) == 1:
                mods.append(None)
                continue
            mod = RefMod(idx)
            for name, data in sec:
                if name == b"SLNK" and data:
                    mod.in_links.extend(
                        unpack("<" + "i" * (len(data) // 4), data)
                    )
                    mod.in_links = strip(mod.in_links)
                elif name == b"SLnK" and data:
                    mod.in_link_slots.extend(
                        unpack("<" + "i" * (len(data) // 4), data)
                    )
                    mod.in_link_slots = strip(mod.in_link_slots)
            mods.append(mod)
        while mods and mods[-1] is None:
            mods.pop()
        for mod in mods[1:] + mods[:1]:
            if not mod or mod.in_link_slots:
                continue
            for other in mod.in_links:
                if other == -1:
                    mod.in_link_slots.append(-1)
                    continue
                if other >= len(mods):
                    warnings += 1
                    continue
                om = mods[other]
                in_slot = len(om.out_link_slots)
                out_slot = len(mod.in_link_slots)
                mod.in_link_slots.append(in_slot)
                om.out_links.append(mod.index)
                om.out_link_slots.append(out_slot)
        for mod in mods:
            if not mod:
                continue
            for i, link in enumerate(mod.in_links):
                oi = mod.in_link_slots[i]
                src = mods[link]
                if not src:
                    raise RuntimeError()
                while oi >= len(src.out_links):
                    src.out_links.append(-1)
                while oi >= len(src.out_link_slots):
                    src.out_link_slots.append(-1)
                if oi != -1:
                    src.out_links[oi] = mod.index
                    src.out_link_slots[oi] = i
        tabs = [
            None
            if mod is None
            else (mod.in_links, mod.in_link_slots, mod.out_links, mod.out_link_slots)
            for mod in mods
        ]
        return ("ok", tabs, warnings)
    except Exception as e:  # noqa
        return ("err", type(e))


class WarnCounter(logging.Handler):
    def __init__(self):
        super().__init__(level=logging.WARNING)
        self.messages = []

    def emit(self, record):
        self.messages.append(record.getMessage())


def lib_load(data):
    handler = WarnCounter()
    logger = logging.getLogger("rv.readers.sunvox")
    logger.addHandler(handler)
    old_propagate = logger.propagate
    logger.propagate = False
    try:
        try:
            project = load(data)
        except Exception as e:  # noqa
            return ("err", type(e))
        n = sum(1 for msg in handler.messages if msg.startswith("Found SLNK on "))
        return ("ok", tables(project), n)
    finally:
        logger.removeHandler(handler)
        logger.propagate = old_propagate


def compare_load(data, label):
    head, sections = parse_file(data)
    want = ref_load(sections)
    got = lib_load(data)
    expect(want == got, "%s: loader mismatch\n  want %r\n  got  %r" % (label, want, got))
    return got


MODULE_TYPES = [m.Amplifier, m.MultiCtl, m.Generator, m.Sound2Ctl, m.Filter]


def random_project(rng, n_modules, n_ops, holes=0):
    project = Project()
    slots = []
    for i in range(n_modules):
        if holes and rng.random() < 0.25:
            project.attach_module(None, loading=True)
            holes -= 1
        slots.append(project.attach_module(rng.choice(MODULE_TYPES)(), loading=True))
    everything = [project.output] + slots
    for _ in range(n_ops):
        a = rng.choice(everything)
        b = rng.choice(everything)
        r = rng.random()
        if r < 0.65:
            project.connect(a, b)
        elif r < 0.9:
            project.connect(a, ~b)
        else:
            project.connect(~a, b)
    return project


def check_writer(project, label):
    """Compare the chunk stream of ``project`` with the reference model."""
    chunk_list = list(project.chunks())
    expect(chunk_list[0] == (b"SVOX", b""), label + ": magic chunk first")
    head, sections = split_modules(chunk_list[1:])
    expect(len(sections) == len(project.modules), label + ": one section per module")
    for mod, sec in zip(project.modules, sections):
        if mod is None:
            expect(sec == [(b"SEND", b"")], label + ": empty slot is a bare SEND")
            continue
        prefix = list(mod.iff_chunks())
        expect(sec[: len(prefix)] == prefix, label + ": module chunks come first")
        want_links = ref_link_chunks(mod.in_links, mod.in_link_slots)
        got_links = sec[len(prefix) : len(prefix) + len(want_links)]
        expect(
            got_links == want_links,
            "%s: module %r link chunks %r != %r"
            % (label, mod.index, got_links, want_links),
        )
        rest = sec[len(prefix) + len(want_links) :]
        expect(
            all(name not in (b"SLNK", b"SLnK") for name, _ in rest),
            label + ": no further link chunks in section",
        )
        expect(rest[-1] == (b"SEND", b""), label + ": section ends with SEND")
        if rest[:-1]:
            expect(
                rest[0][0] in (b"CVAL", b"CHNK"),
                label + ": link chunks are followed by CVAL/CHNK, got %r" % rest[0][0],
            )
        for name, data in got_links:
            expect(isinstance(data, bytes), label + ": payload is bytes")
    return chunk_list


# --------------------------------------------------------------------------
# 1. fixed, hand-checked cases
# --------------------------------------------------------------------------


def fixed_cases():
    # chain into output: all slots zero -> no SLnK at all
    p = Project()
    a = p.new_module(m.Amplifier)
    b = p.new_module(m.Amplifier)
    b >> a >> p.output
    names = [n for n, _ in p.chunks()]
    expect(names.count(b"SLNK") == 3, "chain: one SLNK per module")
    expect(names.count(b"SLnK") == 0, "chain: no SLnK when all slots are 0")
    _, secs = parse_file(save(p))
    slnk = [[d for n, d in s if n == b"SLNK"] for s in secs]
    expect(slnk == [[pack("<i", 1)], [pack("<i", 2)], [b""]], "chain: SLNK payloads")
    q = load(save(p))
    expect(tables(q) == tables(p), "chain: round trip")
    expect(
        tables(q) == [([1], [0], [], []), ([2], [0], [0], [0]), ([], [], [1], [0])],
        "chain: exact tables",
    )

    # fan-out: source gets out slots 0,1,2 -> sinks store slot 0,1,2 -> SLnK for two
    p = Project()
    src = p.new_module(m.MultiCtl)
    sinks = [p.new_module(m.Amplifier) for _ in range(3)]
    src >> sinks
    _, secs = parse_file(save(p))
    per_mod = [[(n, d) for n, d in s if n in (b"SLNK", b"SLnK")] for s in secs]
    expect(
        per_mod
        == [
            [(b"SLNK", b"")],
            [(b"SLNK", b"")],
            [(b"SLNK", pack("<i", 1))],
            [(b"SLNK", pack("<i", 1)), (b"SLnK", pack("<i", 1))],
            [(b"SLNK", pack("<i", 1)), (b"SLnK", pack("<i", 2))],
        ],
        "fan-out: link chunks %r" % per_mod,
    )
    q = load(save(p))
    expect(tables(q) == tables(p), "fan-out: round trip")
    expect(q.modules[1].out_links == [2, 3, 4], "fan-out: out order")

    # fan-in with a freed slot in the middle
    p = Project()
    sink = p.new_module(m.Amplifier)
    srcs = [p.new_module(m.Generator) for _ in range(3)]
    p.connect(srcs, sink)
    p.connect(srcs[1], ~sink)
    expect(sink.in_links == [2, -1, 4], "fan-in: freed middle slot before save")
    _, secs = parse_file(save(p))
    per_mod = [(n, d) for n, d in secs[1] if n in (b"SLNK", b"SLnK")]
    expect(
        per_mod == [(b"SLNK", pack("<iii", 2, -1, 4))],
        "fan-in: -1/0 slots only -> SLnK omitted, got %r" % per_mod,
    )
    q = load(save(p))
    expect(q.modules[1].in_links == [2, -1, 4], "fan-in: in_links after load")
    expect(q.modules[1].in_link_slots == [0, -1, 0], "fan-in: slots after load")
    expect(q.modules[3].out_links == [], "fan-in: disconnected source stripped")

    # trailing freed slot is written but stripped on load
    p = Project()
    sink = p.new_module(m.Amplifier)
    srcs = [p.new_module(m.Generator) for _ in range(2)]
    p.connect(srcs, sink)
    p.connect(srcs[1], ~sink)
    _, secs = parse_file(save(p))
    per_mod = [(n, d) for n, d in secs[1] if n in (b"SLNK", b"SLnK")]
    expect(per_mod == [(b"SLNK", pack("<ii", 2, -1))], "trailing -1 is written")
    q = load(save(p))
    expect(q.modules[1].in_links == [2], "trailing -1 stripped on load")

    # cycle + self loop
    p = Project()
    a = p.new_module(m.Amplifier)
    b = p.new_module(m.Amplifier)
    a >> b >> a
    a >> a
    a >> p.output
    q = load(save(p))
    expect(tables(q) == tables(p), "cycle: round trip %r %r" % (tables(p), tables(q)))

    # packing failure: slots list shorter than links list
    p = Project()
    a = p.new_module(m.Amplifier)
    b = p.new_module(m.Amplifier)
    p.connect([a, b], p.output)
    p.output.in_link_slots.pop()
    seen = []
    try:
        for c in p.chunks():
            seen.append(c)
        expect(False, "pack failure: expected struct.error")
    except struct.error:
        pass
    prefix = list(p.output.iff_chunks())
    expect(
        seen[-len(prefix) :] == prefix and seen[-1][0] != b"SLNK",
        "pack failure: error raised before SLNK is produced (last %r)" % (seen[-1][0],),
    )
    # ... and too many slots
    p.output.in_link_slots.extend([0, 0])
    try:
        list(p.chunks())
        expect(False, "pack failure (long): expected struct.error")
    except struct.error:
        pass

    # module whose lists are not plain lists (tuples) still serialise
    p = Project()
    a = p.new_module(m.Amplifier)
    a >> p.output
    p.output.in_links = tuple(p.output.in_links)
    p.output.in_link_slots = tuple(p.output.in_link_slots)
    check_writer(p, "tuple lists")

    # slot value that is neither 0 nor -1 but falsy-looking / large / negative
    for slots, want_slnk2 in (
        ([0, 0], False),
        ([-1, -1], False),
        ([0, -1], False),
        ([0, 1], True),
        ([-2, 0], True),
        ([2 ** 31 - 1, 0], True),
        ([False, True], True),
        ([False, False], False),
    ):
        p = Project()
        a = p.new_module(m.Amplifier)
        b = p.new_module(m.Amplifier)
        p.connect([a, b], p.output)
        p.output.in_link_slots[:] = slots
        names = [n for n, _ in check_writer(p, "slots %r" % (slots,))]
        expect(
            (names.count(b"SLnK") == 1) == want_slnk2,
            "slots %r: SLnK presence should be %r" % (slots, want_slnk2),
        )

    # metamodule: embedded project links survive as well
    inner = Project()
    ia = inner.new_module(m.Amplifier)
    ib = inner.new_module(m.Amplifier)
    ic = inner.new_module(m.Amplifier)
    ia >> [ib, ic] >> inner.output
    outer = Project()
    mm = outer.new_module(m.MetaModule, project=inner)
    mm >> outer.output
    q = load(save(outer))
    expect(tables(q) == tables(outer), "metamodule: outer tables")
    expect(tables(q.modules[1].project) == tables(inner), "metamodule: inner tables")


# --------------------------------------------------------------------------
# 2. random histories: writer vs. model, loader vs. model
# --------------------------------------------------------------------------


def random_cases():
    rng = random.Random(80808)
    for case in range(150):
        n = rng.randint(1, 7)
        p = random_project(rng, n, rng.randint(0, 30), holes=rng.choice([0, 0, 1, 2]))
        label = "random[%d]" % case
        before = tables(p)
        check_writer(p, label)
        expect(tables(p) == before, label + ": writing does not mutate link tables")
        data = save(p)
        expect(data == save(p), label + ": writing twice gives identical bytes")
        got = compare_load(data, label)
        if got[0] == "ok":
            q = load(data)
            check_writer(q, label + " (reloaded)")
            compare_load(save(q), label + " (second generation)")


# --------------------------------------------------------------------------
# 3. doctored files: optional slot chunk absent / partial / malformed
# --------------------------------------------------------------------------


def doctored_cases():
    rng = random.Random(4242)
    for case in range(120):
        p = random_project(rng, rng.randint(2, 6), rng.randint(3, 25))
        head, secs = parse_file(save(p))
        label = "doctored[%d]" % case
        mode = case % 6
        new_secs = []
        for sec in secs:
            sec = list(sec)
            if mode == 0:  # drop every SLnK
                sec = [c for c in sec if c[0] != b"SLnK"]
            elif mode == 1:  # drop SLnK for some modules
                if rng.random() < 0.5:
                    sec = [c for c in sec if c[0] != b"SLnK"]
            elif mode == 2:  # add explicit SLnK everywhere (all-zero ones included)
                out = []
                idx = len(new_secs)
                for name, d in sec:
                    if name == b"SLnK":
                        continue
                    out.append((name, d))
                    if name == b"SLNK" and d and p.modules[idx] is not None:
                        s = p.modules[idx].in_link_slots
                        out.append((b"SLnK", pack("<" + "i" * len(s), *s)))
                sec = out
            elif mode == 3:  # truncate / extend payloads
                out = []
                for name, d in sec:
                    if name in (b"SLNK", b"SLnK") and d and rng.random() < 0.4:
                        choice = rng.randint(0, 3)
                        if choice == 0:
                            d = d[:-4]
                        elif choice == 1:
                            d = d + pack("<i", -1)
                        elif choice == 2:
                            d = d + pack("<ii", -1, -1)
                        else:
                            d = d[: rng.randint(0, len(d))]
                    out.append((name, d))
                sec = out
            elif mode == 4:  # point links at odd places
                out = []
                for name, d in sec:
                    if name == b"SLNK" and d and rng.random() < 0.5:
                        v = ints(d)
                        v[rng.randrange(len(v))] = rng.choice(
                            [-1, -2, len(secs), len(secs) + 3, 0, 1]
                        )
                        d = pack("<" + "i" * len(v), *v)
                    out.append((name, d))
                sec = out
            elif mode == 5:  # odd slot values
                out = []
                for name, d in sec:
                    if name == b"SLnK" and d and rng.random() < 0.7:
                        v = ints(d)
                        v[rng.randrange(len(v))] = rng.choice([-1, 0, 5, 9, -1])
                        d = pack("<" + "i" * len(v), *v)
                    out.append((name, d))
                sec = out
            new_secs.append(sec)
        compare_load(join_file(head, new_secs), label + " mode %d" % mode)

    # hand-made: link to an empty slot, with and without explicit slots
    p = Project()
    a = p.new_module(m.Amplifier)
    b = p.new_module(m.Amplifier)
    c = p.new_module(m.Amplifier)
    a >> b >> c >> p.output
    head, secs = parse_file(save(p))
    gone = [(b"SEND", b"")]
    r = compare_load(join_file(head, [secs[0], gone, secs[2], secs[3]]), "hole/no-slots")
    expect(r == ("err", AttributeError), "hole without slots -> AttributeError, got %r" % (r,))
    with_slots = []
    for sec in secs:
        out = []
        for name, d in sec:
            out.append((name, d))
            if name == b"SLNK" and d:
                out.append((b"SLnK", pack("<i", 3)))
        with_slots.append(out)
    r = compare_load(
        join_file(head, [with_slots[0], gone, with_slots[2], with_slots[3]]),
        "hole/with-slots",
    )
    expect(r == ("err", RuntimeError), "hole with slots -> RuntimeError, got %r" % (r,))
    r = compare_load(join_file(head, with_slots), "sparse out slots")
    expect(r[0] == "ok", "sparse out slots load")
    expect(
        r[1][1][2:] == ([-1, -1, -1, 2], [-1, -1, -1, 0]),
        "sparse out slots are padded with -1: %r" % (r[1][1],),
    )
    # trailing empty modules are dropped
    r = compare_load(join_file(head, secs + [gone, gone]), "trailing holes")
    expect(r[0] == "ok" and len(r[1]) == 4, "trailing empty modules removed")
    # link to a module past the end: warning, then failure in the rebuild pass
    bad = [list(s) for s in secs]
    bad[0] = [
        (n, pack("<ii", 3, 7) if n == b"SLNK" else d) for n, d in bad[0]
    ]
    r = compare_load(join_file(head, bad), "dangling link")
    expect(r == ("err", IndexError), "dangling link -> IndexError, got %r" % (r,))
    # misaligned payload
    bad = [list(s) for s in secs]
    bad[0] = [(n, d + b"\0" if n == b"SLNK" else d) for n, d in bad[0]]
    r = compare_load(join_file(head, bad), "misaligned SLNK")
    expect(r == ("err", struct.error), "misaligned SLNK -> struct.error, got %r" % (r,))
    bad = [list(s) for s in with_slots]
    bad[0] = [(n, b"\1\2" if n == b"SLnK" else d) for n, d in bad[0]]
    r = compare_load(join_file(head, bad), "short SLnK")
    expect(r == ("err", struct.error), "short SLnK -> struct.error, got %r" % (r,))
    # all -1 payloads collapse to nothing
    bad = [list(s) for s in with_slots]
    bad[0] = [
        (n, pack("<ii", -1, -1) if n in (b"SLNK", b"SLnK") else d) for n, d in bad[0]
    ]
    r = compare_load(join_file(head, bad), "all -1")
    expect(r[0] == "ok" and r[1][0][:2] == ([], []), "all -1 payloads stripped: %r" % (r,))
    # two SLNK chunks for one module accumulate
    bad = [list(s) for s in secs]
    out = []
    for n, d in bad[0]:
        out.append((n, d))
        if n == b"SLNK":
            out.append((b"SLNK", pack("<ii", -1, 2)))
    bad[0] = out
    r = compare_load(join_file(head, bad), "double SLNK")
    expect(r[0] == "ok" and r[1][0][0] == [3, -1, 2], "double SLNK accumulates: %r" % (r,))


# --------------------------------------------------------------------------
# 4. the two chunk handlers driven directly
# --------------------------------------------------------------------------


def direct_reader_cases():
    from rv.readers.module import ModuleReader

    def fresh():
        reader = ModuleReader(BytesIO(b""), index=1)
        reader._object = m.Amplifier()
        return reader

    def model(existing, data):
        if not data:
            return list(existing)
        out = list(existing) + list(unpack("<" + "i" * (len(data) // 4), data))
        while out[-1:] == [-1]:
            out.pop()
        return out

    rng = random.Random(1234)
    payloads = [
        b"",
        pack("<i", 0),
        pack("<i", -1),
        pack("<ii", -1, -1),
        pack("<iii", 3, -1, -1),
        pack("<iii", -1, 3, -1),
        pack("<iiii", -1, -1, -1, 7),
        pack("<ii", 2 ** 31 - 1, -(2 ** 31)),
        pack("<ii", -2, -1),
        pack("<iii", 1, 1, 1),
    ]
    for _ in range(60):
        n = rng.randint(1, 12)
        payloads.append(
            pack("<" + "i" * n, *[rng.choice([-1, -1, 0, 1, 2, 5, 300]) for _ in range(n)])
        )
    for attr, method in (("in_links", "process_SLNK"), ("in_link_slots", "process_SLnK")):
        other = "in_link_slots" if attr == "in_links" else "in_links"
        for data in payloads:
            reader = fresh()
            target = getattr(reader.object, attr)
            result = getattr(reader, method)(data)
            expect(result is None, "%s returns None" % method)
            expect(getattr(reader.object, attr) is target, "%s fills the list in place" % method)
            expect(
                target == model([], data),
                "%s(%r) -> %r, want %r" % (method, data, target, model([], data)),
            )
            expect(all(type(v) is int for v in target), "%s stores ints" % method)
            expect(getattr(reader.object, other) == [], "%s leaves %s alone" % (method, other))
            expect(reader.object.out_links == [] and reader.object.out_link_slots == [],
                   "%s leaves out tables alone" % method)
        # accumulation across several chunks, including pre-filled lists
        for _ in range(80):
            reader = fresh()
            want = []
            if rng.random() < 0.3:
                pre = [rng.choice([-1, 0, 4]) for _ in range(rng.randint(1, 4))]
                getattr(reader.object, attr).extend(pre)
                want = list(pre)
            for data in rng.sample(payloads, rng.randint(1, 4)):
                getattr(reader, method)(data)
                want = model(want, data)
                expect(
                    getattr(reader.object, attr) == want,
                    "%s accumulation: %r != %r" % (method, getattr(reader.object, attr), want),
                )
        # a pre-filled list with trailing -1 is left alone by an empty payload,
        # but stripped as a whole by a non-empty one
        reader = fresh()
        getattr(reader.object, attr).extend([5, -1])
        getattr(reader, method)(b"")
        expect(getattr(reader.object, attr) == [5, -1], "%s: empty payload is a no-op" % method)
        getattr(reader, method)(pack("<i", -1))
        expect(getattr(reader.object, attr) == [5], "%s: strips old trailing -1 too" % method)
        # payloads that are not a whole number of int32s
        for bad in (b"\x01", b"\x01\x02\x03", b"\x01\x00\x00\x00\x02", b"\xff" * 7):
            reader = fresh()
            getattr(reader.object, attr).extend([9])
            try:
                getattr(reader, method)(bad)
                expect(False, "%s(%r) should raise struct.error" % (method, bad))
            except struct.error:
                pass
            expect(
                getattr(reader.object, attr) == [9],
                "%s: failed decode leaves the list untouched" % method,
            )
        # bytearray / memoryview payloads decode like bytes
        for conv in (bytearray, memoryview):
            reader = fresh()
            getattr(reader, method)(conv(pack("<iii", 4, -1, -1)))
            expect(getattr(reader.object, attr) == [4], "%s accepts %s" % (method, conv.__name__))


def main():
    direct_reader_cases()
    fixed_cases()
    random_cases()
    doctored_cases()
    if FAILURES:
        for f in FAILURES[:40]:
            print("FAIL:", f)
        print("%d failure(s)" % len(FAILURES))
        sys.exit(1)
    print("PASS")


if __name__ == "__main__":
    main()
