"""Behaviour check for Project.attach_module (validation, gap filling, loading mode).

Run from the repository root with PYTHONPATH=<root>/src/python.
"""
import os
import random
import sys
from io import BytesIO

from rv.api import Project, Pattern, read_sunvox_file, m
from rv.errors import ModuleOwnershipError
from rv.modules.module import Module
from rv.modules.output import Output

failures = []


def check(cond, msg):
    if not cond:
        failures.append(msg)


def raises(exc, fn):
    try:
        fn()
    except exc as e:
        return e
    except Exception as e:
        failures.append("expected %s got %r" % (exc.__name__, e))
        return None
    failures.append("expected %s, nothing raised" % exc.__name__)
    return None


def coherent(project, label):
    check(project.modules[0] is project.output, label + ": output at 0")
    check(isinstance(project.output, Output), label + ": output type")
    for i, mod in enumerate(project.modules):
        if mod is not None:
            check(mod.index == i, "%s: index of %d" % (label, i))
            check(mod.parent is project, "%s: parent of %d" % (label, i))


def roundtrip(project):
    f = BytesIO()
    project.write_to(f)
    f.seek(0)
    return read_sunvox_file(f)


CLASSES = [m.Generator, m.Amplifier, m.Reverb, m.Delay, m.Echo, m.Filter, m.Lfo]

# --- fresh project -----------------------------------------------------------
p = Project()
out = p.output
check(p.modules == [out] and out.index == 0 and out.parent is p, "fresh project")
check(p.attach_module(out) is out and p.modules == [out], "re-attach output no-op")

g = m.Generator()
check(g.index is None and g.parent is None, "loose module has no index/parent")
check(p.attach_module(g) is g, "attach returns the module")
check(g.index == 1 and g.parent is p and p.modules == [out, g], "appended")
check(p.attach_module(g) is g and p.modules == [out, g], "attach twice no-op")
check(p.attach_module(g, loading=True) is g and p.modules == [out, g], "no-op loading")

# None: always appended, also when gaps exist and when not loading
check(p.attach_module(None) is None, "None returns None")
check(p.modules == [out, g, None], "None appended")
p.attach_module(None, loading=True)
p.attach_module(None)
check(p.modules == [out, g, None, None, None], "None appended again")

# gap filling: lowest first, nothing else moves
a, b, c, d = m.Amplifier(), m.Reverb(), m.Delay(), m.Echo()
p.attach_module(a)
check(a.index == 2 and p.modules == [out, g, a, None, None], "fills lowest gap")
p.attach_module(b, loading=True)
check(b.index == 5 and p.modules == [out, g, a, None, None, b], "loading appends")
p.attach_module(c, loading=False)
p.attach_module(d)
check(p.modules == [out, g, a, c, d, b], "remaining gaps filled in order")
e = m.Filter()
p.attach_module(e)
check(e.index == 6 and p.modules[-1] is e and len(p.modules) == 7, "then the end")
coherent(p, "p")
check(p.output is out, "output unchanged")

# --- refusals ----------------------------------------------------------------
q = Project()
snapshot_p, snapshot_q = list(p.modules), list(q.modules)
for victim in (g, a, e, out):
    before = (victim.index, victim.parent)
    for loading in (False, True):
        err = raises(ModuleOwnershipError, lambda: q.attach_module(victim, loading=loading))
        check(
            err is not None
            and str(err) == "Module is already attached to another project.",
            "ownership message",
        )
    check((victim.index, victim.parent) == before, "victim untouched")
    check(list(p.modules) == snapshot_p and list(q.modules) == snapshot_q, "lists untouched")
    check(q.output is snapshot_q[0], "q.output untouched")
# gaps in q do not change the refusal
q.attach_module(None)
raises(ModuleOwnershipError, lambda: q.attach_module(g))
check(q.modules == [q.output, None], "refusal with a gap leaves the gap")

base = Module()
for target in (p, q):
    n = len(target.modules)
    err = raises(RuntimeError, lambda: target.attach_module(base))
    check(err is not None and str(err) == "Cannot attach base Module instance.", "base msg")
    check(len(target.modules) == n and base.parent is None, "base module refused")
# the base-class check comes before the ownership check
base.parent = p
err = raises(RuntimeError, lambda: q.attach_module(base))
check(not isinstance(err, ModuleOwnershipError), "RuntimeError wins")
base.parent = None
raises(AttributeError, lambda: p.attach_module(42))

# a module pre-marked with this project as parent but not yet listed is attached
pre = m.Lfo(parent=q)
q.attach_module(pre)
check(q.modules == [q.output, pre] and pre.index == 1, "pre-parented module fills gap")
# a listed module whose parent was cleared: still a no-op, nothing rewritten
pre.parent = None
q.attach_module(pre)
check(q.modules == [q.output, pre] and pre.parent is None and pre.index == 1, "listed no-op")
pre.parent = q

# --- Output handling ---------------------------------------------------------
extra_out = Output()
q.attach_module(extra_out)
check(extra_out.index == 2 and q.output is q.modules[0], "second Output elsewhere")
check(q.output is not extra_out, "output not replaced by non-zero Output")
r = Project()
old_out = r.output
r.modules[0] = None
new_out = Output()
r.attach_module(new_out)
check(r.modules == [new_out] and r.output is new_out and new_out.index == 0, "Output in slot 0")
check(new_out.parent is r, "new output parent")
r2 = Project()
r2.modules[0] = None
gen0 = m.Generator()
r2.attach_module(gen0)
check(gen0.index == 0 and r2.modules == [gen0], "non-Output may fill slot 0")
check(isinstance(r2.output, Output) and r2.output is not gen0, "output ref kept")
# loading into an empty list (what the reader effectively does)
r3 = Project()
r3.modules.clear()
o3 = Output()
r3.attach_module(o3, loading=True)
r3.attach_module(None, loading=True)
g3 = m.Generator()
r3.attach_module(g3, loading=True)
check(r3.modules == [o3, None, g3] and r3.output is o3, "loading sequence")
check((o3.index, g3.index) == (0, 2), "loading indices")
g4 = m.Amplifier()
r3.attach_module(g4)
check(r3.modules == [o3, g4, g3] and g4.index == 1 and g3.index == 2, "fill after load")
coherent(r3, "r3")

# --- model based random histories -------------------------------------------
rng = random.Random(1414)
for trial in range(60):
    projects = [Project(), Project()]
    models = [[projects[0].output], [projects[1].output]]
    loose = []
    for step in range(40):
        k = rng.randrange(2)
        pr, model = projects[k], models[k]
        op = rng.random()
        if op < 0.15:
            loading = rng.random() < 0.5
            pr.attach_module(None, loading=loading)
            model.append(None)
        elif op < 0.25 and len(model) > 1:
            # punch a hole (simulates a loaded project with empty positions)
            i = rng.randrange(1, len(model))
            if model[i] is not None:
                gone = model[i]
                pr.modules[i] = None
                model[i] = None
                gone.parent = None
                gone.index = None
                loose.append(gone)
        elif op < 0.40:
            # foreign module -> refused, nothing changes
            other = models[1 - k]
            cands = [x for x in other if x is not None]
            victim = rng.choice(cands)
            state = (victim.index, victim.parent)
            raises(ModuleOwnershipError, lambda: pr.attach_module(victim, loading=rng.random() < 0.5))
            check((victim.index, victim.parent) == state, "random: victim untouched")
        elif op < 0.50:
            # re-attach -> no-op
            cands = [x for x in model if x is not None]
            pr.attach_module(rng.choice(cands), loading=rng.random() < 0.5)
        else:
            loading = rng.random() < 0.3
            if loose and rng.random() < 0.4:
                mod = loose.pop()
            else:
                mod = rng.choice(CLASSES)()
            how = rng.randrange(3)
            if loading:
                got = pr.attach_module(mod, loading=True)
                model.append(mod)
            else:
                if how == 0:
                    got = pr.attach_module(mod)
                elif how == 1:
                    pr += mod
                    got = mod
                else:
                    pr += [[mod]]
                    got = mod
                if None in model:
                    model[model.index(None)] = mod
                else:
                    model.append(mod)
            check(got is mod, "random: returns module")
        for kk in range(2):
            ok = len(projects[kk].modules) == len(models[kk]) and all(
                x is y for x, y in zip(projects[kk].modules, models[kk])
            )
            check(ok, "random: list matches model (trial %d step %d)" % (trial, step))
            coherent(projects[kk], "random %d/%d" % (trial, step))
        if failures:
            break
    if failures:
        break
    if trial % 10 == 0:
        for kk in range(2):
            again = roundtrip(projects[kk])
            # trailing empty positions are not kept by the file reader
            expected = list(models[kk])
            while expected[-1] is None:
                expected.pop()
            check(
                [type(x) for x in again.modules] == [type(x) for x in expected],
                "random: reload keeps positions and inner gaps",
            )
            coherent(again, "random reload")
            n_gaps = [i for i, x in enumerate(again.modules) if x is None]
            fresh = again.new_module(m.Generator)
            check(
                fresh.index == (n_gaps[0] if n_gaps else len(expected)),
                "random: reload then attach",
            )

# --- loaded project with a gap ----------------------------------------------
path = os.path.join("tests", "files", "issue54", "test1.sunvox")
if os.path.exists(path):
    lp = read_sunvox_file(path)
    coherent(lp, "issue54")
    gaps = [i for i, x in enumerate(lp.modules) if x is None]
    check(len(gaps) > 0, "issue54 has a gap")
    others = [(x, x.index) for x in lp.modules if x is not None]
    size = len(lp.modules)
    fill = lp.attach_module(m.Amplifier())
    check(fill.index == gaps[0] and len(lp.modules) == size, "issue54 gap filled in place")
    check(all(x.index == i and lp.modules[i] is x for x, i in others), "issue54 others fixed")
    raises(ModuleOwnershipError, lambda: Project().attach_module(fill))
    pat = Pattern(tracks=1, lines=1)
    lp += pat
    pat.data[0][0].mod = fill
    lp2 = roundtrip(lp)
    coherent(lp2, "issue54 reloaded")
    check(lp2.patterns[-1].data[0][0].mod is lp2.modules[gaps[0]], "note follows filler")

if failures:
    print("FAIL")
    for f in failures[:30]:
        print(" -", f)
    sys.exit(1)
print("PASS")
