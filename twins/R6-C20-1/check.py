"""Behaviour check for C20 refactoring 1 (performance-minded tidy-up).

Touched code: rv.modules.multictl.convert_value, MultiCtl.__init__,
MultiCtl.MappingArray.encoded_values / default.

The script compares the library against an independent, literal copy of the
original scaling function, checks range containment / monotonicity of the
MultiCtl fan-out inside a project, and pins the serialized form of the
mapping chunk.  It must print PASS on the unchanged tree and with the patch.
"""
import math
import struct
import sys

from rv.api import Project, m
from rv.errors import MappingError
from rv.modules.base.multictl import BaseMultiCtl
from rv.modules.multictl import MultiCtl, convert_value

FAILURES = []


def expect(cond, msg):
    if not cond:
        FAILURES.append(msg)
        if len(FAILURES) > 20:
            finish()


def finish():
    if FAILURES:
        for f in FAILURES:
            print("FAIL:", f)
        sys.exit(1)
    print("PASS")
    sys.exit(0)


def ref_convert(gain, qsteps, smin, smax, dmin, dmax, vmax, value, curve=None):
    """Literal copy of the original implementation (the specification)."""
    value = (value * gain) / 256
    value = min(value, 32768)
    if curve is not None:
        bucket = int(value / 128)
        start = 128 * bucket
        offset = value - start
        b = curve[bucket]
        a = curve[bucket + 1] if bucket < 256 else b
        c = min(offset / 128, 1.0)
        value = int((c * a) + ((1.0 - c) * b))
    srange = smax - smin
    if qsteps < 32768:
        quant = max(qsteps - 1, 1)
        step = 32768 / quant
        value = int(value / step)
        value = (value * step) / 32768
        value = smin + int(srange * value)
    else:
        value = smin + (srange * value) // 32768
    drange = dmax - dmin
    if vmax is not None:
        value /= 32768 / vmax
    if drange > 0:
        value += dmin
    else:
        value = dmin - value
    return int(value)


DEFAULT_CURVE = list(BaseMultiCtl.curve_chunk.default)
SQRT_CURVE = [int(round(32768 * math.sqrt(i / 256))) for i in range(257)]
SQUARE_CURVE = [(i * i * 32768) // (256 * 256) for i in range(257)]
STEP_CURVE = [0 if i < 100 else 32768 for i in range(257)]
FLAT_CURVE = [12345] * 257
CURVES = [None, DEFAULT_CURVE, SQRT_CURVE, SQUARE_CURVE, STEP_CURVE, FLAT_CURVE]

GAINS = [0, 1, 37, 128, 255, 256, 257, 272, 288, 512, 777, 1024]
QSTEPS = [0, 1, 2, 3, 7, 100, 1000, 32767, 32768]
WINDOWS = [(0, 32768), (0, 0), (5, 5), (100, 20000), (0, 8), (0, 256), (1, 16), (32768, 32768), (16384, 32768)]
SPANS = [1, 8, 15, 255, 256, 1000, 1022, 14000, 32768]
STRIDED_VALUES = list(range(0, 32769, 331)) + [1, 127, 128, 129, 16383, 16384, 16385, 32640, 32767, 32768]


def same(args, curve):
    try:
        want = ref_convert(*args, curve)
    except Exception as e:  # pragma: no cover - both must fail alike
        want = type(e)
    try:
        got = convert_value(*args, curve)
    except Exception as e:
        got = type(e)
    expect(
        got == want and type(got) is type(want),
        f"convert_value{args} curve={'None' if curve is None else curve[:3]}: {got!r} != {want!r}",
    )
    return got


def check_convert_value_grid():
    n = 0
    for ci, curve in enumerate(CURVES):
        for gain in GAINS:
            for qsteps in QSTEPS:
                for wi, (smin, smax) in enumerate(WINDOWS):
                    # rotate through spans/orientations to keep the grid affordable
                    span = SPANS[(n + wi) % len(SPANS)]
                    compact = (n % 3) == 0
                    vmax = None if compact else span
                    for dmin, dmax in ((0, span), (span, 0)):
                        for value in STRIDED_VALUES[(n % 4):: 4]:
                            same((gain, qsteps, smin, smax, dmin, dmax, vmax, value), curve)
                    n += 1


def check_convert_value_full_axis():
    """Complete 0..32768 value axis for sampled parameter tuples."""
    tuples = [
        (256, 32768, 0, 32768, 1024, None, False),
        (256, 32768, 0, 32768, 14000, DEFAULT_CURVE, False),
        (256, 32768, 0, 32768, 14000, DEFAULT_CURVE, True),
        (288, 5, 0, 8, 8, DEFAULT_CURVE, False),
        (512, 2, 0, 1, 1, DEFAULT_CURVE, False),
        (300, 17, 1000, 30000, 256, SQRT_CURVE, True),
        (1024, 100, 0, 32768, 1022, SQUARE_CURVE, False),
        (100, 32767, 0, 32768, 255, STEP_CURVE, True),
        (256, 0, 0, 256, 256, DEFAULT_CURVE, False),
        (256, 1, 20, 20000, 32768, None, True),
    ]
    for gain, qsteps, smin, smax, span, curve, rev in tuples:
        dmin, dmax = (span, 0) if rev else (0, span)
        # smin < smax, so values delivered must lie in 0..span
        prev = None
        for value in range(32769):
            got = same((gain, qsteps, smin, smax, dmin, dmax, span, value), curve)
            if not isinstance(got, int):
                continue
            expect(0 <= got <= span, f"out of range {got} for span {span} (value {value})")
            if prev is not None:
                if rev:
                    expect(got <= prev, f"not non-increasing at {value}: {prev}->{got}")
                else:
                    expect(got >= prev, f"not non-decreasing at {value}: {prev}->{got}")
            prev = got


def check_convert_value_odd_inputs():
    # values a caller may pass although a project never does
    for args in [
        (256, 32768, 0, 32768, 0, 100, 100, 40000),
        (256, 32768, 0, 32768, 0, 100, 100, -5),
        (-256, 10, 0, 32768, 0, 100, 100, 300),
        (256, 32768, 0, 32768, 0, 100, 0, 300),  # ZeroDivisionError
        (256.0, 3.0, 0, 32768, 0, 100, 100, 300.5),
        (256, 3, 0.0, 32768.0, 0, 100.0, 100.0, 300),
        (256, 3, 0, 32768, 5, 5, 100, 300),
        (256, True, 0, 32768, 0, 10, 10, 300),
        (256, 1.0, 0, 32768, 0, 10, 10, 30000),
        (256, 1, 0, 32768, 0, 10, 10, 30000),
        (256, 2.5, 0, 32768, 0, 10, 10, 30000),
    ]:
        for curve in (None, DEFAULT_CURVE):
            same(args, curve)
    # too short curve -> IndexError in both
    same((256, 32768, 0, 32768, 0, 100, 100, 20000), [0, 1, 2])
    # float('nan')
    same((256, 32768, 0, 32768, 0, 100, 100, float("nan")), None)


def check_mapping_chunk():
    mc = MultiCtl()
    arr = mc.mappings
    expect(isinstance(arr, MultiCtl.MappingArray), "mappings chunk type")
    expect(len(arr.values) == 16, "16 default mappings")
    expect(len({id(v) for v in arr.values}) == 16, "default mappings are distinct objects")
    for v in arr.values:
        expect(type(v) is MultiCtl.Mapping, "python type of mapping")
        expect(
            (v.min, v.max, v.controller, v.flags, v.future_use2, v.future_use3, v.future_use4, v.future_use5)
            == (0, 0x8000, 0, 0, 0, 0, 0, 0),
            "default mapping fields",
        )
    expect(arr.encoded_values == [0, 0x8000, 0, 0, 0, 0, 0, 0] * 16, "default encoded values")
    expect(isinstance(arr.encoded_values, list), "encoded_values is a list")
    expect(arr.bytes == struct.pack("<128I", *([0, 0x8000, 0, 0, 0, 0, 0, 0] * 16)), "default bytes")
    expect(arr.python_type is MultiCtl.Mapping, "python_type")

    rows = [(i, 32768 - i, i % 7, i & 1, i + 2, i + 3, i + 4, i + 5) for i in range(16)]
    mc = MultiCtl(mappings=rows, gain=300)
    flat = [x for row in rows for x in row]
    expect(mc.mappings.encoded_values == flat, "encoded values follow the constructor order")
    data = mc.mappings.bytes
    expect(data == struct.pack("<128I", *flat), "bytes of custom mappings")
    other = MultiCtl()
    other.mappings.bytes = data
    expect(other.mappings.encoded_values == flat, "bytes round trip")
    expect([type(v) for v in other.mappings.values] == [MultiCtl.Mapping] * 16, "round trip type")
    chunks = list(mc.mappings.chunks())
    expect(chunks == [(b"CHNM", struct.pack("<I", 0)), (b"CHDT", data)], "chunk stream")

    # longer tuples are truncated to 8 fields, shorter ones are refused
    mp = MultiCtl.Mapping((1, 2, 3, 4, 5, 6, 7, 8, 9, 10))
    expect((mp.min, mp.max, mp.controller, mp.future_use5) == (1, 2, 3, 8), "mapping truncation")
    for bad in [(1, 2, 3), (), (1, 2, 3, 4, 5, 6, 7)]:
        try:
            MultiCtl.Mapping(bad)
        except ValueError:
            pass
        else:
            expect(False, f"short mapping {bad} accepted")
    try:
        MultiCtl(mappings=[(0, 1, 0, 0, 0, 0, 0, 0)] * 17)
    except IndexError:
        pass
    else:
        expect(False, "17 constructor mappings accepted")
    # partially specified mappings keep defaults for the rest
    mc = MultiCtl(mappings=rows[:3])
    expect(mc.mappings.encoded_values == flat[:24] + [0, 0x8000, 0, 0, 0, 0, 0, 0] * 13, "partial mappings")
    # generators are fine as mappings argument
    mc = MultiCtl(mappings=(r for r in rows[:2]))
    expect(mc.mappings.encoded_values[:16] == flat[:16], "generator mappings")
    # attribute edits are serialized
    mc.mappings.values[5].controller = 9
    mc.mappings.values[5].min = 77
    expect(mc.mappings.encoded_values[40:43] == [77, 0x8000, 9], "edited mapping is encoded")
    # curve keyword
    mc = MultiCtl(curve=SQRT_CURVE)
    expect(mc.curve.values == SQRT_CURVE, "curve kwarg")
    expect(MultiCtl().curve.values == DEFAULT_CURVE, "default curve")
    names = [name for name, _ in MultiCtl().specialized_iff_chunks()]
    expect(names[:4] == [b"CHNM", b"CHDT", b"CHNM", b"CHDT"], "chunk order")


def build_project():
    p = Project()
    amp = p.new_module(m.Amplifier)
    gen = p.new_module(m.Generator)
    ms = p.new_module(m.MultiSynth)
    flt = p.new_module(m.Filter)
    amp2 = p.new_module(m.Amplifier)
    return p, amp, gen, ms, flt, amp2


def check_fan_out():
    p, amp, gen, ms, flt, amp2 = build_project()
    untouched = p.new_module(m.Amplifier, volume=333)
    mc = MultiCtl.macro(
        p, (amp, "balance"), (gen, "polyphony"), (ms, "transpose"), (flt, "freq"), (amp2, "inverse")
    )
    mc >> untouched  # linked, but the 6th mapping names no controller
    expect(mc.gain == 256, "macro picks unity gain for mixed targets")
    expect(mc.out_links == [amp.index, gen.index, ms.index, flt.index, amp2.index, untouched.index], "links")
    targets = [(amp, "balance", -128, 128), (gen, "polyphony", 1, 16), (ms, "transpose", -128, 128), (flt, "freq", 0, 14000)]
    pinned = {
        0: (-128, 1, -128, 0),
        16384: (0, 1, 0, 6999),
        32768: (128, 1, 128, 13999),
    }
    for reverse in (False, True):
        if reverse:
            for mp in mc.mappings.values[:4]:
                mp.min, mp.max = mp.max, mp.min
        for gain, quant, curve in [
            (256, 32768, DEFAULT_CURVE),
            (256, 9, DEFAULT_CURVE),
            (700, 32768, SQRT_CURVE),
            (90, 3, SQUARE_CURVE),
            (1024, 32767, STEP_CURVE),
        ]:
            mc.gain = gain
            mc.quantization = quant
            mc.curve.values = list(curve)
            prev = None
            for value in list(range(0, 32769, 97)) + [32768]:
                mc.value = value
                now = tuple(getattr(mod, name) for mod, name, _, _ in targets)
                for (mod, name, lo, hi), v in zip(targets, now):
                    expect(lo <= v <= hi, f"{name}={v} outside {lo}..{hi}")
                    expect(isinstance(v, int), f"{name} is not int")
                if prev is not None:
                    for a, b, (_, name, _, _) in zip(prev, now, targets):
                        expect(b <= a if reverse else b >= a, f"{name} not monotone ({a}->{b}, reverse={reverse})")
                prev = now
                expect(untouched.volume == 333, "unmapped link was modified")
                expect(amp2.inverse is False, "non-ranged target was modified")
                if not reverse and (gain, quant) == (256, 32768) and curve is DEFAULT_CURVE and value in pinned:
                    expect(now == pinned[value], f"pinned fan-out at {value}: {now}")
    # no parent: nothing happens, no error
    orphan = MultiCtl(mappings=[(0, 32768, 1, 0, 0, 0, 0, 0)])
    orphan.value = 1000
    expect(orphan.value == 1000, "orphan value")


def check_macro_refusals():
    p = Project()
    amps = [p.new_module(m.Amplifier) for _ in range(17)]
    try:
        MultiCtl.macro(p, *[(a, "volume") for a in amps])
    except MappingError as e:
        expect(str(e) == "MultiCtl supports max of 16 destinations", "message for >16")
    else:
        expect(False, "17 destinations accepted")
    try:
        MultiCtl.macro(p, (amps[0], "volume"), (amps[0], "balance"))
    except MappingError as e:
        expect(str(e) == "Only one MultiCtl mapping per destination module allowed", "message for duplicates")
    else:
        expect(False, "two targets on one module accepted")
    expect(len(p.modules) == 18, "refused macros must not create modules")
    mc = MultiCtl.macro(p, *[(a, "volume") for a in amps[:16]], initial=16384)
    expect(mc.out_links == [a.index for a in amps[:16]], "16 links")
    expect([a.volume for a in amps] == [512] * 16 + [256], "initial value is fanned out")


def main():
    check_mapping_chunk()
    check_convert_value_odd_inputs()
    check_convert_value_grid()
    check_convert_value_full_axis()
    check_fan_out()
    check_macro_refusals()
    finish()


if __name__ == "__main__":
    main()
