"""Behaviour check for the Python code generator tidy-up
(genrv/codegen/python/gen.py and base_module.py.jinja2).

Run from the repository root:
    PYTHONPATH=<root>/src/python python check.py
Passes on the unchanged tree and with patch.diff applied.
"""
import contextlib
import hashlib
import io
import os
import sys
import tempfile
from pathlib import Path

FAILURES = []
CHECKS = 0


def check(cond, msg):
    global CHECKS
    CHECKS += 1
    if not cond:
        FAILURES.append(msg)


# ---------------------------------------------------------------------------
# Property C13: registered module metadata == specs/fileformat.yaml
# ---------------------------------------------------------------------------
def reference_enumname(ekey):
    """Verbatim copy of the original genrv.tools.generate.enumname (oracle)."""
    ekey = ekey.replace("/", "_div_")
    ekey = ekey.replace("*", "_mul_")
    ekey = ekey.replace(".", "_")
    ekey = ekey.replace("+", "_plus_")
    ekey = ekey.replace("-", "_neg_")
    ekey = ekey.replace("^", "_pow_")
    if ekey[0].isdigit():
        ekey = f"_{ekey}"
    elif ekey[0] == "_":
        ekey = ekey[1:]
    while "__" in ekey:
        ekey = ekey.replace("__", "_")
    ekey = ekey.lower()
    return ekey


def compare_registry_with_spec(spec_path="specs/fileformat.yaml"):
    import yaml
    import rv.modules
    from rv.controller import (
        CompactRange,
        Controller,
        DependentRange,
        NoOffsetRange,
        Range,
        WarnOnlyRange,
    )
    from rv.option import Option

    with open(spec_path) as f:
        spec = yaml.safe_load(f)
    module_types = spec["module_types"]
    classes = rv.modules.MODULE_CLASSES
    expected_mtypes = [m.get("type") or name for name, m in module_types.items()]
    check(len(module_types) == 43, "spec has 43 module types")
    check(
        sorted(classes) == sorted(expected_mtypes),
        "registered mtypes == spec types",
    )
    n_ctl = n_opt = 0
    for type_name, m in module_types.items():
        mtype = m.get("type") or type_name
        cls = classes[mtype]
        where = f"[{type_name}]"
        bases = [b for b in cls.__mro__ if b.__name__ == "Base" + type_name]
        check(len(bases) == 1, where + " has exactly one generated base class")
        base = bases[0]
        check(base.__module__ == "rv.modules.base." + type_name.lower(), where + " base module")
        check(base.name == type_name, where + " name")
        check(base.mtype == mtype and cls.mtype == mtype, where + " mtype")
        check(base.mgroup == m.get("group") == cls.mgroup, where + " group")
        check(base.default_flags == (m.get("defaultFlags") or 0), where + " flags")
        check(base.flags == base.default_flags, where + " flags alias")
        # enums
        for ename, members in (m.get("enums") or {}).items():
            e = getattr(cls, ename)
            got = [(x.name, x.value) for x in e]
            want = [(reference_enumname(k), v) for k, v in members.items()]
            check(got == want, f"{where} enum {ename}")
        # controllers
        want_ctls = []
        for entry in m.get("controllers") or []:
            want_ctls.extend(entry.items())
        ctlmap = dict(want_ctls)
        # hand-written subclasses may append controllers (MetaModule, Sampler)
        # after the generated ones, never before or in between
        got_ctls = list(cls.controllers.items())
        extra = [k for k, _ in got_ctls[len(want_ctls):]]
        check(
            bool(extra) == (type_name in ("MetaModule", "Sampler")),
            where + " unexpected extra controllers %r" % extra,
        )
        check(all(not hasattr(base, k) for k in extra), where + " extras not on base")
        got_ctls = got_ctls[: len(want_ctls)]
        check(
            all(getattr(base, k) is c for k, c in got_ctls),
            where + " controllers live on the generated base",
        )
        check(
            [k for k, _ in got_ctls]
            == [("in_" if k == "in" else k) for k, _ in want_ctls],
            where + " controller order",
        )
        for number, ((gname, ctl), (sname, cdef)) in enumerate(
            zip(got_ctls, want_ctls), 1
        ):
            n_ctl += 1
            w = f"{where}.{gname}"
            check(isinstance(ctl, Controller), w + " type")
            check(getattr(cls, gname) is ctl, w + " attr identity")
            check(ctl.number == number, w + " number")
            check(ctl.name == gname, w + " name")
            check(ctl.label == gname.replace("_", " ").title(), w + " label")
            check(ctl._attached is bool(cdef.get("attached", True)), w + " attached")
            vt = ctl.value_type
            if "min" in cdef and "max" in cdef:
                kind = Range
                if cdef.get("compact"):
                    kind = CompactRange
                if cdef.get("no_offset"):
                    kind = NoOffsetRange
                check(type(vt) is kind, w + " range kind")
                check((vt.min, vt.max) == (cdef["min"], cdef["max"]), w + " bounds")
                check(ctl.default == cdef["default"], w + " default")
            elif "enum" in cdef and "default" in cdef:
                check(vt is getattr(cls, cdef["enum"]), w + " enum type")
                check(
                    ctl.default is vt[reference_enumname(cdef["default"])],
                    w + " enum default",
                )
            elif "bool" in cdef:
                check(vt is bool, w + " bool")
                check(ctl.default is cdef["default"], w + " bool default")
            elif "depends_on" in cdef:
                check(type(vt) is DependentRange, w + " dependent")
                check(vt.ctl_name == cdef["depends_on"], w + " depends_on")
                parent_enum = getattr(cls, ctlmap[cdef["depends_on"]]["enum"])
                want_map = [
                    (parent_enum[reference_enumname(k)], (r["min"], r["max"]))
                    for k, r in cdef["ranges"].items()
                ]
                got_map = [(k, (r.min, r.max)) for k, r in vt.range_map.items()]
                check(got_map == want_map, w + " range table")
                check(
                    all(type(r) is WarnOnlyRange for r in vt.range_map.values()),
                    w + " range table kinds",
                )
                check(type(vt.default) is WarnOnlyRange, w + " fallback kind")
                check(
                    (vt.default.min, vt.default.max) == want_map[0][1],
                    w + " fallback range",
                )
                check(ctl.default == cdef["default"], w + " default")
            else:
                check(False, w + " unknown controller kind in spec")
        # options
        want_opts = []
        for entry in m.get("options") or []:
            want_opts.extend(entry.items())
        check(
            sorted(cls.options) == sorted(k for k, _ in want_opts),
            where + " option names",
        )
        for oname, ospec in want_opts:
            n_opt += 1
            w = f"{where}.{oname}"
            opt = cls.options[oname]
            check(isinstance(opt, Option), w + " type")
            check(getattr(cls, oname) is opt, w + " attr identity")
            check(opt.name == oname, w + " name")
            check(opt.number == (ospec.get("number") or None), w + " number")
            check(
                (opt.byte, opt.bit, opt.size)
                == (ospec["byte"], ospec["bit"], ospec["size"]),
                w + " byte/bit/size",
            )
            if "min" in ospec and "max" in ospec:
                check((opt.min, opt.max) == (ospec["min"], ospec["max"]), w + " bounds")
                check(opt.inverted is False, w + " inverted")
            else:
                check((opt.min, opt.max) == (None, None), w + " no bounds")
                check(opt.inverted is bool(ospec.get("inverted")), w + " inverted")
            check(
                opt.exclusive_of == (ospec.get("exclusive_of") or []),
                w + " exclusive_of",
            )
            if ospec.get("enum"):
                check(
                    opt.default is getattr(cls, ospec["enum"])[ospec["default"]],
                    w + " enum default",
                )
            else:
                check(opt.default == ospec["default"], w + " default")
                check(type(opt.default) is type(ospec["default"]), w + " default type")
        # options chunk number
        if want_opts:
            check(cls.options_chnm == m.get("options_chnm", 0), where + " options_chnm")
    check(n_ctl == 502, f"502 controllers compared (got {n_ctl})")
    check(n_opt == 49, f"49 options compared (got {n_opt})")
    return n_ctl, n_opt


# ---------------------------------------------------------------------------
# Generator harness
# ---------------------------------------------------------------------------
def make_env():
    """Same environment genrv.tools.generate.main() builds."""
    import genrv
    from genrv.tools.generate import enumname
    from jinja2 import Environment, FileSystemLoader, PrefixLoader
    from stringcase import camelcase, pascalcase

    genrv_path = Path(genrv.__file__).parent
    loader_map = {
        n: FileSystemLoader(genrv_path / "codegen" / n) for n in ("python", "ts")
    }
    env = Environment(loader=PrefixLoader(loader_map))
    env.filters.update(
        camelcase=camelcase, enumname=enumname, hex=hex, pascalcase=pascalcase, repr=repr
    )
    return env


def run_generator(spec_dir, dest_dir):
    from genrv.codegen.python.gen import PythonGenerator

    gen = PythonGenerator(spec_base=str(spec_dir), dest_base=str(dest_dir))
    out = io.StringIO()
    with contextlib.redirect_stdout(out), contextlib.redirect_stderr(io.StringIO()):
        result = gen.run(make_env())
    return result, out.getvalue()


def generate_from_text(spec_text):
    """Write spec_text as fileformat.yaml, run the generator, return {file: text}."""
    with tempfile.TemporaryDirectory() as tmp:
        tmp = Path(tmp)
        (tmp / "spec").mkdir()
        (tmp / "spec" / "fileformat.yaml").write_text(spec_text)
        result, stdout = run_generator(tmp / "spec", tmp / "dest")
        base = tmp / "dest" / "modules" / "base"
        files = {}
        if base.exists():
            for f in sorted(os.listdir(base)):
                files[f] = (base / f).read_text()
        return result, stdout, files


def check_real_spec():
    """The real spec must regenerate the checked-in base classes byte for byte."""
    root = Path.cwd()
    base_dir = root / "src" / "python" / "rv" / "modules" / "base"
    with tempfile.TemporaryDirectory() as tmp:
        dest = Path(tmp) / "dest"
        result, stdout = run_generator(root / "specs", dest)
        check(result is None, "run() returns None")
        made = sorted(os.listdir(dest / "modules" / "base"))
        want = sorted(
            f for f in os.listdir(base_dir) if f.endswith(".py") and f != "__init__.py"
        )
        check(made == want and len(made) == 43, "43 generated files, same names")
        for f in made:
            check(
                (dest / "modules" / "base" / f).read_text() == (base_dir / f).read_text(),
                "generated %s identical to checked-in file" % f,
            )
        check(os.listdir(dest) == ["modules"], "nothing else written")


SYNTHETIC_SPEC = r"""
module_types:
  Plain:
    group: Misc
  Kitchen:
    type: Kitchen Sink
    defaultFlags: 0x2000051
    group: Synth
    enums:
      Unit:
        "sec/256": 0
        "ms": 1
        "Hz": 2
        "line/2": 3
        "-12dB": 4
        "2x": 5
        "a.b+c": 6
      Mode:
        "off": 0
        "ON": 1
      Cell:
        empty: 0
        full: 1
    controllers:
      - zero_min: { min: 0, max: 0, default: 0 }
      - neg: { min: -128, max: 128, default: -3 }
      - compact_one: { min: -128, max: 128, default: 0, compact: true }
      - raw: { min: -128, max: 128, default: 0, no_offset: true }
      - compact_false: { min: 1, max: 2, default: 1, compact: false }
      - in: { min: 0, max: 9, default: 4 }
      - unit: { enum: Unit, default: "sec/256" }
      - unit2: { enum: Unit, default: "-12dB" }
      - mode: { enum: Mode, default: "ON" }
      - flag: { bool: true, default: false }
      - flag2: { bool: true, default: true, attached: false }
      - delay:
          depends_on: unit
          default: 7
          ranges:
            "Hz": { min: 0, max: 8192 }
            "sec/256": { min: 0, max: 256 }
            "2x": { min: -1, max: 0 }
      - delay2:
          depends_on: unit2
          default: 0
          attached: false
          ranges:
            "a.b+c": { min: 5, max: 6 }
      - hidden: { min: 0, max: 255, default: 0, attached: false }
      - shown: { min: 0, max: 255, default: 255, attached: true }
      - min_only: { min: 3, default: 1, bool: true }
    options:
      - plain: { byte: 0, bit: 0, size: 1, default: false }
      - numbered: { number: 0x7f, byte: 1, bit: 0, size: 1, default: true }
      - number_zero: { number: 0, byte: 2, bit: 3, size: 1, default: false }
      - bounded: { byte: 3, bit: 0, size: 8, min: 0, max: 96, default: 0 }
      - bounded_inverted: { byte: 4, bit: 0, size: 8, min: 1, max: 2, default: 1, inverted: true }
      - inverted: { byte: 5, bit: 1, size: 1, default: true, inverted: true }
      - not_inverted: { byte: 5, bit: 2, size: 1, default: true, inverted: false }
      - exclusive: { byte: 6, bit: 0, size: 1, default: false, exclusive_of: [plain, numbered] }
      - enumerated: { byte: 7, bit: 0, size: 8, enum: Mode, default: "off" }
      - opt_min_only: { byte: 8, bit: 0, size: 8, min: 0, default: 2 }
    options_chnm: 3
    chunks:
      - name: words
        parent_type: Array
        element_type: unsigned short
        chnm: 0
        length: 4
        min: 0
        max: 65535
        default: [1, 2, 3, 4]
      - name: bytes
        parent_type: Array
        element_type: unsigned byte
        chnm: 1
        default: [9, 8, 7]
      - name: other
        parent_type: Array
        element_type: float32
        chnm: 2
        max: 5
        default: []
      - name: cells
        parent_type: Array
        element_type: unsigned byte
        chnm: 3
        length: 2
        enum: Cell
        default: [empty, full]
      - name: not_an_array
        parent_type: Struct
        chnm: 4
  OptionsOnly:
    group: Misc
    options:
      - only: { byte: 0, bit: 0, size: 1, default: false }
  TwoEntries:
    group: Effect
    enums:
      E:
        a: 0
    controllers:
      - first: { min: 0, max: 1, default: 0 }
        second: { min: 0, max: 2, default: 0 }
      - third: { enum: E, default: a }
      - first: { min: 0, max: 3, default: 3 }
"""

EXPECTED_SYNTHETIC = {
    'kitchen.py': (
        '# -- DO NOT EDIT THIS FILE DIRECTLY --\n'
        '"""\n'
        'Base class for Kitchen\n'
        'This file was auto-generated by genrv.\n'
        '"""\n'
        '\n'
        'from enum import IntEnum\n'
        '\n'
        'from rv.chunks import ArrayChunk\n'
        'from rv.controller import (CompactRange, Controller, DependentRange,\n'
        '                           NoOffsetRange, WarnOnlyRange)\n'
        'from rv.option import Option\n'
        '\n'
        '\n'
        'class BaseKitchen:\n'
        '    name = "Kitchen"\n'
        '    mtype = "Kitchen Sink"\n'
        '    mgroup = "Synth"\n'
        '    flags = default_flags = 0x2000051\n'
        '\n'
        '    class Unit(IntEnum):\n'
        '        sec_div_256 = 0\n'
        '        ms = 1\n'
        '        hz = 2\n'
        '        line_div_2 = 3\n'
        '        neg_12db = 4\n'
        '        _2x = 5\n'
        '        a_b_plus_c = 6\n'
        '\n'
        '    class Mode(IntEnum):\n'
        '        off = 0\n'
        '        on = 1\n'
        '\n'
        '    class Cell(IntEnum):\n'
        '        empty = 0\n'
        '        full = 1\n'
        '\n'
        '    zero_min = Controller((0, 0), 0)\n'
        '    neg = Controller((-128, 128), -3)\n'
        '    compact_one = Controller(CompactRange(-128, 128), 0)\n'
        '    raw = Controller(NoOffsetRange(-128, 128), 0)\n'
        '    compact_false = Controller((1, 2), 1)\n'
        '    in_ = Controller((0, 9), 4)\n'
        '    unit = Controller(Unit, Unit.sec_div_256)\n'
        '    unit2 = Controller(Unit, Unit.neg_12db)\n'
        '    mode = Controller(Mode, Mode.on)\n'
        '    flag = Controller(bool, False)\n'
        '    flag2 = Controller(bool, True, attached=False)\n'
        '    delay = Controller(\n'
        '        DependentRange(\n'
        '            "unit",\n'
        '            {\n'
        '                Unit.hz: WarnOnlyRange(0, 8192),\n'
        '                Unit.sec_div_256: WarnOnlyRange(0, 256),\n'
        '                Unit._2x: WarnOnlyRange(-1, 0),\n'
        '            },\n'
        '            WarnOnlyRange(0, 8192),\n'
        '        ),\n'
        '        7,\n'
        '    )\n'
        '    delay2 = Controller(\n'
        '        DependentRange(\n'
        '            "unit2",\n'
        '            {\n'
        '                Unit.a_b_plus_c: WarnOnlyRange(5, 6),\n'
        '            },\n'
        '            WarnOnlyRange(5, 6),\n'
        '        ),\n'
        '        0,\n'
        '        attached=False,\n'
        '    )\n'
        '    hidden = Controller((0, 255), 0, attached=False)\n'
        '    shown = Controller((0, 255), 255)\n'
        '    min_only = Controller(bool, 1)\n'
        '    plain = Option(\n'
        '        name="plain",\n'
        '        byte=0,\n'
        '        bit=0,\n'
        '        size=1,\n'
        '        default=False,\n'
        '    )\n'
        '    numbered = Option(\n'
        '        name="numbered",\n'
        '        number=127,\n'
        '        byte=1,\n'
        '        bit=0,\n'
        '        size=1,\n'
        '        default=True,\n'
        '    )\n'
        '    number_zero = Option(\n'
        '        name="number_zero",\n'
        '        byte=2,\n'
        '        bit=3,\n'
        '        size=1,\n'
        '        default=False,\n'
        '    )\n'
        '    bounded = Option(\n'
        '        name="bounded",\n'
        '        byte=3,\n'
        '        bit=0,\n'
        '        size=8,\n'
        '        min=0,\n'
        '        max=96,\n'
        '        default=0,\n'
        '    )\n'
        '    bounded_inverted = Option(\n'
        '        name="bounded_inverted",\n'
        '        byte=4,\n'
        '        bit=0,\n'
        '        size=8,\n'
        '        min=1,\n'
        '        max=2,\n'
        '        default=1,\n'
        '    )\n'
        '    inverted = Option(\n'
        '        name="inverted",\n'
        '        byte=5,\n'
        '        bit=1,\n'
        '        size=1,\n'
        '        inverted=True,\n'
        '        default=True,\n'
        '    )\n'
        '    not_inverted = Option(\n'
        '        name="not_inverted",\n'
        '        byte=5,\n'
        '        bit=2,\n'
        '        size=1,\n'
        '        default=True,\n'
        '    )\n'
        '    exclusive = Option(\n'
        '        name="exclusive",\n'
        '        byte=6,\n'
        '        bit=0,\n'
        '        size=1,\n'
        '        exclusive_of=["plain", "numbered"],\n'
        '        default=False,\n'
        '    )\n'
        '    enumerated = Option(\n'
        '        name="enumerated",\n'
        '        byte=7,\n'
        '        bit=0,\n'
        '        size=8,\n'
        '        default=Mode.off,\n'
        '    )\n'
        '    opt_min_only = Option(\n'
        '        name="opt_min_only",\n'
        '        byte=8,\n'
        '        bit=0,\n'
        '        size=8,\n'
        '        default=2,\n'
        '    )\n'
        '\n'
        '    class words_chunk(ArrayChunk):\n'
        '        chnm = 0\n'
        '        length = 4\n'
        '        type = "H"\n'
        '        element_size = 2\n'
        '        min_value = 0\n'
        '        max_value = 65535\n'
        '        default = [1, 2, 3, 4]\n'
        '\n'
        '    class bytes_chunk(ArrayChunk):\n'
        '        chnm = 1\n'
        '        length = 3\n'
        '        type = "B"\n'
        '        element_size = 1\n'
        '        default = [9, 8, 7]\n'
        '\n'
        '    class other_chunk(ArrayChunk):\n'
        '        chnm = 2\n'
        '        length = 0\n'
        '        type = None\n'
        '        element_size = None\n'
        '        max_value = 5\n'
        '        default = []\n'
        '\n'
        '    class cells_chunk(ArrayChunk):\n'
        '        chnm = 3\n'
        '        length = 2\n'
        '        type = "B"\n'
        '        element_size = 1\n'
        '\n'
        '        @property\n'
        '        def default(self):\n'
        '            return [\n'
        '                BaseKitchen.Cell.empty,\n'
        '                BaseKitchen.Cell.full,\n'
        '            ]\n'
        '\n'
        '        @property\n'
        '        def encoded_values(self):\n'
        '            return [x.value for x in self.values]\n'
        '\n'
        '        @property\n'
        '        def python_type(self):\n'
        '            return BaseKitchen.Cell\n'
    ),
    'optionsonly.py': (
        '# -- DO NOT EDIT THIS FILE DIRECTLY --\n'
        '"""\n'
        'Base class for OptionsOnly\n'
        'This file was auto-generated by genrv.\n'
        '"""\n'
        '\n'
        'from rv.option import Option\n'
        '\n'
        '\n'
        'class BaseOptionsOnly:\n'
        '    name = "OptionsOnly"\n'
        '    mtype = "OptionsOnly"\n'
        '    mgroup = "Misc"\n'
        '    flags = default_flags = 0x0\n'
        '    only = Option(\n'
        '        name="only",\n'
        '        byte=0,\n'
        '        bit=0,\n'
        '        size=1,\n'
        '        default=False,\n'
        '    )\n'
    ),
    'plain.py': (
        '# -- DO NOT EDIT THIS FILE DIRECTLY --\n'
        '"""\n'
        'Base class for Plain\n'
        'This file was auto-generated by genrv.\n'
        '"""\n'
        '\n'
        '\n'
        'class BasePlain:\n'
        '    name = "Plain"\n'
        '    mtype = "Plain"\n'
        '    mgroup = "Misc"\n'
        '    flags = default_flags = 0x0\n'
    ),
    'twoentries.py': (
        '# -- DO NOT EDIT THIS FILE DIRECTLY --\n'
        '"""\n'
        'Base class for TwoEntries\n'
        'This file was auto-generated by genrv.\n'
        '"""\n'
        '\n'
        'from enum import IntEnum\n'
        '\n'
        'from rv.controller import Controller\n'
        '\n'
        '\n'
        'class BaseTwoEntries:\n'
        '    name = "TwoEntries"\n'
        '    mtype = "TwoEntries"\n'
        '    mgroup = "Effect"\n'
        '    flags = default_flags = 0x0\n'
        '\n'
        '    class E(IntEnum):\n'
        '        a = 0\n'
        '\n'
        '    first = Controller((0, 1), 0)\n'
        '    second = Controller((0, 2), 0)\n'
        '    third = Controller(E, E.a)\n'
        '    first = Controller((0, 3), 3)\n'
    ),
}


def check_synthetic_spec():
    result, stdout, files = generate_from_text(SYNTHETIC_SPEC)
    check(result is None, "synthetic: run() returns None")
    check(
        sorted(files) == ["kitchen.py", "optionsonly.py", "plain.py", "twoentries.py"],
        "synthetic: file names are lower-cased type names",
    )
    for name, want in EXPECTED_SYNTHETIC.items():
        got = files.get(name)
        check(got == want, "synthetic: %s differs from recorded output" % name)
        if got != want and got is not None:
            import difflib

            sys.stdout.writelines(
                difflib.unified_diff(
                    want.splitlines(True), got.splitlines(True), "recorded", "generated"
                )
            )
    # the generated code must be importable and mean what the spec says
    ns = {}
    exec(compile(files["kitchen.py"], "kitchen.py", "exec"), ns)
    K = ns["BaseKitchen"]
    from rv.controller import (
        CompactRange,
        Controller,
        DependentRange,
        NoOffsetRange,
        Range,
        WarnOnlyRange,
    )
    from rv.option import Option

    check((K.name, K.mtype, K.mgroup) == ("Kitchen", "Kitchen Sink", "Synth"), "K ids")
    check(K.flags == K.default_flags == 0x2000051, "K flags")
    ctls = [(k, v) for k, v in vars(K).items() if isinstance(v, Controller)]
    check(
        [k for k, _ in ctls]
        == "zero_min neg compact_one raw compact_false in_ unit unit2 mode flag flag2 "
        "delay delay2 hidden shown min_only".split(),
        "K controller definition order",
    )
    orders = [v._order for _, v in ctls]
    check(orders == sorted(orders) and len(set(orders)) == len(orders), "K _order")
    c = dict(ctls)
    check(type(c["zero_min"].value_type) is Range, "K zero_min kind")
    check((c["zero_min"].value_type.min, c["zero_min"].value_type.max) == (0, 0), "K min: 0 kept")
    check(c["zero_min"].default == 0, "K default 0 kept")
    check(type(c["compact_one"].value_type) is CompactRange, "K compact")
    check(type(c["raw"].value_type) is NoOffsetRange, "K no_offset")
    check(type(c["compact_false"].value_type) is Range, "K compact: false")
    check(c["neg"].default == -3, "K negative default")
    check(c["unit"].default is K.Unit.sec_div_256, "K enum default mangled")
    check(c["unit2"].default is K.Unit.neg_12db, "K enum default mangled 2")
    check(c["mode"].default is K.Mode.on, "K enum default lowered")
    check(c["flag"].value_type is bool and c["flag"].default is False, "K bool")
    check(c["flag2"]._attached is False and c["flag"]._attached is True, "K attached")
    check(c["hidden"]._attached is False and c["shown"]._attached is True, "K attached 2")
    d = c["delay"].value_type
    check(type(d) is DependentRange and d.ctl_name == "unit", "K dependent")
    check(
        [(k, type(r), r.min, r.max) for k, r in d.range_map.items()]
        == [
            (K.Unit.hz, WarnOnlyRange, 0, 8192),
            (K.Unit.sec_div_256, WarnOnlyRange, 0, 256),
            (K.Unit._2x, WarnOnlyRange, -1, 0),
        ],
        "K range table",
    )
    check((d.default.min, d.default.max) == (0, 8192), "K fallback = first range")
    check(c["delay"].default == 7, "K dependent default")
    d2 = c["delay2"].value_type
    check(list(d2.range_map) == [K.Unit.a_b_plus_c] and d2.ctl_name == "unit2", "K dep 2")
    check(c["delay2"]._attached is False, "K dep attached")
    check(c["min_only"].value_type is bool and c["min_only"].default == 1, "K min only")
    check(
        [(m.name, m.value) for m in K.Unit]
        == [
            ("sec_div_256", 0),
            ("ms", 1),
            ("hz", 2),
            ("line_div_2", 3),
            ("neg_12db", 4),
            ("_2x", 5),
            ("a_b_plus_c", 6),
        ],
        "K enum members",
    )
    opts = {k: v for k, v in vars(K).items() if isinstance(v, Option)}
    check(
        list(opts)
        == "plain numbered number_zero bounded bounded_inverted inverted not_inverted "
        "exclusive enumerated opt_min_only".split(),
        "K option order",
    )
    o = opts
    check(o["plain"] == Option("plain", 0, 0, 1, False), "K plain option")
    check(o["numbered"].number == 0x7F and o["numbered"].default is True, "K numbered")
    check(o["number_zero"].number is None, "K number 0 is dropped (as before)")
    check((o["bounded"].min, o["bounded"].max, o["bounded"].size) == (0, 96, 8), "K bounded")
    check(o["bounded_inverted"].inverted is False, "K bounds win over inverted")
    check(o["inverted"].inverted is True and o["not_inverted"].inverted is False, "K inv")
    check(o["exclusive"].exclusive_of == ["plain", "numbered"], "K exclusive_of")
    check(o["plain"].exclusive_of == [], "K exclusive_of default")
    check(o["enumerated"].default is K.Mode.off, "K enum option default")
    check((o["opt_min_only"].min, o["opt_min_only"].max) == (None, None), "K min without max")
    check((o["inverted"].byte, o["inverted"].bit) == (5, 1), "K byte/bit")
    w = K.words_chunk
    check((w.chnm, w.length, w.type, w.element_size) == (0, 4, "H", 2), "K words chunk")
    check((w.min_value, w.max_value, w.default) == (0, 65535, [1, 2, 3, 4]), "K words 2")
    b = K.bytes_chunk
    check((b.chnm, b.length, b.type, b.element_size) == (1, 3, "B", 1), "K bytes chunk")
    check(b.default == [9, 8, 7], "K bytes default")
    ot = K.other_chunk
    check((ot.length, ot.type, ot.element_size, ot.max_value) == (0, None, None, 5), "K other")
    check("min_value" not in vars(ot) and "min_value" not in vars(b), "K no min_value")
    ce = K.cells_chunk
    check((ce.chnm, ce.length, ce.type, ce.element_size) == (3, 2, "B", 1), "K cells")
    check(isinstance(vars(ce)["default"], property), "K enum chunk default property")
    check(not hasattr(K, "not_an_array_chunk"), "K non-array chunk skipped")

    ns = {}
    exec(compile(files["twoentries.py"], "twoentries.py", "exec"), ns)
    T = ns["BaseTwoEntries"]
    check(T.first.value_type.max == 3 and T.first.default == 3, "T later duplicate wins")
    names = [k for k, v in vars(T).items() if isinstance(v, Controller)]
    check(names == ["first", "second", "third"], "T names")
    check(T.second._order < T.third._order < T.first._order, "T creation order")
    ns = {}
    exec(compile(files["plain.py"], "plain.py", "exec"), ns)
    P = ns["BasePlain"]
    check((P.name, P.mtype, P.mgroup, P.flags) == ("Plain", "Plain", "Misc", 0), "P")
    check("import" not in files["plain.py"], "Plain needs no imports")


def outcome_of_generation(spec_text):
    try:
        _, stdout, files = generate_from_text(spec_text)
        return ("ok", stdout, files)
    except Exception as e:  # noqa
        return ("err", type(e).__name__, str(e))


def check_error_paths():
    # 1. template output that is not valid Python: content printed, error re-raised
    bad = """
module_types:
  Broken:
    group: Misc
    controllers:
      - class: { min: 0, max: 1, default: 0 }
"""
    from genrv.codegen.python.gen import PythonGenerator

    with tempfile.TemporaryDirectory() as tmp:
        tmp = Path(tmp)
        (tmp / "fileformat.yaml").write_text(bad)
        gen = PythonGenerator(spec_base=str(tmp), dest_base=str(tmp / "dest"))
        out = io.StringIO()
        err = None
        with contextlib.redirect_stdout(out):
            try:
                gen.run(make_env())
            except Exception as e:  # noqa
                err = e
        import black

        check(isinstance(err, black.InvalidInput), "invalid python -> black.InvalidInput")
        printed = out.getvalue()
        check("class = Controller(" in printed, "offending source printed")
        check("class BaseBroken:" in printed, "whole rendered source printed")
        check(printed.endswith("\n"), "printed with print()")
        check(not (tmp / "dest").exists(), "nothing written on failure")

    # 2. controllers: null  -> TypeError (as before)
    r = outcome_of_generation("module_types:\n  X:\n    group: Misc\n    controllers:\n")
    check(r[:2] == ("err", "TypeError"), "controllers: null -> TypeError %r" % (r,))
    # 3. options: null -> TypeError (as before)
    r = outcome_of_generation("module_types:\n  X:\n    group: Misc\n    options:\n")
    check(r[:2] == ("err", "TypeError"), "options: null -> TypeError %r" % (r,))
    # 4. depends_on naming an unknown controller
    r = outcome_of_generation(
        "module_types:\n  X:\n    group: Misc\n    controllers:\n"
        "      - a: { depends_on: nope, default: 0, ranges: { x: {min: 0, max: 1} } }\n"
    )
    check(r[0] == "err" and r[1] == "UndefinedError", "unknown depends_on %r" % (r[:2],))
    # 5. no module types at all: nothing happens
    r = outcome_of_generation("module_types: {}\n")
    check(r == ("ok", "", {}), "empty module_types %r" % (r,))
    # 6. missing module_types key
    r = outcome_of_generation("file_types: {}\n")
    check(r[:2] == ("err", "KeyError"), "missing module_types %r" % (r[:2],))
    # 7. empty ranges table still renders (no fallback range emitted)
    r = outcome_of_generation(
        "module_types:\n  X:\n    group: Misc\n    enums: { E: { a: 0 } }\n    controllers:\n"
        "      - e: { enum: E, default: a }\n"
        "      - a: { depends_on: e, default: 0, ranges: {} }\n"
    )
    check(r[0] == "ok", "empty ranges renders %r" % (r[:2],))
    if r[0] == "ok":
        digest = hashlib.sha256(r[2]["x.py"].encode()).hexdigest()
        check(digest == EXPECTED_EMPTY_RANGES_SHA256, "empty ranges output " + digest)


EXPECTED_EMPTY_RANGES_SHA256 = "47eef5bf39cc22207d511419e4a43932fee8e740360e3bf9ca80630105754339"


def main():
    check_real_spec()
    check_synthetic_spec()
    check_error_paths()
    compare_registry_with_spec()
    if FAILURES:
        print("FAIL (%d of %d checks)" % (len(FAILURES), CHECKS))
        for f in FAILURES[:40]:
            print("  -", f)
        return 1
    print("PASS (%d checks)" % CHECKS)
    return 0


if __name__ == "__main__":
    sys.exit(main())
