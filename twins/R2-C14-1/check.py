"""Behaviour check for Project.attach_module / new_module (property C14).

Run from the repository root:
    PYTHONPATH=<root>/src/python python check.py
"""
import random
import sys
from io import BytesIO

from rv.api import Project, m, read_sunvox_file
from rv.errors import ModuleOwnershipError
from rv.modules.module import Module
from rv.modules.output import Output

FAILS = []


def check(cond, msg):
    if not cond:
        FAILS.append(msg)


def coherent(project, label):
    mods = project.modules
    check(mods[0] is project.output, f"{label}: slot 0 is not project.output")
    check(isinstance(mods[0], Output), f"{label}: slot 0 is not an Output")
    for pos, mod in enumerate(mods):
        if mod is None:
            continue
        check(mod.index == pos, f"{label}: index {mod.index} != position {pos}")
        check(mod.parent is project, f"{label}: parent mismatch at {pos}")
        check(project.module_index(mod) == pos, f"{label}: module_index at {pos}")
    live = [x for x in mods if x is not None]
    check(len({id(x) for x in live}) == len(live), f"{label}: duplicate module")


def roundtrip(project):
    f = BytesIO()
    project.write_to(f)
    f.seek(0)
    return read_sunvox_file(f)


def snapshot(project):
    return [(id(x), None if x is None else (x.index, id(x.parent))) for x in project.modules]


# --- fresh project -------------------------------------------------------
p = Project()
check(len(p.modules) == 1 and p.output.index == 0, "fresh: output at 0")
check(p.output.parent is p, "fresh: output parent")
coherent(p, "fresh")

# new_module returns the attached instance, forwards args/kwargs
amp = p.new_module(m.Amplifier, volume=100, name="amp1")
check(isinstance(amp, m.Amplifier) and amp.volume == 100, "new_module kwargs")
check(amp.name == "amp1" and amp.index == 1 and amp.parent is p, "new_module attach")
check(p.modules == [p.output, amp], "new_module list")
gen = p.new_module(m.Generator)
check(gen.index == 2 and p.modules[2] is gen, "new_module appends")

# attach returns the very same object
rev = m.Reverb()
check(rev.index is None and rev.parent is None, "unattached module state")
check(p.attach_module(rev) is rev and rev.index == 3, "attach returns module")

# attaching twice is a no-op (with and without loading flag)
before = snapshot(p)
check(p.attach_module(rev) is rev, "re-attach returns module")
check(p.attach_module(rev, loading=True) is rev, "re-attach loading returns module")
check(p.attach_module(p.output) is p.output, "re-attach output")
check(snapshot(p) == before, "re-attach changed state")

# None is always appended, and returned as None
check(p.attach_module(None) is None, "attach None returns None")
check(p.modules[-1] is None and len(p.modules) == 5, "attach None appends")
check(p.attach_module(None, loading=True) is None, "attach None loading")
check(p.modules[-2:] == [None, None] and len(p.modules) == 6, "two Nones")
coherent(p, "with trailing gaps")

# gap fill: lowest gap first, nobody else moves
others = [x for x in p.modules if x is not None]
f1 = p.new_module(m.Filter)
check(f1.index == 4 and p.modules[4] is f1 and len(p.modules) == 6, "fill gap 4")
f2 = m.Filter()
p.attach_module(f2)
check(f2.index == 5 and p.modules[5] is f2 and len(p.modules) == 6, "fill gap 5")
f3 = p.new_module(m.Filter)
check(f3.index == 6 and len(p.modules) == 7, "append when no gap")
check(all(p.modules[x.index] is x for x in others), "others moved")
coherent(p, "after fills")

# loading=True never fills gaps
p.modules[2] = None
p.modules[4] = None
l1 = m.Delay()
p.attach_module(l1, loading=True)
check(l1.index == 7 and p.modules[2] is None and p.modules[4] is None, "loading appends")
l2 = m.Delay()
p.attach_module(l2, loading=False)
check(l2.index == 2 and p.modules[4] is None, "fills lowest gap")
l3 = m.Delay()
p.attach_module(l3)
check(l3.index == 4, "fills next gap")
coherent(p, "after loading attaches")

# base Module refused, state untouched
before = snapshot(p)
base = Module()
try:
    p.attach_module(base)
    check(False, "base Module accepted")
except RuntimeError as e:
    check(type(e) is RuntimeError, "base Module error type")
    check(str(e) == "Cannot attach base Module instance.", "base Module message")
check(snapshot(p) == before and base.parent is None and base.index is None, "base refused state")
try:
    p.new_module(Module)
    check(False, "new_module(Module) accepted")
except RuntimeError:
    pass
check(snapshot(p) == before, "new_module(Module) state")

# foreign module refused, both projects untouched (even with gaps / loading)
q = Project()
q.attach_module(None)
qm = m.Echo()
q.attach_module(qm)
check(qm.index == 1 and qm.parent is q and len(q.modules) == 2, "q gap fill")
p.modules[3] = None
bp, bq = snapshot(p), snapshot(q)
for kw in ({}, {"loading": True}, {"loading": False}):
    for victim in (qm, q.output):
        try:
            p.attach_module(victim, **kw)
            check(False, "foreign module accepted")
        except ModuleOwnershipError as e:
            check(str(e) == "Module is already attached to another project.", "ownership msg")
check(snapshot(p) == bp and snapshot(q) == bq, "refusal changed state")
check(qm.parent is q and qm.index == 1, "foreign module mutated")
check(p.output is p.modules[0], "output replaced by refusal")

# module with parent preset to this project but absent from the list is placed
pre = m.Lfo(parent=p, index=99)
p.attach_module(pre)
check(pre.index == 3 and p.modules[3] is pre and pre.parent is p, "preset parent placed")

# Output only becomes project.output at position 0
extra_out = Output()
old_out = p.output
p.attach_module(extra_out)
check(p.output is old_out and extra_out.index == len(p.modules) - 1, "second Output appended")
r = Project()
r.modules[0] = None
new_out = Output()
r.attach_module(new_out)
check(r.output is new_out and new_out.index == 0 and r.modules == [new_out], "Output in slot 0")
r2 = Project()
r2.modules[0] = None
g = m.Generator()
old = r2.output
r2.attach_module(g)
check(g.index == 0 and r2.output is old, "non-Output in slot 0 leaves output attr")
r3 = Project()
r3.modules[0] = None
o3 = Output()
old3 = r3.output
r3.attach_module(o3, loading=True)
check(o3.index == 1 and r3.output is old3 and r3.modules == [None, o3], "loading Output appended")

# --- loaded project with a gap -------------------------------------------
lp = read_sunvox_file("tests/files/issue54/test1.sunvox")
check(lp.modules[2] is None and len(lp.modules) == 4, "issue54 layout")
coherent(lp, "issue54 loaded")
n1 = lp.new_module(m.Amplifier)
check(n1.index == 2 and len(lp.modules) == 4, "issue54 gap filled")
n2 = lp.new_module(m.Amplifier)
check(n2.index == 4 and len(lp.modules) == 5, "issue54 append")
coherent(lp, "issue54 after attach")
lp2 = roundtrip(lp)
check([type(x) for x in lp2.modules] == [type(x) for x in lp.modules], "issue54 roundtrip types")
coherent(lp2, "issue54 roundtrip")
try:
    lp2.attach_module(n1)
    check(False, "cross-project after roundtrip accepted")
except ModuleOwnershipError:
    pass

# --- randomised histories ------------------------------------------------
CLASSES = [m.Amplifier, m.Generator, m.Filter, m.Reverb, m.Delay, m.Echo, m.Lfo]
rng = random.Random(1414)
for trial in range(60):
    projs = [Project(), Project()]
    if trial % 3 == 0:
        projs[0] = read_sunvox_file("tests/files/issue54/test1.sunvox")
    for step in range(40):
        i = rng.randrange(2)
        pr, other = projs[i], projs[1 - i]
        op = rng.randrange(8)
        label = f"trial {trial} step {step} op {op}"
        if op == 0:
            gaps = [k for k, x in enumerate(pr.modules) if x is None]
            expect = gaps[0] if gaps else len(pr.modules)
            old = list(pr.modules)
            mod = pr.new_module(rng.choice(CLASSES))
            check(mod.index == expect, f"{label}: expected slot {expect}, got {mod.index}")
            old2 = old + [None] if expect == len(old) else old
            check(
                all(a is b for k, (a, b) in enumerate(zip(old2, pr.modules)) if k != expect),
                f"{label}: other modules moved",
            )
        elif op == 1:
            old_len = len(pr.modules)
            mod = rng.choice(CLASSES)()
            pr.attach_module(mod, loading=True)
            check(mod.index == old_len and len(pr.modules) == old_len + 1, f"{label}: loading")
        elif op == 2:
            pr.attach_module(None, loading=rng.random() < 0.5)
            check(pr.modules[-1] is None, f"{label}: None appended")
        elif op == 3:
            # punch a hole (simulates loaded projects with arbitrary gaps)
            k = rng.randrange(1, len(pr.modules) + 1)
            linked = {
                j for x in pr.modules if x is not None for j in x.in_links if j >= 0
            }
            if (
                k < len(pr.modules)
                and pr.modules[k] is not None
                and k not in linked
                and not pr.modules[k].in_links
            ):
                victim = pr.modules[k]
                pr.modules[k] = None
                victim.parent = None
                victim.index = None
        elif op == 4:
            cands = [x for x in other.modules if x is not None]
            victim = rng.choice(cands)
            s1, s2 = snapshot(pr), snapshot(other)
            try:
                pr.attach_module(victim, loading=rng.random() < 0.5)
                check(False, f"{label}: foreign accepted")
            except ModuleOwnershipError:
                pass
            check(snapshot(pr) == s1 and snapshot(other) == s2, f"{label}: refusal state")
        elif op == 5:
            cands = [x for x in pr.modules if x is not None]
            s1 = snapshot(pr)
            again = rng.choice(cands)
            check(pr.attach_module(again) is again, f"{label}: reattach result")
            check(snapshot(pr) == s1, f"{label}: reattach state")
        elif op == 6:
            if all(x is not None for x in pr.modules[-1:]):
                projs[i] = roundtrip(pr)
                check(
                    [type(x) for x in projs[i].modules] == [type(x) for x in pr.modules],
                    f"{label}: roundtrip layout",
                )
        else:
            pr += rng.choice(CLASSES)()
        coherent(projs[0], label + " p0")
        coherent(projs[1], label + " p1")

if FAILS:
    print("FAIL")
    for f in FAILS[:30]:
        print("  -", f)
    sys.exit(1)
print("PASS")
