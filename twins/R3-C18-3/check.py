"""Behaviour check for C18 refactoring 3 (rv/modules/sampler.py).

Run from the repository root:
    PYTHONPATH=src/python python check.py
"""
import glob
import hashlib
import io
import logging
import os
import struct
import sys
from pathlib import Path

import rv.errors as errors
import rv.modules.metamodule as mm_mod
import rv.modules.sampler as smp_mod
import rv.readers.reader as reader_mod
from rv.api import read_sunvox_file

FIXTURE_DIR = os.path.join("tests", "files")
if not os.path.isdir(FIXTURE_DIR):
    sys.exit("run from the repository root (tests/files not found)")

FIXTURES = sorted(glob.glob(os.path.join(FIXTURE_DIR, "**", "*.sun*"), recursive=True))
assert len(FIXTURES) >= 50, FIXTURES
NESTED_FIXTURES = [
    p for p in FIXTURES if "metamodule" in p or os.path.basename(p) == "sampler.sunsynth"
]
assert len(NESTED_FIXTURES) >= 5, NESTED_FIXTURES

REAL_PATH_OPEN = Path.open
REAL_BYTESIO = io.BytesIO
CHECKS = 0

logging.disable(logging.CRITICAL)


def ok(cond, *msg):
    global CHECKS
    CHECKS += 1
    if not cond:
        print("FAIL:", *msg)
        sys.exit(1)


class Injected(OSError):
    pass


class State:
    def __init__(self):
        self.reset()

    def reset(self, fail_at=None, fail_at_offset=None, nested_limit=None):
        self.reads = 0
        self.fail_at = fail_at
        self.fail_at_offset = fail_at_offset
        self.nested_limit = nested_limit
        self.flags_seen = set()
        self.nested_made = 0
        self.opened = []

    def on_read(self, f, top_level):
        self.flags_seen.add(errors.RAISE_CONTROLLER_VALUE_ERRORS)
        index = self.reads
        self.reads += 1
        if self.fail_at is not None and index == self.fail_at:
            raise Injected("injected at read {}".format(index))
        if top_level and self.fail_at_offset is not None:
            if f.tell() == self.fail_at_offset:
                raise Injected("injected at offset {}".format(self.fail_at_offset))


STATE = State()
FAILED = object()


class NestedIO(REAL_BYTESIO):
    """Stands in for BytesIO inside the module classes, to watch nested loads."""

    def __init__(self, *args):
        if args and STATE.nested_limit is not None:
            args = (args[0][: STATE.nested_limit],) + args[1:]
        if args:
            STATE.nested_made += 1
        super().__init__(*args)

    def read(self, *args):
        STATE.on_read(self, False)
        return super().read(*args)


class TopIO(REAL_BYTESIO):
    def read(self, *args):
        STATE.on_read(self, True)
        return super().read(*args)


class FileProxy:
    """Wraps whatever Path.open returned; the library only sees this object."""

    def __init__(self, real):
        self._real = real
        self.close_calls = 0

    @property
    def closed(self):
        return self._real.closed

    def read(self, *args):
        STATE.on_read(self._real, True)
        return self._real.read(*args)

    def close(self):
        self.close_calls += 1
        return self._real.close()

    def __getattr__(self, name):
        return getattr(self._real, name)


VIRTUAL_FILES = {}


def patched_open(self, *args, **kwargs):
    key = str(self)
    if key in VIRTUAL_FILES:
        real = REAL_BYTESIO(VIRTUAL_FILES[key])
    else:
        real = REAL_PATH_OPEN(self, *args, **kwargs)
    proxy = FileProxy(real)
    STATE.opened.append(proxy)
    return proxy


def describe(obj):
    if obj is None:
        return "ok:None"
    try:
        data = obj.read()
    except Exception as e:
        return "ok:{}:unwritable:{}".format(type(obj).__name__, type(e).__name__)
    return "ok:{}:{}".format(type(obj).__name__, hashlib.sha1(data).hexdigest()[:12])


def run_load(source, initial, expect_opened=None, **plan):
    """Load once under observation; returns an outcome string."""
    STATE.reset(**plan)
    errors.RAISE_CONTROLLER_VALUE_ERRORS = initial
    Path.open = patched_open
    mm_mod.BytesIO = NestedIO
    smp_mod.BytesIO = NestedIO
    try:
        outcome = None
        try:
            obj = read_sunvox_file(source)
        except BaseException as e:  # noqa
            outcome = "exc:{}".format(type(e).__name__)
            if isinstance(e, Injected):
                outcome += ":" + str(e)
            obj = FAILED
        after = errors.RAISE_CONTROLLER_VALUE_ERRORS
        flags_seen = set(STATE.flags_seen)
        opened = list(STATE.opened)
        nested = STATE.nested_made
        reads = STATE.reads
    finally:
        Path.open = REAL_PATH_OPEN
        mm_mod.BytesIO = REAL_BYTESIO
        smp_mod.BytesIO = REAL_BYTESIO
        errors.RAISE_CONTROLLER_VALUE_ERRORS = True
    ok(after is initial, "flag not restored", source, initial, plan, after)
    ok(
        flags_seen <= {errors.RAISE_RANGE_ERRORS_ON_READ},
        "flag while loading",
        source,
        flags_seen,
    )
    if expect_opened is not None:
        ok(len(opened) == expect_opened, "opened count", source, len(opened))
    for proxy in opened:
        ok(proxy.closed, "file left open", source, initial, plan)
        ok(proxy.close_calls == 1, "close calls", source, proxy.close_calls)
    if obj is not FAILED:
        outcome = describe(obj)
    return outcome, (nested, reads)


def iff_boundaries(data):
    """Offsets at which a top-level chunk starts (plus the end of data)."""
    offsets = []
    pos = 0
    while pos + 8 <= len(data):
        offsets.append(pos)
        (size,) = struct.unpack("<I", data[pos + 4 : pos + 8])
        pos += 8 + size
    offsets.append(len(data))
    return sorted(set(o for o in offsets if o <= len(data)))


def sample_indices(n, limit):
    if n <= limit:
        return list(range(n))
    head = list(range(limit // 3))
    tail = list(range(n - limit // 3, n))
    step = max(1, (n - 2 * (limit // 3)) // (limit // 3))
    middle = list(range(limit // 3, n - limit // 3, step))
    return sorted(set(head + middle + tail))


OUTCOMES = []


def note(tag, outcome):
    OUTCOMES.append("{}={}".format(tag, outcome))


def core_property_sweep():
    for path in FIXTURES:
        with open(path, "rb") as f:
            data = f.read()
        name = os.path.relpath(path, FIXTURE_DIR)
        nested_fixture = path in NESTED_FIXTURES

        # --- clean loads, every kind of source, both initial settings
        baseline = None
        for initial in (True, False):
            out_str, (nested, total_reads) = run_load(path, initial, expect_opened=1)
            out_path, _ = run_load(Path(path), initial, expect_opened=1)
            out_mem, _ = run_load(TopIO(data), initial, expect_opened=0)
            with open(path, "rb") as own:
                out_own, _ = run_load(own, initial, expect_opened=0)
                ok(not own.closed, "caller's file was closed", path)
            ok(out_str.startswith("ok:"), "clean load failed", path, out_str)
            ok(out_str == out_path == out_mem == out_own, "sources differ", path)
            ok(baseline in (None, out_str), "initial setting changed result", path)
            baseline = out_str
            if nested_fixture:
                ok(nested >= 1, "no nested load seen", path)
        note(name, baseline)
        ok(total_reads > 3, "too few reads", path, total_reads)

        # --- a fault injected at individual read calls (nested reads included)
        limit = 400 if nested_fixture else 90
        for index in sample_indices(total_reads, limit):
            initial = bool(index % 2)
            expected = "exc:Injected:injected at read {}".format(index)
            out, _ = run_load(path, initial, expect_opened=1, fail_at=index)
            ok(out == expected, "fault at read", path, index, out)
            if nested_fixture or index % 5 == 0:
                out, _ = run_load(TopIO(data), not initial, fail_at=index)
                ok(out == expected, "fault at read (memory)", path, index, out)
        out, _ = run_load(path, True, expect_opened=1, fail_at=total_reads)
        ok(out == baseline, "fault past the end", path, out)

        # --- a fault at each chunk boundary, truncation at each boundary
        boundaries = iff_boundaries(data)
        virtual = os.path.join(FIXTURE_DIR, "virtual-" + os.path.basename(path))
        for n, offset in enumerate(boundaries):
            initial = bool(n % 2)
            out, _ = run_load(
                path, initial, expect_opened=1, fail_at_offset=offset
            )
            if offset < len(data):
                ok(
                    out == "exc:Injected:injected at offset {}".format(offset),
                    "fault at boundary",
                    path,
                    offset,
                    out,
                )
            VIRTUAL_FILES[virtual] = data[:offset]
            out_a, _ = run_load(virtual, initial, expect_opened=1)
            out_b, _ = run_load(TopIO(data[:offset]), not initial)
            ok(out_a == out_b, "truncated: path vs memory", path, offset)
            note("{}@{}".format(name, offset), out_a)
        ok(out_a == baseline, "untruncated virtual file", path)

        # --- truncation at sampled byte offsets (and next to the boundaries)
        step = max(1, len(data) // 24)
        offsets = set(range(0, len(data), step))
        for b in boundaries[:40]:
            offsets.update((b - 1, b + 1, b + 4, b + 7, b + 9))
        for n, offset in enumerate(sorted(o for o in offsets if 0 <= o < len(data))):
            initial = bool(n % 2)
            VIRTUAL_FILES[virtual] = data[:offset]
            out_a, _ = run_load(Path(virtual), initial, expect_opened=1)
            note("{}~{}".format(name, offset), out_a)
        VIRTUAL_FILES.clear()

        # --- nested data cut short while the outer file is intact
        if nested_fixture:
            for limit in list(range(0, 64)) + list(range(64, 4096, 97)):
                for initial in (True, False):
                    out, (made, _) = run_load(
                        path, initial, expect_opened=1, nested_limit=limit
                    )
                    ok(made >= 1, "nested load not reached", path)
                note("{}#{}".format(name, limit), out)

    # --- sources that cannot even be opened
    for initial in (True, False):
        for bad in ("tests/files/does-not-exist.sunvox", Path(FIXTURE_DIR), ""):
            out, _ = run_load(bad, initial)
            ok(out.startswith("exc:"), "bad path loaded?", bad, out)
            note("bad:{!r}".format(str(bad)), out)
        out, _ = run_load(TopIO(b""), initial)
        note("empty", out)
        out, _ = run_load(TopIO(b"JUNKJUNKJUNK"), initial)
        note("junk", out)
        for bad in (None, 17, b"tests/files/empty.sunvox"):
            out, _ = run_load(bad, initial)
            note("type:{}".format(type(bad).__name__), out)


def context_manager_checks():
    cm = errors.override_raise_controller_value_errors
    for initial in (True, False):
        for new in (True, False):
            errors.RAISE_CONTROLLER_VALUE_ERRORS = initial
            with cm(new):
                ok(errors.RAISE_CONTROLLER_VALUE_ERRORS is new, "cm enter")
                with cm(not new):
                    ok(errors.RAISE_CONTROLLER_VALUE_ERRORS is (not new), "cm nest")
                ok(errors.RAISE_CONTROLLER_VALUE_ERRORS is new, "cm nest exit")
            ok(errors.RAISE_CONTROLLER_VALUE_ERRORS is initial, "cm exit")
            try:
                with cm(new):
                    raise KeyError("boom")
            except KeyError:
                pass
            ok(errors.RAISE_CONTROLLER_VALUE_ERRORS is initial, "cm exit on error")
    errors.RAISE_CONTROLLER_VALUE_ERRORS = True

    # lenient mode is not left on after a load, so bad values raise again
    from rv.api import m

    read_sunvox_file(os.path.join(FIXTURE_DIR, "metamodule.sunsynth"))
    try:
        read_sunvox_file(TopIO(b"SSYN\0\0\0\0SFFF"))
    except Exception:
        pass
    amp = m.Amplifier()
    try:
        amp.volume = 99999
    except errors.ControllerValueError:
        raised = True
    else:
        raised = False
    ok(raised, "out-of-range value did not raise after loads")


def finish(golden):
    digest = hashlib.sha1("\n".join(OUTCOMES).encode("utf8")).hexdigest()
    if "--show" in sys.argv:
        print(len(OUTCOMES), "outcomes", digest)
        kinds = {}
        for o in OUTCOMES:
            k = o.split("=", 1)[1].split(":")[:2]
            kinds[tuple(k[:2] if k[0] == "exc" else k[:1])] = (
                kinds.get(tuple(k[:2] if k[0] == "exc" else k[:1]), 0) + 1
            )
        print(kinds)
    ok(digest == golden, "outcome digest changed", digest)
    ok(errors.RAISE_CONTROLLER_VALUE_ERRORS is True, "flag at end")
    print("PASS ({} checks, {} recorded outcomes)".format(CHECKS, len(OUTCOMES)))


# ---------------------------------------------------------------------------
# Checks specific to rv/modules/sampler.py (Sampler.load_chunk and friends)
# ---------------------------------------------------------------------------


class FakeChunk:
    """What the module reader hands to load_chunk (attributes set one by one)."""

    def __init__(self, chnm, chdt=None, chff=None, chfr=None):
        self.chnm = chnm
        if chdt is not None:
            self.chdt = chdt
        if chff is not None:
            self.chff = chff
        if chfr is not None:
            self.chfr = chfr


class FakeEnvelope:
    loaded = True

    def __init__(self, name, calls):
        self.name = name
        self.calls = calls

    def load_chdt(self, chdt):
        self.calls.append((self.name, chdt))


def outcome_of(fn, *args):
    try:
        return ("ok", fn(*args))
    except Exception as e:
        return ("exc", type(e).__name__)


def instrumented_sampler(calls):
    from rv.api import m

    mod = m.Sampler()
    mod.load_options = lambda c: calls.append(("options", c))
    mod.load_instrument = lambda c: calls.append(("instrument", c))
    mod.load_sample_meta = lambda c: calls.append(("meta", c))
    mod.load_sample_data = lambda c: calls.append(("data", c))
    mod.volume_envelope = FakeEnvelope("vol", calls)
    mod.panning_envelope = FakeEnvelope("pan", calls)
    mod.pitch_envelope = FakeEnvelope("pitch", calls)
    mod.effect_control_envelopes = [
        FakeEnvelope("fx{}".format(i), calls) for i in range(4)
    ]
    return mod


def expected_sampler_calls(chnm, chunk, options_chnm=0x101):
    """Written out long-hand on purpose: this is the reference behaviour."""
    if chnm == options_chnm:
        return [("options", chunk)]
    if chnm == 0:
        return [("instrument", chunk)]
    if chnm < 0x101:
        return [("meta" if chnm % 2 == 1 else "data", chunk)]
    if chnm == 0x101:
        return [("unknown", chunk.chdt)]
    names = {
        0x102: "vol",
        0x103: "pan",
        0x104: "pitch",
        0x105: "fx0",
        0x106: "fx1",
        0x107: "fx2",
        0x108: "fx3",
    }
    if chnm in names:
        return [(names[chnm], chunk.chdt)]
    if chnm == 0x10A:
        return [("effect", chunk.chdt)]
    return []


def sampler_dispatch_checks():
    sentinel = object()
    calls = []

    def fake_read(f):
        calls.append(("effect", f.getvalue()))
        ok(f.tell() == 0, "nested file starts at 0")
        return sentinel

    numbers = list(range(0, 0x114)) + [0x1FF, 0x200, 0x20A, 0xFFFF, 0xFFFFFFFF, -1, -2]
    real_read = smp_mod.read_sunvox_file
    smp_mod.read_sunvox_file = fake_read
    try:
        for options_chnm in (0x101, 0x55, 0x54, 0, 0x104, 0x10A, 0x109):
            for chnm in numbers:
                del calls[:]
                mod = instrumented_sampler(calls)
                if options_chnm != 0x101:
                    mod.options_chnm = options_chnm
                chunk = FakeChunk(chnm, b"payload %d" % chnm)
                ok(mod.load_chunk(chunk) is None, "returns None")
                expected = expected_sampler_calls(chnm, chunk, options_chnm)
                unknown = [e for e in expected if e[0] == "unknown"]
                expected = [e for e in expected if e[0] != "unknown"]
                ok(calls == expected, "dispatch", hex(chnm), hex(options_chnm), calls)
                if unknown:
                    ok(mod._unknown_0x101 is chunk.chdt, "unknown chunk kept")
                else:
                    ok(not hasattr(mod, "_unknown_0x101"), "unknown not set", chnm)
                if ("effect", chunk.chdt) in expected:
                    ok(mod.effect is sentinel, "effect assigned")
                else:
                    ok(mod.effect is None, "effect untouched", hex(chnm))
                ok(mod.legacy_chunks == [chunk], "legacy chunk list", mod.legacy_chunks)

        # which chunks are remembered for legacy instruments
        for is_legacy, kept in ((None, True), (True, True), (False, False)):
            del calls[:]
            mod = instrumented_sampler(calls)
            mod.is_legacy = is_legacy
            mod.legacy_chunks = [] if kept else None
            chunks_in = [FakeChunk(n, b"x") for n in (0, 1, 2, 0x101, 0x102, 0x10A, 0x300)]
            for c in chunks_in:
                mod.load_chunk(c)
            ok(mod.legacy_chunks == (chunks_in if kept else None), "legacy", is_legacy)
            ok(len(calls) == 6, "all handled", len(calls))
    finally:
        smp_mod.read_sunvox_file = real_read

    from rv.api import m

    mod = m.Sampler()
    ok(outcome_of(mod.load_chunk, FakeChunk(None, b"")) == ("exc", "TypeError"), "None")
    ok(outcome_of(mod.load_chunk, FakeChunk(5)) == ("exc", "AttributeError"), "no chdt")
    ok(mod.legacy_chunks is not None and len(mod.legacy_chunks) == 2, "kept before failing")
    ok(mod.options_chnm == 0x101 and mod.chnk == 0x10B, "class constants")


def sampler_real_data_checks():
    from rv.api import Synth, m
    from rv.lib.iff import chunks

    path = os.path.join(FIXTURE_DIR, "sampler.sunsynth")
    with open(path, "rb") as f:
        file_bytes = f.read()
    source = read_sunvox_file(path).module
    ok(type(source).__name__ == "Sampler", "fixture is a sampler")
    ok(isinstance(source.effect, Synth), "fixture effect loaded")
    written = Synth(source).read()
    again = read_sunvox_file(REAL_BYTESIO(written))
    ok(again.read() == written, "write/read/write is stable")

    # pick the numbered chunks out of the written file, feed them one by one
    numbered = []
    current = None
    for chunk_name, chunk_data in chunks(REAL_BYTESIO(written)):
        if chunk_name == b"CHNM":
            current = FakeChunk(struct.unpack("<I", chunk_data)[0])
            numbered.append(current)
        elif chunk_name == b"CHDT":
            current.chdt = chunk_data
        elif chunk_name == b"CHFF":
            (current.chff,) = struct.unpack("<I", chunk_data)
        elif chunk_name == b"CHFR":
            (current.chfr,) = struct.unpack("<I", chunk_data)
    seen = [c.chnm for c in numbered]
    sample_numbers = [n for n in seen if 0 < n < 0x101]
    ok(seen[0] == 0 and seen[-1] == 0x10A, "first and last chunk", seen)
    ok(
        seen[1 + len(sample_numbers) :]
        == [0x101, 0x102, 0x103, 0x104, 0x105, 0x106, 0x107, 0x108, 0x10A],
        "chunk order",
        [hex(n) for n in seen],
    )
    ok(len(sample_numbers) >= 2 and len(sample_numbers) % 2 == 0, "sample chunks")

    for initial in (True, False):
        errors.RAISE_CONTROLLER_VALUE_ERRORS = initial
        fresh = m.Sampler()
        for c in numbered:
            fresh.load_chunk(c)
            ok(errors.RAISE_CONTROLLER_VALUE_ERRORS is initial, "flag per chunk")
        ok(fresh.is_legacy is False and fresh.legacy_chunks is None, "not legacy")
        for attr in ("volume_envelope", "panning_envelope", "pitch_envelope"):
            a, b = getattr(fresh, attr), getattr(source, attr)
            ok(a.loaded and a.points == b.points, "envelope points", attr)
            ok(a.bitmask == b.bitmask and a.sustain_point == b.sustain_point, attr)
        for a, b in zip(fresh.effect_control_envelopes, source.effect_control_envelopes):
            ok(a.loaded and a.points == b.points and a.chnm == b.chnm, "fx envelope")
            ok((a.ctl_index, a.gain_pct, a.velocity) == (b.ctl_index, b.gain_pct, b.velocity), "fx")
        ok(fresh.option_values == source.option_values, "options")
        ok(fresh.instrument_name == source.instrument_name, "instrument")
        for a, b in zip(fresh.samples, source.samples):
            ok((a is None) == (b is None), "sample slots")
            if a is not None:
                ok(a.data == b.data and a.rate == b.rate, "sample data")
                ok(a.format == b.format and a.channels == b.channels, "sample format")
                ok(a.name == b.name and a.loop_type == b.loop_type, "sample meta")
        ok(fresh.effect.read() == source.effect.read(), "effect content")
        ok(list(fresh.specialized_iff_chunks()) == list(source.specialized_iff_chunks()), "chunks out")
    errors.RAISE_CONTROLLER_VALUE_ERRORS = True

    # envelope chunks go to the right envelope, one at a time
    by_number = {c.chnm: c for c in numbered}
    for target in range(0x102, 0x109):
        fresh = m.Sampler()
        fresh.load_chunk(by_number[target])
        envelopes = [fresh.volume_envelope, fresh.panning_envelope, fresh.pitch_envelope]
        envelopes += fresh.effect_control_envelopes
        loaded = [e.loaded for e in envelopes]
        ok(loaded == [n == target - 0x102 for n in range(7)], "one envelope", loaded)
    fresh = m.Sampler()
    ok(outcome_of(fresh.load_chunk, FakeChunk(0x102, b"short")) == ("exc", "error"), "short")
    ok(not fresh.volume_envelope.loaded, "not marked loaded")

    # the nested effect load: same result and errors as reading directly
    effect_bytes = by_number[0x10A].chdt
    for initial in (True, False):
        for content in (effect_bytes, effect_bytes[:40], effect_bytes[:-3], b"", b"junk!", b"SSYN\0\0\0\0"):
            errors.RAISE_CONTROLLER_VALUE_ERRORS = initial
            direct = outcome_of(read_sunvox_file, REAL_BYTESIO(content))
            fresh = m.Sampler()
            via = outcome_of(fresh.load_chunk, FakeChunk(0x10A, content))
            ok(errors.RAISE_CONTROLLER_VALUE_ERRORS is initial, "flag after effect load")
            if direct[0] == "exc":
                ok(via == direct, "effect error", via, direct)
                ok(fresh.effect is None, "effect stays None on error")
            else:
                ok(via == ("ok", None), "effect load result", via)
                ok(type(fresh.effect) is type(direct[1]), "effect type")
                if direct[1] is not None and direct[1].module is not None:
                    ok(fresh.effect.read() == direct[1].read(), "effect content")
    errors.RAISE_CONTROLLER_VALUE_ERRORS = True

    # samplers whose effect is a sampler with an effect ... : nested loads
    def chain(depth):
        inner = Synth(m.Echo(delay=33))
        for _ in range(depth):
            s = m.Sampler()
            s.effect = inner
            inner = Synth(s)
        return inner

    for depth in (1, 2, 3):
        data = chain(depth).read()
        ok(data.count(b"\x0a\x01\0\0") >= depth, "effect chunk numbers written")
        VIRTUAL_FILES["chain.sunsynth"] = data
        for initial in (True, False):
            out, (nested, reads) = run_load("chain.sunsynth", initial, expect_opened=1)
            ok(out.startswith("ok:Synth:"), "chain load", out)
            ok(nested == depth, "nested loads", depth, nested)
        loaded = read_sunvox_file(REAL_BYTESIO(data))
        ok(loaded.read() == data, "chain round trip")
        level = loaded
        for _ in range(depth):
            level = level.module.effect
        ok(type(level.module).__name__ == "Echo" and level.module.delay == 33, "innermost")
        for index in sample_indices(reads, 500):
            expected = "exc:Injected:injected at read {}".format(index)
            out, _ = run_load("chain.sunsynth", bool(index % 2), expect_opened=1, fail_at=index)
            ok(out == expected, "chain fault", depth, index, out)
        for limit in list(range(0, 40)) + list(range(40, len(data), 53)):
            out_a, _ = run_load("chain.sunsynth", True, expect_opened=1, nested_limit=limit)
            out_b, _ = run_load(TopIO(data), False, nested_limit=limit)
            ok(out_a == out_b, "cut chain", depth, limit)
            note("chain{}#{}".format(depth, limit), out_a)
        VIRTUAL_FILES.clear()
    ok(file_bytes[:4] == b"SSYN", "fixture magic")


if __name__ == "__main__":
    sampler_dispatch_checks()
    sampler_real_data_checks()
    context_manager_checks()
    core_property_sweep()
    finish("c3fc0ace37bba8d35a37ce6372de7f0033b2dc45")
