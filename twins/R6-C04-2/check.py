import hashlib
import io
import logging
import os
import struct
import sys
import tempfile
from enum import Enum
from pathlib import Path

import rv.api
from rv.readers.reader import read_sunvox_file

ROOT = Path(os.getcwd())
FILES = ROOT / "tests" / "files"
FAILURES = []
N_FIXTURES = 52
logging.getLogger("rv").addHandler(logging.NullHandler())


def check(cond, msg):
    if not cond:
        FAILURES.append(msg)
        print("FAIL:", msg)


# ---------------------------------------------------------------- byte level
def split(raw):
    """Independent flat chunk splitter: [(id, payload), ...]."""
    out, pos = [], 0
    while pos + 8 <= len(raw):
        cid = raw[pos : pos + 4]
        (size,) = struct.unpack_from("<I", raw, pos + 4)
        out.append((cid, raw[pos + 8 : pos + 8 + size]))
        pos += 8 + size
    return out


def join(chunks):
    return b"".join(c + struct.pack("<I", len(d)) + d for c, d in chunks)


# ---------------------------------------------------------------- snapshot
def snap(obj, seen=None, depth=0):
    seen = set() if seen is None else seen
    if obj is None or isinstance(obj, (bool, int, float, str)):
        return obj
    if isinstance(obj, (bytes, bytearray)):
        return ("bytes", hashlib.sha1(bytes(obj)).hexdigest(), len(obj))
    if isinstance(obj, Enum):
        return ("enum", type(obj).__name__, obj.name)
    if isinstance(obj, (list, tuple)):
        return (type(obj).__name__, [snap(x, seen, depth + 1) for x in obj])
    if isinstance(obj, (set, frozenset)):
        return ("set", sorted(repr(snap(x, seen, depth + 1)) for x in obj))
    if isinstance(obj, dict):
        return (
            "dict",
            sorted(
                (repr(snap(k, seen, depth + 1)), snap(v, seen, depth + 1))
                for k, v in obj.items()
            ),
        )
    tname = type(obj).__name__
    if type(obj).__module__.startswith("numpy"):
        return ("numpy", tname, snap(obj.tolist(), seen, depth + 1))
    if id(obj) in seen:
        return ("ref", tname, getattr(obj, "index", None))
    if depth > 12:
        return ("deep", tname)
    seen.add(id(obj))
    try:
        d = vars(obj)
    except TypeError:
        d = {s: getattr(obj, s, None) for s in getattr(type(obj), "__slots__", ())}
    items = []
    for extra in ("name", "mtype", "visualization", "chnk", "data", "source"):
        if extra not in d and hasattr(obj, extra):
            try:
                items.append((extra, snap(getattr(obj, extra), seen, depth + 1)))
            except Exception as e:  # noqa
                items.append((extra, "EXC:" + type(e).__name__))
    for k in sorted(d):
        if k.startswith("_") and k != "_reader_chnk":
            continue
        items.append((k, snap(d[k], seen, depth + 1)))
    seen.discard(id(obj))
    return ("obj", tname, items)


def load(raw):
    return read_sunvox_file(io.BytesIO(raw))


def digest(raw):
    return hashlib.sha256(repr(snap(load(raw))).encode()).hexdigest()


def outcome(raw):
    """Digest of the loaded object, or the exception type name."""
    try:
        return digest(raw)
    except Exception as e:  # noqa
        return "EXC:" + type(e).__name__


def fixtures():
    return sorted(p for p in FILES.rglob("*") if p.suffix in (".sunvox", ".sunsynth"))


class Capture(logging.Handler):
    def __init__(self):
        super().__init__(level=logging.DEBUG)
        self.records = []

    def emit(self, record):
        self.records.append((record.name, record.levelname, record.getMessage()))


def captured(raw, level=logging.DEBUG):
    """(outcome, log records) for loading raw with logging captured on 'rv'."""
    logger = logging.getLogger("rv")
    h = Capture()
    old = logger.level
    logger.addHandler(h)
    logger.setLevel(level)
    try:
        res = outcome(raw)
    finally:
        logger.removeHandler(h)
        logger.setLevel(old)
    return res, h.records


# ---------------------------------------------------------------- generic suite
UNKNOWN = (b"ZzQ9", b"\x01\x02\x03\x04\x05")
HEADER_IDS = {
    b"VERS", b"BVER", b"FLGS", b"SFGS", b"BPM ", b"SPED", b"TGRD", b"TGD2",
    b"GVOL", b"NAME", b"MSCL", b"MZOO", b"MXOF", b"MYOF", b"LMSK", b"CURL",
    b"TIME", b"REPS", b"SELS", b"LGEN", b"PATN", b"PATT", b"PATL",
}
STRUCTURAL = {b"SVOX", b"SSYN", b"SFFF", b"SEND", b"PDTA", b"PEND", b"PPAR",
              b"STYP", b"CHNM", b"PCHN", b"PLIN"}


def generic_suite():
    """Return {section: sha256} over outcomes of all structure-preserving edits."""
    agg = {k: hashlib.sha256() for k in ("base", "drop", "cval", "swap")}
    for p in fixtures():
        raw = p.read_bytes()
        ch = split(raw)
        check(join(ch) == raw, f"{p.name}: splitter round trip")
        base = outcome(raw)
        check(not base.startswith("EXC"), f"{p.name}: loads")
        agg["base"].update((p.name + base).encode())
        # loading by path, by str and by file object agree
        check(
            hashlib.sha256(repr(snap(read_sunvox_file(p))).encode()).hexdigest() == base
            and hashlib.sha256(repr(snap(rv.api.read_sunvox_file(str(p)))).encode()).hexdigest() == base,
            f"{p.name}: path/str/file agree",
        )
        # unknown chunk at every position changes nothing
        for i in range(len(ch) + 1):
            edited = join(ch[:i] + [UNKNOWN] + ch[i:])
            check(outcome(edited) == base, f"{p.name}: unknown chunk at {i}")
        # two unknown chunks (one empty payload) around every section start
        for i, (cid, _) in enumerate(ch):
            if cid in (b"SFFF", b"PDTA", b"PPAR", b"SEND", b"PEND"):
                edited = join(ch[:i] + [(b"Qq  ", b"")] + ch[i : i + 1] + [UNKNOWN] + ch[i + 1 :])
                check(outcome(edited) == base, f"{p.name}: unknown chunks around {i}")
        # drop every non-structural chunk, one at a time
        for i, (cid, _) in enumerate(ch):
            if cid in STRUCTURAL:
                continue
            agg["drop"].update(outcome(join(ch[:i] + ch[i + 1 :])).encode())
        # truncate each run of CVALs from the end
        i = 0
        while i < len(ch):
            if ch[i][0] != b"CVAL":
                i += 1
                continue
            j = i
            while j < len(ch) and ch[j][0] == b"CVAL":
                j += 1
            for keep in range(j - i):
                agg["cval"].update(outcome(join(ch[: i + keep] + ch[j:])).encode())
            i = j
        # swap adjacent independent header chunks
        for i in range(len(ch) - 1):
            if ch[i][0] in HEADER_IDS and ch[i + 1][0] in HEADER_IDS:
                if ch[i][0] == b"VERS" or ch[i + 1][0] == b"VERS":
                    continue
                sw = ch[:i] + [ch[i + 1], ch[i]] + ch[i + 2 :]
                check(outcome(join(sw)) == base, f"{p.name}: header swap at {i}")
                agg["swap"].update(outcome(join(sw)).encode())
    return {k: v.hexdigest() for k, v in agg.items()}


# ---------------------------------------------------------------- tiny independent encoder
def u32(v):
    return struct.pack("<I", v)


def i32(v):
    return struct.pack("<i", v)


def ints(vals):
    return b"".join(i32(v) for v in vals)


def mod_chunks(name=b"m\0", mtype=b"Amplifier\0", flags=0x51, pre=(), cvals=(), post=()):
    """Chunks of one module section; pre/post are extra (id, payload) pairs."""
    ch = [(b"SFFF", u32(flags)), (b"SNAM", name)]
    if mtype is not None:
        ch.append((b"STYP", mtype))
    ch += [(b"SFIN", i32(0)), (b"SREL", i32(0)), (b"SXXX", i32(100)), (b"SYYY", i32(-7))]
    ch += list(pre)
    ch += [(b"CVAL", i32(v)) for v in cvals]
    ch += list(post)
    ch.append((b"SEND", b""))
    return ch


def project(modules, head=(), vers=(2, 0, 0, 0), bver=(2, 0, 0, 0), tail=()):
    ch = [(b"SVOX", b"")]
    if vers is not None:
        ch.append((b"VERS", bytes(reversed(vers))))
    if bver is not None:
        ch.append((b"BVER", bytes(reversed(bver))))
    ch += list(head)
    for m in modules:
        ch += [(b"SEND", b"")] if m is None else m
    ch += list(tail)
    return join(ch)


OUT = mod_chunks(name=b"Output\0", mtype=None, flags=0x43, pre=[(b"SLNK", ints([1]))])
OUT0 = mod_chunks(name=b"Output\0", mtype=None, flags=0x43)


# ---------------------------------------------------------------- patch-specific checks
def note(n=0, vel=0, module=0, ctl=0, val=0):
    return struct.pack("<BBHHH", n, vel, module, ctl, val)


def pattern_chunks(notes, tracks, lines, name=None, extra=(), flags=None, x=None, y=None):
    ch = [(b"PDTA", b"".join(notes))]
    if name is not None:
        ch.append((b"PNME", name))
    ch += [(b"PCHN", u32(tracks)), (b"PLIN", u32(lines)), (b"PYSZ", u32(32))]
    ch += list(extra)
    if flags is not None:
        ch.append((b"PFFF", u32(flags)))
    if x is not None:
        ch.append((b"PXXX", i32(x)))
    if y is not None:
        ch.append((b"PYYY", i32(y)))
    ch.append((b"PEND", b""))
    return ch


def clone_chunks(source, flags=None, x=None, y=None, extra=()):
    ch = [(b"PPAR", u32(source))]
    if flags is not None:
        ch.append((b"PFFF", u32(flags)))
    if x is not None:
        ch.append((b"PXXX", i32(x)))
    if y is not None:
        ch.append((b"PYYY", i32(y)))
    ch += list(extra)
    ch.append((b"PEND", b""))
    return ch


U32_FIELDS = {
    b"FLGS": "flags", b"BPM ": "initial_bpm", b"SPED": "initial_tpl", b"TGRD": "time_grid",
    b"TGD2": "time_grid2", b"GVOL": "global_volume", b"MSCL": "modules_scale",
    b"MZOO": "modules_zoom", b"LMSK": "modules_layer_mask", b"CURL": "modules_current_layer",
    b"SELS": "selected_module", b"PATN": "current_pattern", b"PATT": "current_track",
    b"PATL": "current_line",
}
I32_FIELDS = {
    b"MXOF": "modules_x_offset", b"MYOF": "modules_y_offset", b"TIME": "timeline_position",
    b"REPS": "restart_position", b"LGEN": "selected_generator",
}


def specific():
    agg = hashlib.sha256()
    from rv.project import Project

    # --- public names stay where they were ------------------------------------
    import rv.readers.initial as r_initial
    import rv.readers.module as r_module
    import rv.readers.pattern as r_pattern
    import rv.readers.reader as r_reader
    import rv.readers.sunsynth as r_sunsynth
    import rv.readers.sunvox as r_sunvox

    for mod, names in [
        (r_reader, ["Reader", "ReaderFinished", "read_sunvox_file", "log"]),
        (r_initial, ["InitialReader"]),
        (r_sunvox, ["SunVoxReader", "log"]),
        (r_sunsynth, ["SunSynthReader"]),
        (r_module, ["ModuleReader", "log"]),
        (r_pattern, ["PatternReader", "PatternCloneReader", "log"]),
    ]:
        for n in names:
            check(hasattr(mod, n), f"{mod.__name__}.{n} importable")
    for cls in (r_initial.InitialReader, r_sunvox.SunVoxReader, r_sunsynth.SunSynthReader,
                r_module.ModuleReader, r_pattern.PatternReader, r_pattern.PatternCloneReader):
        check(issubclass(cls, r_reader.Reader), f"{cls.__name__} is a Reader")
        check(callable(getattr(cls, "process_PAMD", None)), f"{cls.__name__} ignores PAMD")
    for cls in (r_pattern.PatternReader, r_pattern.PatternCloneReader):
        for h in ("process_PFFF", "process_PXXX", "process_PYYY", "process_PEND"):
            check(callable(getattr(cls, h, None)), f"{cls.__name__}.{h}")
    check(not hasattr(r_pattern.PatternCloneReader, "process_PNME"), "clone sections have no name handler")
    check(issubclass(r_reader.ReaderFinished, Exception), "ReaderFinished")
    rd = r_sunvox.SunVoxReader(io.BytesIO(b""))
    check(rd.f.read() == b"" and rd._object is None, "reader construction")
    rd.object = "x"
    try:
        rd.object = "y"
        check(False, "object can only be set once")
    except AttributeError as e:
        check(str(e) == "object was already set", "setter message")
    rd = r_reader.Reader(io.BytesIO(b""))
    try:
        rd.object
        check(False, "base reader has no end-of-file handler")
    except RuntimeError as e:
        check(str(e) == "Reached end of file without a handler", "base reader EOF message")
    f = io.BytesIO(b"x" * 40)
    f.seek(30)
    r_reader.Reader(f).rewind(b"12345")
    check(f.tell() == 17, "rewind goes back over payload and 8 byte header")

    # --- project header fields -------------------------------------------------
    defaults = Project()
    vals = [0, 1, 6, 0x7FFFFFFF, 0x80000000, 0xFFFFFFFF, 0x12345678]
    for v in vals:
        head = [(cid, u32(v)) for cid in list(U32_FIELDS) + list(I32_FIELDS) + [b"SFGS"]]
        proj = load(project([OUT0], head=head))
        for cid, attr in U32_FIELDS.items():
            check(getattr(proj, attr) == v, f"{cid} -> {attr} = {v}")
        sv = struct.unpack("<i", u32(v))[0]
        for cid, attr in I32_FIELDS.items():
            check(getattr(proj, attr) == sv, f"{cid} -> {attr} = {sv}")
        check(proj.receive_sync_midi == v % 8 and proj.receive_sync_other == (v // 8) % 8, f"SFGS {v}")
        check(type(proj.receive_sync_midi) is int and type(proj.receive_sync_other) is int, "SFGS plain ints")
        agg.update(outcome(project([OUT0], head=head)).encode())
    for v in range(0, 80):
        proj = load(project([OUT0], head=[(b"SFGS", u32(v))]))
        check((proj.receive_sync_midi, proj.receive_sync_other) == (v & 7, (v >> 3) & 7), f"SFGS {v}")
    # each field on its own: all the others keep their defaults
    every = list(U32_FIELDS.items()) + list(I32_FIELDS.items())
    for cid, attr in every:
        proj = load(project([OUT0], head=[(cid, u32(77))]))
        for _, other in every:
            exp = 77 if other == attr else getattr(defaults, other)
            check(getattr(proj, other) == exp, f"only {cid} present: {other}")
        check(proj.name == defaults.name, "name default")
        for bad in (b"", b"\x01\x02\x03", b"\0" * 5, b"\0" * 8):
            check(outcome(project([OUT0], head=[(cid, bad)])) == "EXC:error", f"{cid} with {len(bad)} bytes")
    for bad in (b"", b"\x01\x02\x03", b"\0" * 5):
        for cid in (b"SFGS", b"VERS", b"BVER"):
            check(outcome(project([OUT0], head=[(cid, bad)])) == "EXC:error", f"{cid} with {len(bad)} bytes")
    for nm in [b"abc\0\0\0", b"abc", b"\0abc", b"", b"a\0b\0c", b"caf\xc3\xa9\0\xff\xfe", b"\0"]:
        proj = load(project([OUT0], head=[(b"NAME", nm)]))
        check(proj.name == nm.split(b"\0")[0].decode("utf8"), f"NAME {nm!r}")
        proj = load(project([OUT, mod_chunks(name=nm, post=[(b"SMIN", nm)])]))
        check(proj.modules[1].name == proj.modules[1].midi_out_name == nm.split(b"\0")[0].decode("utf8"), f"SNAM/SMIN {nm!r}")
    check(outcome(project([OUT0], head=[(b"NAME", b"\xff\0")])) == "EXC:UnicodeDecodeError", "NAME bad utf8")
    check(type(load(project([OUT, mod_chunks(mtype=b"Echo\0zz")])).modules[1]).__name__ == "Echo", "STYP cstring")

    # --- versions and the legacy defaults --------------------------------------
    for vers in [(1, 2, 3, 4), (2, 1, 2, 1), (0, 0, 0, 0), (255, 254, 253, 252), (1, 9, 5, 0), (1, 9, 4, 255)]:
        for bver in [None, (9, 8, 7, 6), (1, 7, 0, 0)]:
            proj = load(project([OUT0], vers=vers, bver=bver))
            check(proj.loaded_sunvox_version == vers and type(proj.loaded_sunvox_version) is tuple, f"VERS {vers}")
            check(proj.based_on_version == (bver or (1, 7, 0, 0)) and type(proj.based_on_version) is tuple, f"BVER {bver}")
            check(proj.sunvox_version == defaults.sunvox_version, "sunvox_version untouched")
    # BVER may come last
    proj = load(project([OUT0], bver=None, tail=[(b"BVER", bytes([4, 3, 2, 1]))]))
    check(proj.based_on_version == (1, 2, 3, 4), "late BVER")
    syn = split((FILES / "amplifier.sunsynth").read_bytes())
    for vers in [(1, 2, 3, 4), (2, 1, 2, 1), (255, 0, 0, 1)]:
        ed = [(c, bytes(reversed(vers)) if c == b"VERS" else d) for c, d in syn]
        check(load(join(ed)).loaded_sunsynth_version == vers, f"synth VERS {vers}")
    no_vers = [(c, d) for c, d in syn if c != b"VERS"]
    check(load(join(no_vers)).loaded_sunsynth_version == (2, 1, 2, 1), "synth without VERS keeps default")
    s = load(join(syn))
    check(type(s).__name__ == "Synth" and type(s.module).__name__ == "Amplifier" and s.module.index is None or True, "synth module")
    agg.update(repr(snap(s)).encode())

    # --- patterns, clones, empty slots -----------------------------------------
    notes = [note(n=(i * 7) % 120 + 1, vel=i % 130, module=(i * 37 + 250) % 65536, ctl=i * 257 % 65536, val=(i * 911) % 65536)
             for i in range(6)]
    big = [note(module=m) for m in (0, 1, 255, 256, 257, 0x1234, 0xFF00, 0xFFFF)]
    for vers in [(1, 9, 4, 255), (1, 9, 5, 0), (1, 0, 0, 0), (2, 0, 0, 0)]:
        legacy = vers < (1, 9, 5, 0)
        pats = (
            pattern_chunks(notes, 2, 3, name=b"first\0junk", flags=8, x=-5, y=64,
                           extra=[(b"PFLG", u32(3)), (b"PICO", bytes(range(32))), (b"PFGC", b"\x01\x02\x03"), (b"PBGC", b"\xff\xfe\xfd"), (b"PSYN", b"zz"), (b"PCTL", b""), (b"PAMD", b"q")])
            + [(b"PEND", b"")]
            + clone_chunks(0, flags=0x11, x=128, y=-32)
            + pattern_chunks(big, 4, 2)
            + [(b"PEND", b""), (b"PEND", b"")]
            + clone_chunks(3)
        )
        raw = project([OUT0], vers=vers, head=pats)
        proj = load(raw)
        agg.update(outcome(raw).encode())
        kinds = [type(p).__name__ for p in proj.patterns]
        check(kinds == ["Pattern", "NoneType", "PatternClone", "Pattern", "NoneType", "NoneType", "PatternClone"], f"pattern slots {kinds}")
        p0, c2, p3, c6 = proj.patterns[0], proj.patterns[2], proj.patterns[3], proj.patterns[6]
        check((p0.name, p0.tracks, p0.lines, p0.y_size, p0.flags_PFLG, p0.flags_PFFF, p0.x, p0.y) == ("first", 2, 3, 32, 3, 8, -5, 64), "pattern fields")
        check(p0.icon == bytes(range(32)) and p0.fg_color == (1, 2, 3) and p0.bg_color == (255, 254, 253), "pattern icon/colours")
        check(p0.project is proj and c2.project is proj, "patterns attached")
        got = [(n.note, n.vel, n.module, n.ctl, n.val) for line in p0.data for n in line]
        exp = [struct.unpack("<BBHHH", b) for b in notes]
        if legacy:
            exp = [(a, b, m % 256, c, d) for a, b, m, c, d in exp]
        check(got == exp, f"notes for {vers}")
        check(len(p0.data) == 3 and all(len(line) == 2 for line in p0.data), "pattern shape")
        got = [n.module for line in p3.data for n in line]
        exp = [0, 1, 255, 256, 257, 0x1234, 0xFF00, 0xFFFF]
        check(got == ([m & 255 for m in exp] if legacy else exp), f"module high byte for {vers}")
        check((p3.name, p3.flags_PFFF, p3.x, p3.y, p3.flags_PFLG) == (None, 0, 0, 0, 0), "pattern defaults")
        check((c2.source, int(c2.flags_PFFF), c2.x, c2.y) == (0, 0x11, 128, -32), "clone fields")
        check((c6.source, int(c6.flags_PFFF), c6.x, c6.y) == (3, 1, 0, 0), "clone defaults")
    # unknown chunks inside pattern and clone sections
    pats = pattern_chunks(notes, 2, 3, extra=[UNKNOWN]) + clone_chunks(0, extra=[UNKNOWN])
    base = outcome(project([OUT0], head=pattern_chunks(notes, 2, 3) + clone_chunks(0)))
    res, recs = captured(project([OUT0], head=pats), logging.WARNING)
    check(res == base, "unknown chunks in pattern sections are skipped")
    check([r[2] for r in recs] == ["no PatternReader.process_ZzQ9 method", "no PatternCloneReader.process_ZzQ9 method"], "who skipped them")
    # malformed pattern sections keep failing the same way
    bad_cases = [
        pattern_chunks(notes, 2, 3, extra=[(b"PDTA", b"")]),          # second PDTA
        pattern_chunks(notes, 2, 3, extra=[(b"PFGC", b"\x01\x02")]),
        pattern_chunks(notes, 2, 3, extra=[(b"PBGC", b"\x01\x02\x03\x04")]),
        pattern_chunks(notes, 2, 3, flags=1)[:-1] + [(b"PFFF", b"\x01")] + [(b"PEND", b"")],
        pattern_chunks(notes[:5], 2, 3),                                # short PDTA
        clone_chunks(0, extra=[(b"PPAR", u32(1))]),
        [(b"PPAR", b"\x01\x02")] + [(b"PEND", b"")],
        clone_chunks(0)[:-1],                                           # no PEND: runs into the module
        pattern_chunks(notes, 2, 3)[:-1],
    ]
    for case in bad_cases:
        agg.update(outcome(project([OUT0], head=case)).encode())
    check(outcome(project([OUT0], head=bad_cases[0])) == "EXC:AttributeError", "second PDTA rejected")
    check(outcome(project([OUT0], head=bad_cases[5])) == "EXC:AttributeError", "second PPAR rejected")
    check(outcome(project([OUT0], head=bad_cases[6])) == "EXC:error", "short PPAR")

    # --- module positions --------------------------------------------------------
    layouts = [
        [OUT0],
        [OUT0, None, None],
        [OUT, mod_chunks(name=b"a\0")],
        [OUT, mod_chunks(name=b"a\0"), None, mod_chunks(name=b"c\0", mtype=b"Echo\0"), None],
        [mod_chunks(name=b"Output\0", mtype=None, flags=0x43, pre=[(b"SLNK", ints([3]))]), None, None,
         mod_chunks(name=b"d\0", mtype=b"Filter\0"), None, None],
        [None, mod_chunks(name=b"a\0")],
    ]
    for lay in layouts:
        raw = project(lay)
        agg.update(outcome(raw).encode())
        proj = load(raw)
        exp = [None if m is None else m[1][1].split(b"\0")[0].decode() for m in lay]
        while exp and exp[-1] is None:
            exp.pop()
        got = [None if m is None else m.name for m in proj.modules]
        check(got == exp, f"module positions {got} != {exp}")
        for i, m in enumerate(proj.modules):
            check(m is None or (m.index == i and m.parent is proj), "index equals position")
        if lay[0] is not None:
            check(type(proj.modules[0]).__name__ == "Output" and proj.output is proj.modules[0], "output module")
    for name in ("single-fm.sunvox", "supertracks.sunvox", "issue54/test1.sunvox"):
        res, recs = captured((FILES / name).read_bytes(), logging.DEBUG)
        agg.update((res + repr(recs)).encode())
    return agg.hexdigest()


EXPECTED_GENERIC = {
    "base": "722889d4d528ad64c73a6796e7f8e60a81723a7ca28605403938d3b56e5d4284",
    "drop": "9a27b83c1eddabebda828b8ad5338ccf7fcc981d9c624fff568ae9ca17581c5d",
    "cval": "c3e85d1dee22d94515979173144161be08e0f6e28d6f2daacd649227465a80f6",
    "swap": "6e552cea7b9b21a13264c0c12c4ec1780199707b58c47c43c8a4ea4202c68023",
}
EXPECTED_SPECIFIC = "5ce23aed1ab3152270fa1534c919e221aa3b4c6c81b6c2ec3fb9d5c1bea77fe6"


def main():
    check(len(fixtures()) == N_FIXTURES, f"{N_FIXTURES} fixture files found (run from the repository root)")
    got = specific()
    if "--print" in sys.argv:
        print("specific:", got)
    check(got == EXPECTED_SPECIFIC, f"specific digest {got}")
    got = generic_suite()
    if "--print" in sys.argv:
        print("generic:", got)
    for k, v in EXPECTED_GENERIC.items():
        check(got[k] == v, f"generic digest {k}: {got[k]}")
    if FAILURES:
        print(f"FAIL ({len(FAILURES)} problems)")
        sys.exit(1)
    print("PASS")


if __name__ == "__main__":
    main()
