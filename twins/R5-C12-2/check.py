"""Behaviour check for rv.modules.module.Visualization sub-field accessors."""
import random
import sys

import rv.api  # noqa: F401  (resolves the package import cycle first)
from rv.modules.module import LevelMode, Orientation, OscilloscopeMode, Visualization
from rv.modules.amplifier import Amplifier

failures = []


def check(cond, msg):
    if not cond:
        failures.append(msg)


# name -> (shift, mask, enum or None, kind)
FIELDS = {
    "level_mode": (0, 0b11111, LevelMode, "mask"),
    "orientation": (5, 1, Orientation, "intmask"),
    "oscilloscope_mode": (8, 0b11111, OscilloscopeMode, "intmask"),
    "oscilloscope_size": (16, 0xFF, None, "clamp"),
    "bg_transparency": (24, 3, None, "clamp"),
    "shadow_opacity": (26, 3, None, "clamp"),
}


def ref_get(word, name):
    shift, mask, enum, _ = FIELDS[name]
    raw = word >> shift & mask
    return enum(raw) if enum else raw  # ValueError for undefined members


def ref_set(word, name, v):
    shift, mask, enum, kind = FIELDS[name]
    old = int(ref_get(word, name))
    if kind == "mask":
        new = v & mask
    elif kind == "intmask":
        new = int(v) & mask
    else:
        new = max(0, min(v, mask))
    return word - (old << shift) + (new << shift)


def outcome(fn):
    try:
        return ("ok", fn())
    except Exception as e:  # noqa: BLE001
        return ("err", type(e))


rng = random.Random(1212)


def valid_word():
    return (
        rng.randrange(5)
        | rng.randrange(2) << 5
        | rng.randrange(4) << 6  # bits not owned by any field
        | rng.randrange(8) << 8
        | rng.randrange(8) << 13
        | rng.randrange(256) << 16
        | rng.randrange(4) << 24
        | rng.randrange(4) << 26
        | rng.randrange(16) << 28
    )


words = [0, 0x000C0101, 0x0FFF0724, 0xFFFFFFFF & ~0x1F1F | 0x0704] + [
    valid_word() for _ in range(300)
]
arbitrary_words = [0xFFFFFFFF, 0x1F, 0x1F00, 0x0505, 0x0805] + [
    rng.randrange(1 << 32) for _ in range(200)
]

values = {
    "level_mode": list(range(40)) + list(LevelMode) + [True, 255, 256 + 3, -1],
    "orientation": list(range(6)) + list(Orientation) + [True, False, "1", 1.9, -1],
    "oscilloscope_mode": list(range(40)) + list(OscilloscopeMode) + ["7", 2.5, -3],
    "oscilloscope_size": list(range(256)) + [-1, -100, 256, 1000, True],
    "bg_transparency": list(range(-3, 9)) + [True, 100],
    "shadow_opacity": list(range(-3, 9)) + [False, 100],
}

# 1. valid old words: set -> get returns value; other fields unchanged
for word in words:
    for name, vals in values.items():
        for v in vals:
            vis = Visualization(word)
            before = {n: getattr(vis, n) for n in FIELDS}
            got = outcome(lambda: setattr(vis, name, v))
            want = outcome(lambda: ref_set(word, name, v))
            if want[0] == "err":
                check(got == want, f"{name}={v!r} on {word:#x}: {got} != {want}")
                check(vis.value == word, "word unchanged after failed set")
                continue
            check(got[0] == "ok", f"{name}={v!r} on {word:#x} raised {got}")
            check(vis.value == want[1], f"{name}={v!r} on {word:#x}: {vis.value:#x}")
            check(type(vis.value) is int, "word stays a plain int")
            check(int(vis) == vis.value, "__int__")
            for other in FIELDS:
                if other == name:
                    continue
                check(
                    outcome(lambda: getattr(vis, other)) == ("ok", before[other]),
                    f"{other} changed by setting {name}={v!r} on {word:#x}",
                )
            got_read = outcome(lambda: getattr(vis, name))
            want_read = outcome(lambda: ref_get(want[1], name))
            check(got_read == want_read, f"read back {name} {v!r}")
            if want_read[0] == "ok" and FIELDS[name][2]:
                check(type(got_read[1]) is FIELDS[name][2], "enum type")

# 2. arbitrary old words, including undefined enum members: same outcome as model
for word in arbitrary_words:
    for name in FIELDS:
        vis = Visualization(word)
        check(
            outcome(lambda: getattr(vis, name)) == outcome(lambda: ref_get(word, name)),
            f"get {name} on {word:#x}",
        )
        for v in rng.sample(values[name], 6):
            vis = Visualization(word)
            got = outcome(lambda: setattr(vis, name, v))
            want = outcome(lambda: ref_set(word, name, v))
            if want[0] == "err":
                check(got == want, f"arb {name}={v!r} on {word:#x}: {got} != {want}")
                check(vis.value == word, "word unchanged after failed set")
            else:
                check(got[0] == "ok" and vis.value == want[1], f"arb {name}={v!r} {word:#x}")

# 3. bad value types
for name, bad, exc in (
    ("level_mode", None, TypeError),
    ("level_mode", "1", TypeError),
    ("level_mode", 1.0, TypeError),
    ("orientation", None, TypeError),
    ("orientation", "x", ValueError),
    ("oscilloscope_mode", None, TypeError),
    ("oscilloscope_mode", "lines", ValueError),
    ("oscilloscope_size", None, TypeError),
    ("oscilloscope_size", "9", TypeError),
    ("oscilloscope_size", 12.5, TypeError),
    ("bg_transparency", None, TypeError),
    ("bg_transparency", 1.5, TypeError),
    ("shadow_opacity", None, TypeError),
    ("shadow_opacity", 2.5, TypeError),
):
    vis = Visualization(0x000C0101)
    got = outcome(lambda: setattr(vis, name, bad))
    check(got == ("err", exc), f"{name}={bad!r}: {got}")
    check(vis.value == 0x000C0101, "unchanged after bad value")
# floats beyond the clamp limits collapse to the int limits and are accepted
vis = Visualization(0x000C0101)
vis.oscilloscope_size = 1e9
check(vis.oscilloscope_size == 255 and type(vis.value) is int, "float above limit")
vis.bg_transparency = -0.5
check(vis.bg_transparency == 0, "float below zero")

# 4. repeated history of sets on one object
vis = Visualization(0x000C0101)
model = 0x000C0101
for _ in range(3000):
    name = rng.choice(list(FIELDS))
    shift, mask, enum, kind = FIELDS[name]
    v = rng.choice(list(enum)) if enum else rng.randrange(-5, mask + 6)
    setattr(vis, name, v)
    model = ref_set(model, name, v)
    check(vis.value == model, "history")
    expected = v if enum else max(0, min(v, mask))
    check(getattr(vis, name) == expected, "history read")

# 5. through a Module: property returns a fresh wrapper over the stored word
m = Amplifier()
check(int(m.visualization) == 0x000C0101, "default word")
check(m.visualization.level_mode is LevelMode.mono, "default level mode")
check(m.visualization.oscilloscope_mode is OscilloscopeMode.points, "default osc mode")
check(m.visualization.oscilloscope_size == 0x0C, "default size")
v = m.visualization
v.oscilloscope_size = 40
v.level_mode = LevelMode.glow
check(int(m.visualization) == 0x000C0101, "module word not written through wrapper")
m.visualization = int(v)
check(m.visualization.oscilloscope_size == 40, "stored size")
check(m.visualization.level_mode is LevelMode.glow, "stored level mode")
check(sorted(vars(Visualization(5))) == ["value"], "instance state is just value")

if failures:
    print("FAIL", len(failures), failures[:10])
    sys.exit(1)
print("PASS")
