"""Behaviour check for MetaModule chunk loading / attachment (C15, refactoring 2).

Exercises MetaModule.load_chunk (dispatch on CHNM), load_project, load_label,
mapping loading, recompute_controller_attachment and the chnk property, both
directly with hand-made Chunk objects and through complete save/load round
trips of nested MetaModules (stand-alone and inside a project).

Run from the repository root:
    PYTHONPATH=<root>/src/python python check.py
"""
import hashlib
import io
import sys
from pathlib import Path
from struct import pack

from rv.api import Project, Synth, m, read_sunvox_file
from rv.modules import Chunk
from rv.modules.metamodule import MAX_USER_DEFINED_CONTROLLERS, MetaModule

FAILURES = []


def check(cond, what):
    if not cond:
        FAILURES.append(what)
        print("FAIL:", what[:300])


def raises(exc_type, fn, what):
    try:
        fn()
    except exc_type as e:
        if type(e) is not exc_type:
            check(False, f"{what}: raised {type(e).__name__}")
    except Exception as e:  # noqa
        check(False, f"{what}: raised {type(e).__name__} instead")
    else:
        check(False, f"{what}: nothing raised")


def make_chunk(chnm, chdt):
    chunk = Chunk()
    chunk.chnm = chnm
    chunk.chdt = chdt
    return chunk


def attach_state(mm):
    return [c.attached(mm) for c in mm.user_defined]


def expected_state(n):
    n = max(0, min(n, 96))
    return [True] * n + [False] * (96 - n)


# --------------------------------------------------------------------------
def attachment_checks():
    check(MAX_USER_DEFINED_CONTROLLERS == 96, "96 slots")
    mm = MetaModule()
    check(mm.chnk == 104, "chnk is 8 + 96")
    check(attach_state(mm) == expected_state(0), "fresh module: nothing attached")
    # through the option setter (which triggers the recompute callback)
    for n in list(range(0, 97)) + [50, 3, 96, 0, 1]:
        mm.user_defined_controllers = n
        check(mm.user_defined_controllers == n, f"count stored {n}")
        check(attach_state(mm) == expected_state(n), f"attach state for {n}")
        exposed = [
            name for name, c in mm.controllers.items() if c.attached(mm)
        ]
        wanted = ["volume", "input_module", "play_patterns", "bpm", "tpl"]
        wanted += [f"user_defined_{i + 1}" for i in range(n)]
        check(exposed == wanted, f"exposed controller names for {n}")
    # the option clamps out of range requests
    for n, clamped in ((200, 96), (-4, 0), (97, 96)):
        mm.user_defined_controllers = n
        check(mm.user_defined_controllers == clamped, f"clamp {n}")
        check(attach_state(mm) == expected_state(clamped), f"attach after clamp {n}")
    # keyword construction
    for n in (0, 1, 17, 96):
        mm = MetaModule(user_defined_controllers=n)
        check(attach_state(mm) == expected_state(n), f"constructor count {n}")
    # option value changed behind the setter's back, then explicit recompute
    mm = MetaModule(user_defined_controllers=10)
    for raw, wanted in ((4, 4), (0, 0), (96, 96), (150, 96), (255, 96), (-1, 0), (-200, 0)):
        mm.option_values["user_defined_controllers"] = raw
        mm.recompute_controller_attachment()
        check(attach_state(mm) == expected_state(wanted), f"raw option value {raw}")
    mm.option_values["user_defined_controllers"] = True
    mm.recompute_controller_attachment()
    check(attach_state(mm) == expected_state(1), "bool count behaves as 1")
    for bad in (2.5, None, "3"):
        mm.option_values["user_defined_controllers"] = bad
        raises(TypeError, mm.recompute_controller_attachment, f"count {bad!r}")
    # a shortened slot list is simply walked as far as it goes
    mm = MetaModule()
    mm.user_defined = mm.user_defined[:10]
    mm.option_values["user_defined_controllers"] = 4
    mm.recompute_controller_attachment()
    check(attach_state(mm) == [True] * 4 + [False] * 6, "short slot list")
    # attach / detach are idempotent and independent of earlier state
    mm = MetaModule(user_defined_controllers=96)
    mm.user_defined_controllers = 2
    mm.user_defined[50].attach(mm)
    mm.user_defined[0].detach(mm)
    mm.recompute_controller_attachment()
    check(attach_state(mm) == expected_state(2), "recompute repairs stray state")


# --------------------------------------------------------------------------
def embedded_project_bytes(name):
    p = Project()
    p.name = name
    p.new_module(m.Generator)
    return p.read()


def dispatch_checks():
    mm = MetaModule(user_defined_controllers=3)
    original_project = mm.project

    # CHNM 0: embedded project
    mm.load_chunk(make_chunk(0, embedded_project_bytes("embedded one")))
    check(mm.project is not original_project, "project replaced")
    check(mm.project.name == "embedded one", "project name loaded")
    check(type(mm.project.modules[1]) is m.Generator, "embedded module loaded")
    check(mm.project.metamodule is None, "loaded project has no back reference")
    mm.load_project(make_chunk(0, embedded_project_bytes("embedded two")))
    check(mm.project.name == "embedded two", "load_project directly")

    # CHNM 1: mappings (short, exact, over-long payloads)
    pairs = [(1, 2), (3, 4), (65535, 0)]
    mm.load_chunk(make_chunk(1, b"".join(pack("<HH", *p) for p in pairs)))
    got = [(x.module, x.controller) for x in mm.mappings.values]
    check(got == pairs + [(0, 0)] * 93, "short mapping payload padded to 96")
    full = [(i, 96 - i) for i in range(96)]
    mm.load_chunk(make_chunk(1, b"".join(pack("<HH", *p) for p in full)))
    got = [(x.module, x.controller) for x in mm.mappings.values]
    check(got == full, "full mapping payload")
    longer = full + [(7, 7), (8, 8)]
    mm.load_chunk(make_chunk(1, b"".join(pack("<HH", *p) for p in longer) + b"\x01"))
    got = [(x.module, x.controller) for x in mm.mappings.values]
    check(got == longer, "over-long mapping payload kept as is")
    mm.load_chunk(make_chunk(1, b""))
    got = [(x.module, x.controller) for x in mm.mappings.values]
    check(got == [(0, 0)] * 96, "empty mapping payload resets")
    values_before = mm.mappings.values
    mm.load_chunk(make_chunk(1, pack("<HH", 5, 6)))
    check(mm.mappings.values is not values_before, "mapping list rebuilt")
    check(mm.mappings.bytes[:4] == pack("<HH", 5, 6), "mapping bytes readable")

    # CHNM 2: options
    check(MetaModule.options_chnm == 2, "options chunk number")
    before = attach_state(mm)
    mm.load_chunk(make_chunk(2, bytes([7, 1, 0, 1, 2, 0, 0, 0])))
    check(mm.user_defined_controllers == 7, "option count loaded")
    check(mm.arpeggiator is True, "arpeggiator option loaded")
    check(mm.event_output is False, "inverted option loaded")
    check(mm.do_not_receive_notes_from_keyboard is True, "bit 1 option loaded")
    check(attach_state(mm) == before, "loading options alone does not re-attach")
    mm.recompute_controller_attachment()
    check(attach_state(mm) == expected_state(7), "explicit recompute after options")

    # CHNM 3..7: ignored
    snapshot = (
        mm.project,
        list(mm.mappings.values),
        dict(mm.option_values),
        [c.label for c in mm.user_defined],
    )
    for chnm in (3, 4, 5, 6, 7):
        mm.load_chunk(make_chunk(chnm, b"whatever\0"))
    check(
        snapshot
        == (
            mm.project,
            list(mm.mappings.values),
            dict(mm.option_values),
            [c.label for c in mm.user_defined],
        ),
        "chunks 3..7 are ignored",
    )

    # CHNM 8+: labels
    cases = [
        (8, b"First\0", "First"),
        (9, b"no terminator", "no terminator"),
        (10, b"cut\0here\0again", "cut"),
        (11, b"\0hidden", ""),
        (12, b"", ""),
        (13, "ünï".encode("utf-8") + b"\0\0\0", "ünï"),
        (50, b"middle\0", "middle"),
        (103, b"last\0", "last"),
    ]
    for chnm, payload, _ in cases:
        mm.load_chunk(make_chunk(chnm, payload))
    for chnm, _, wanted in cases:
        got = mm.user_defined[chnm - 8].label
        check(got == wanted, f"label chunk {chnm}: {got!r}")
    untouched = set(range(96)) - {c[0] - 8 for c in cases}
    check(all(mm.user_defined[i].label is None for i in untouched), "other labels")
    mm.load_chunk(make_chunk(8, b"Second\0"))
    check(mm.user_defined[0].label == "Second", "label overwritten")
    mm.load_label(make_chunk(9, bytearray(b"ba\0x")))
    check(mm.user_defined[1].label == "ba", "bytearray payload")
    # labels load regardless of attach state (slot 95 is detached here)
    check(not mm.user_defined[95].attached(mm), "slot 95 detached")
    raises(IndexError, lambda: mm.load_chunk(make_chunk(104, b"x\0")), "chunk 104")
    raises(IndexError, lambda: mm.load_chunk(make_chunk(4000, b"x\0")), "chunk 4000")
    raises(TypeError, lambda: mm.load_chunk(make_chunk(None, b"x\0")), "chunk None")
    raises(TypeError, lambda: mm.load_chunk(make_chunk(8, None)), "label w/o data")
    raises(
        UnicodeDecodeError,
        lambda: mm.load_chunk(make_chunk(8, b"\xff\xfe\0")),
        "bad utf-8",
    )
    check(mm.user_defined[0].label == "Second", "failed loads leave label alone")
    # direct call with a low number wraps around like list indexing does
    mm.load_label(make_chunk(7, b"wrapped\0"))
    check(mm.user_defined[95].label == "wrapped", "load_label(7) -> last slot")
    # a float chunk number equal to an int still dispatches
    mm.load_chunk(make_chunk(1.0, pack("<HH", 9, 9)))
    check(mm.mappings.values[0].module == 9, "1.0 dispatches to mappings")


def subclass_checks():
    """options_chnm takes precedence over the fixed numbers."""
    from rv.modules import MODULE_CLASSES

    registered = MODULE_CLASSES["MetaModule"]
    try:
        _subclass_checks()
    finally:
        # defining a subclass re-registers the "MetaModule" type; undo that
        MODULE_CLASSES["MetaModule"] = registered


def _subclass_checks():
    calls = []

    class Probe(MetaModule):
        options_chnm = 0

        def load_options(self, chunk):
            calls.append(("options", chunk.chnm))

        def load_project(self, chunk):
            calls.append(("project", chunk.chnm))

        def load_label(self, chunk):
            calls.append(("label", chunk.chnm))

    probe = Probe()
    for chnm in (0, 1, 2, 8, 9):
        probe.load_chunk(make_chunk(chnm, pack("<HH", 1, 1)))
    check(
        calls == [("options", 0), ("label", 8), ("label", 9)],
        f"subclass dispatch: {calls}",
    )
    check(probe.mappings.values[0].module == 1, "mappings still loaded in subclass")

    calls.clear()

    class Probe9(Probe):
        options_chnm = 9

    probe = Probe9()
    for chnm in (0, 9, 10):
        probe.load_chunk(make_chunk(chnm, b"abc"))
    check(
        calls == [("project", 0), ("options", 9), ("label", 10)],
        f"options number in the label range: {calls}",
    )


# --------------------------------------------------------------------------
TARGETS = [("gen", 0), ("gen", 1), ("amp", 1), ("amp", 3), ("gen", 13), ("amp", 2)]


def build_metamodule(count, depth=0):
    inner = Project()
    inner.name = f"inner-{count}-{depth}"
    gen = inner.new_module(m.AnalogGenerator)
    amp = inner.new_module(m.Amplifier)
    gen >> amp >> inner.output
    if depth:
        inner.attach_module(build_metamodule(max(count - 1, 0), depth - 1))
    mm = MetaModule(project=inner, name=f"mm {count}/{depth}")
    mm.user_defined_controllers = count
    mods = {"gen": gen, "amp": amp}
    for i in range(count):
        modname, ctl = TARGETS[i % len(TARGETS)]
        mm.mappings.values[i].module = mods[modname].index
        mm.mappings.values[i].controller = ctl
        if i % 4 != 2:
            mm.user_defined[i].label = f"L{i} ñ"
    mm.update_user_defined_controllers()
    for i in range(count):
        t = mm.user_defined[i].value_type
        if hasattr(t, "min") and hasattr(t, "max"):
            value = t.min + (i * 11 + 1) % (t.max - t.min + 1)
            mm.controller_values[f"user_defined_{i + 1}"] = value
    return mm


def snapshot(mm):
    count = mm.user_defined_controllers
    return {
        "count": count,
        "name": mm.name,
        "labels": [c.label for c in mm.user_defined],
        "attached": attach_state(mm),
        "mappings": [(x.module, x.controller) for x in mm.mappings.values],
        "values": [repr(getattr(mm, f"user_defined_{i + 1}")) for i in range(count)],
        "types": [repr(mm.user_defined[i].value_type) for i in range(count)],
        "project": mm.project.name,
        "modules": [
            None if x is None else (x.mtype, x.name, list(x.in_links))
            for x in mm.project.modules
        ],
        "nested": [
            snapshot(x) for x in mm.project.modules if isinstance(x, MetaModule)
        ],
    }


def roundtrip_checks():
    digest = hashlib.sha256()
    for count in (0, 1, 2, 4, 9, 33, 96):
        for depth in (0, 1, 3):
            if count > 9 and depth == 3:
                continue
            tag = f"count={count} depth={depth}"
            mm = build_metamodule(count, depth)
            before = snapshot(mm)
            data = Synth(mm).read()
            digest.update(data)
            loaded = read_sunvox_file(io.BytesIO(data)).module
            check(snapshot(loaded) == before, f"stand-alone round trip ({tag})")
            check(Synth(loaded).read() == data, f"stand-alone byte stable ({tag})")
            check(loaded.clone() is not loaded, "clone gives a new module")
            check(snapshot(loaded.clone()) == before, f"clone ({tag})")

            outer = Project()
            outer.attach_module(mm)
            mm >> outer.output
            pdata = outer.read()
            digest.update(pdata)
            reloaded = read_sunvox_file(io.BytesIO(pdata))
            check(snapshot(reloaded.modules[1]) == before, f"in-project ({tag})")
            check(reloaded.read() == pdata, f"in-project byte stable ({tag})")
    root = Path.cwd() / "tests" / "files"
    names = sorted(p.name for p in root.glob("metamodule*.sunsynth"))
    check(len(names) == 4, "metamodule fixtures found (run from repository root)")
    for name in names:
        synth = read_sunvox_file(str(root / name))
        digest.update(synth.read())
        digest.update(repr(snapshot(synth.module)).encode())
    return digest.hexdigest()


EXPECTED_DIGEST = "795217a0e557b102b0a3e1105dc2f95f263208cd92958320dc58da5df02eafae"


def main():
    attachment_checks()
    dispatch_checks()
    digest = roundtrip_checks()
    subclass_checks()
    if "--print-digests" in sys.argv:
        print(digest)
    check(digest == EXPECTED_DIGEST, f"round trip digest {digest}")
    if FAILURES:
        print(f"{len(FAILURES)} check(s) failed")
        sys.exit(1)
    print("PASS")


if __name__ == "__main__":
    main()
