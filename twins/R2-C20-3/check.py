"""Behaviour check for MultiCtl.macro and the Mapping / MappingArray codec
(property C20).

Builds MultiCtls with the macro helper for every controller of every module
type and for random multi-target bundles, and compares the created module
(mappings, gain, links, placement, initial fan-out) with a frozen reference
model; checks the two MappingError refusals and their precedence; and checks
that the 16x8 mapping table encodes / decodes byte-for-byte as before.
"""
import io
import random
import struct
import sys
from enum import Enum

import rv.api as rv
from rv.controller import CompactRange, Controller, Range
from rv.errors import MappingError
from rv.modules import MODULE_CLASSES
from rv.modules.multictl import MultiCtl

rng = random.Random(3020)
failures = []
FIELDS = ("min", "max", "controller", "flags",
          "future_use2", "future_use3", "future_use4", "future_use5")
DEFAULT_ROW = (0, 0x8000, 0, 0, 0, 0, 0, 0)


def expect(cond, msg):
    if not cond:
        failures.append(msg)
        if len(failures) > 25:
            report()


def report():
    for f in failures:
        print("FAIL:", f)
    sys.exit(1)


def ref_row_and_gain(mod, ctl):
    """Frozen copy of the macro's per-destination rules."""
    t = ctl.instance_value_type(mod)
    if isinstance(t, type) and issubclass(t, Enum):
        mapmin, mapmax = 0, len(t) - 1
        gain = 256 + int(256 / mapmax)
    elif t is bool:
        mapmin, mapmax = 0, 1
        gain = 512
    elif t.min == 1:
        mapmin, mapmax = t.min, t.max
        gain = 256 + int(256 / mapmax)
    elif isinstance(t, CompactRange):
        mapmin, mapmax = 0, (t.max - t.min)
        gain = 256
    else:
        mapmin, mapmax = 0, 0x8000
        gain = 256
    return (mapmin, mapmax, ctl.number, 0, 0, 0, 0, 0), gain


def ref_gain(gains):
    gains = set(gains)
    return list(gains).pop() if gains and len(gains) == 1 else 256


def rows(mc):
    return [tuple(getattr(m, f) for f in FIELDS) for m in mc.mappings.values]


def check_bundle(label, proj, mc, pairs, expected_rows, expected_gain, **placed):
    expect(type(mc) is MultiCtl, f"{label}: type {type(mc)}")
    expect(mc.parent is proj and proj.modules[mc.index] is mc, f"{label}: not attached")
    got = rows(mc)
    expect(len(got) == 16, f"{label}: {len(got)} mapping rows")
    want = list(expected_rows) + [DEFAULT_ROW] * (16 - len(expected_rows))
    expect(got == want, f"{label}: rows {got[:len(expected_rows) + 1]} != {want[:len(expected_rows) + 1]}")
    expect(all(set(vars(m)) == set(FIELDS) for m in mc.mappings.values), f"{label}: mapping attrs")
    expect(mc.gain == expected_gain, f"{label}: gain {mc.gain} != {expected_gain}")
    expect(mc.out_links == [mod.index for mod, _ in pairs], f"{label}: links {mc.out_links}")
    for mod, _ in pairs:
        expect(mc.index in mod.in_links, f"{label}: {mod.mtype} lacks in-link")
    for key, val in placed.items():
        expect(getattr(mc, key) == val, f"{label}: {key}={getattr(mc, key)!r} != {val!r}")
    flat = [x for row in want for x in row]
    expect(mc.mappings.encoded_values == flat, f"{label}: encoded_values")
    expect(mc.mappings.bytes == struct.pack("<128I", *flat), f"{label}: bytes")


# ------------------------------------------------------------ A. one target:
# every controller of every module type, by name and by Controller object
kinds = set()
for mname, cls in sorted(MODULE_CLASSES.items()):
    proj = rv.Project()
    target = proj.new_module(cls)
    for cname, ctl in target.controllers.items():
        row, gain = ref_row_and_gain(target, ctl)
        kinds.add((row[0], row[1] if row[1] in (1, 0x8000) else "n", gain in (256, 512)))
        by_name = rng.random() < 0.5
        count = len(proj.modules)
        mc = MultiCtl.macro(proj, (target, cname if by_name else ctl))
        expect(len(proj.modules) == count + 1, f"{mname}.{cname}: module count")
        check_bundle(f"{mname}.{cname}", proj, mc, [(target, ctl)], [row], gain,
                     name="MultiCtl", layer=0, x=0, y=0, value=0, quantization=32768)
        expect(row[2] == list(target.controllers).index(cname) + 1, f"{mname}.{cname}: number")
expect(len(kinds) >= 5, f"value type kinds covered: {sorted(map(str, kinds))}")

# ------------------------------------------------------------ B. bundles of
# 0..16 random targets, placement keywords, initial value fan-out
CLASSES = [c for n, c in sorted(MODULE_CLASSES.items()) if n not in ("MetaModule", "Output")]
for trial in range(150):
    proj = rv.Project()
    n = rng.choice([0, 1, 2, 3, 5, 8, 15, 16])
    pool = [rv.m.Amplifier, rv.m.MultiSynth] if trial % 5 == 0 else CLASSES
    mods = [proj.new_module(rng.choice(pool)) for _ in range(n)]
    pairs, expected_rows, gains = [], [], []
    for mod in mods:
        cname = rng.choice(list(mod.controllers)) if trial % 5 else \
            {"Amplifier": "volume", "MultiSynth": "transpose"}[mod.mtype]
        ctl = mod.controllers[cname]
        pairs.append((mod, ctl))
        row, gain = ref_row_and_gain(mod, ctl)
        expected_rows.append(row)
        gains.append(gain)
    args = [(mod, ctl.name if rng.random() < 0.5 else ctl) for mod, ctl in pairs]
    kw = {}
    if trial % 2:
        kw = dict(name=f"bundle {trial}", layer=rng.randint(0, 7),
                  x=rng.randint(-500, 500), y=rng.randint(-500, 500))
    initial = rng.choice([None, 0, 1, 12345, 32768])
    before = [dict(mod.controller_values) for mod in mods]
    mc = MultiCtl.macro(proj, *args, initial=initial, **kw)
    placed = dict(kw) if kw else dict(name="MultiCtl", layer=0, x=0, y=0)
    placed["value"] = 0 if initial is None else initial
    check_bundle(f"bundle {trial} n={n}", proj, mc, pairs, expected_rows, ref_gain(gains), **placed)
    # what arrived at the targets must be what re-sending the same value delivers
    arrived = [dict(mod.controller_values) for mod in mods]
    if initial is None:
        expect(arrived == before, f"bundle {trial}: targets changed without initial")
    else:
        mc.value = initial
        expect([dict(mod.controller_values) for mod in mods] == arrived,
               f"bundle {trial}: initial fan-out differs from a later send")
        for (mod, ctl), was in zip(pairs, before):
            vt = ctl.value_type
            now = mod.controller_values[ctl.name]
            if isinstance(vt, Range):
                expect(vt.min <= now <= vt.max, f"bundle {trial}: {mod.mtype}.{ctl.name}={now}")
            else:
                expect(now == was[ctl.name], f"bundle {trial}: non-range target changed")
    # the bundle survives a write / read cycle
    if trial % 10 == 0:
        buf = io.BytesIO()
        proj.write_to(buf)
        buf.seek(0)
        again = rv.read_sunvox_file(buf)
        twin = again.modules[mc.index]
        expect(rows(twin) == rows(mc) and twin.gain == mc.gain
               and twin.out_links == mc.out_links, f"bundle {trial}: round trip")

# specific, literal expectations
proj = rv.Project()
amp, gen, filt, ms = (proj.new_module(c) for c in
                      (rv.m.Amplifier, rv.m.Generator, rv.m.Filter, rv.m.MultiSynth))
mc = MultiCtl.macro(proj, (amp, "volume"), (gen, "volume"), initial=16384)
expect(rows(mc)[:2] == [(0, 32768, 1, 0, 0, 0, 0, 0), (0, 32768, 1, 0, 0, 0, 0, 0)], "literal rows")
expect((mc.gain, amp.volume, gen.volume) == (256, 512, 128), f"literal: {(mc.gain, amp.volume, gen.volume)}")
mc2 = MultiCtl.macro(proj, (filt, "type"))
expect(rows(mc2)[0][:3] == (0, len(type(filt.type)) - 1, filt.controllers["type"].number), "enum row")
expect(mc2.gain == 256 + int(256 / (len(type(filt.type)) - 1)), f"enum gain {mc2.gain}")
mc3 = MultiCtl.macro(proj, (ms, "transpose"))
expect(rows(mc3)[0][:3] == (0, 256, 1) and mc3.gain == 256, "compact row")
boolean = next((m, c) for m in (amp, gen, filt, ms) for c in m.controllers.values()
               if c.value_type is bool)
proj_b = rv.Project()
tgt = proj_b.new_module(type(boolean[0]))
mc4 = MultiCtl.macro(proj_b, (tgt, boolean[1].name))
expect(rows(mc4)[0][:2] == (0, 1) and mc4.gain == 512, "bool row")
# mixed gains fall back to 256; agreeing non-default gains are kept
proj_c = rv.Project()
t1, t2 = proj_c.new_module(type(boolean[0])), proj_c.new_module(type(boolean[0]))
mc5 = MultiCtl.macro(proj_c, (t1, boolean[1].name), (t2, boolean[1].name))
expect(mc5.gain == 512, "agreeing gains kept")
t3, t4 = proj_c.new_module(type(boolean[0])), proj_c.new_module(rv.m.Amplifier)
mc6 = MultiCtl.macro(proj_c, (t3, boolean[1].name), (t4, "volume"))
expect(mc6.gain == 256, "disagreeing gains fall back")

# ------------------------------------------------------------ C. refusals
def refused(label, message, proj, *args):
    count = len(proj.modules)
    links = [list(m.in_links) for m in proj.modules if m is not None]
    try:
        MultiCtl.macro(proj, *args)
    except MappingError as exc:
        expect(isinstance(exc, ValueError), f"{label}: MappingError is a ValueError")
        expect(str(exc) == message, f"{label}: message {exc}")
    except Exception as exc:  # noqa
        expect(False, f"{label}: raised {exc!r} instead of MappingError")
    else:
        expect(False, f"{label}: not refused")
    expect(len(proj.modules) == count, f"{label}: a module was created")
    expect([list(m.in_links) for m in proj.modules if m is not None] == links, f"{label}: links changed")


TOO_MANY = "MultiCtl supports max of 16 destinations"
TWICE = "Only one MultiCtl mapping per destination module allowed"
proj = rv.Project()
amps = [proj.new_module(rv.m.Amplifier) for _ in range(18)]
refused("17 targets", TOO_MANY, proj, *[(a, "volume") for a in amps[:17]])
refused("18 targets", TOO_MANY, proj, *[(a, "balance") for a in amps])
refused("same module twice", TWICE, proj, (amps[0], "volume"), (amps[0], "balance"))
refused("same module, same ctl", TWICE, proj, (amps[0], "volume"), (amps[1], "volume"), (amps[0], "volume"))
refused("16 with a repeat", TWICE, proj, *[(a, "volume") for a in amps[:15]], (amps[3], "balance"))
refused("17 with repeats: count first", TOO_MANY, proj, *[(amps[0], "volume")] * 17)
# count is checked before the pairs are even looked at
refused("17 bogus pairs", TOO_MANY, proj, *[(None, None)] * 17)
ok = MultiCtl.macro(proj, *[(a, "volume") for a in amps[:16]])
expect(len(ok.out_links) == 16 and rows(ok)[15][2] == 1, "exactly 16 is accepted")
# unknown controller names keep raising KeyError, before anything is created
count = len(proj.modules)
for bad_args, exc_type in [
    (((amps[0], "volume"), (amps[1], "no_such_controller")), KeyError),
    (((amps[0], "no_such_controller"), (amps[0], "volume")), KeyError),
    (((rv.m.Amplifier(), "volume"),), TypeError),  # detached: index is None
]:
    try:
        MultiCtl.macro(proj, *bad_args)
    except exc_type:
        pass
    except Exception as exc:  # noqa
        expect(False, f"bad args {bad_args}: raised {exc!r}, expected {exc_type.__name__}")
    else:
        expect(False, f"bad args {bad_args}: no error")
expect(len(proj.modules) == count, "failed macros must not create modules")

# ------------------------------------------------------------ D. Mapping codec
m = MultiCtl.Mapping((1, 2, 3, 4, 5, 6, 7, 8))
expect(vars(m) == dict(zip(FIELDS, range(1, 9))), "Mapping from tuple")
m = MultiCtl.Mapping(list(range(10, 22)))
expect(vars(m) == dict(zip(FIELDS, range(10, 18))), "Mapping ignores extras beyond 8")
for short in [(), (1, 2, 3), (1, 2, 3, 4, 5, 6, 7)]:
    try:
        MultiCtl.Mapping(short)
    except ValueError:
        pass
    else:
        expect(False, f"Mapping{short} should raise ValueError")
arr = MultiCtl.MappingArray()
expect((arr.chnm, arr.length, arr.type, arr.element_size) == (0, 16, "IIIIIIII", 32), "array layout")
expect(arr.python_type is MultiCtl.Mapping, "python_type")
expect([tuple(getattr(v, f) for f in FIELDS) for v in arr.values] == [DEFAULT_ROW] * 16, "defaults")
expect(len({id(v) for v in arr.values}) == 16, "default rows are distinct objects")
expect(arr.bytes == struct.pack("<128I", *(DEFAULT_ROW * 16)), "default bytes")
table = [tuple(rng.randint(0, 2**32 - 1) for _ in range(8)) for _ in range(16)]
raw = struct.pack("<128I", *[x for row in table for x in row])
arr.bytes = raw
expect([tuple(getattr(v, f) for f in FIELDS) for v in arr.values] == table, "decode")
expect(arr.encoded_values == [x for row in table for x in row], "encoded_values order")
expect(isinstance(arr.encoded_values, list), "encoded_values is a list")
expect(arr.bytes == raw and arr.chdt() == raw, "re-encode")
arr.reset()
expect(arr.bytes == struct.pack("<128I", *(DEFAULT_ROW * 16)), "reset")
ctor = MultiCtl(mappings=[(5, 6, 7, 1, 0, 0, 0, 9), [1, 2, 3, 0, 0, 0, 0, 0]])
expect(rows(ctor)[:3] == [(5, 6, 7, 1, 0, 0, 0, 9), (1, 2, 3, 0, 0, 0, 0, 0), DEFAULT_ROW], "ctor mappings")

if failures:
    report()
print("PASS")
