"""C16 check 3: Sampler instrument record (legacy envelope fields, samples_num), legacy detection and envelope upgrade."""
import hashlib
import io
import logging
import random
import struct

from rv.modules import Chunk
from rv.modules.sampler import Sampler, _StructReader, _StructWriter
from rv.note import NOTE
from rv.readers.reader import read_sunvox_file
from rv.synth import Synth

logging.disable(logging.CRITICAL)

FORMATS = [Sampler.Format.int8, Sampler.Format.int16, Sampler.Format.float32]
CHANNELS = [Sampler.Channels.mono, Sampler.Channels.stereo]
LOOPS = list(Sampler.LoopType)


def sha(b):
    return hashlib.sha256(b).hexdigest()[:16]


def build(seed, with_effect=False):
    rnd = random.Random(seed)
    mod = Sampler()
    slots = sorted(rnd.sample(range(128), rnd.choice([0, 1, 2, 5, 9])))
    if seed % 4 == 1:
        slots = sorted(set(slots) | {0, 127})
    for n, i in enumerate(slots):
        s = mod.samples[i] = Sampler.Sample()
        s.format = FORMATS[(seed + n) % 3]
        s.channels = CHANNELS[(seed + n // 3) % 2]
        frames = rnd.choice([0, 1, 3, 17])
        s.data = bytes(rnd.randrange(256) for _ in range(frames * s.frame_size))
        s.rate = rnd.choice([0, 8000, 44100, 48000, 2**32 - 1])
        s.loop_start = rnd.choice([0, 1, 2**32 - 1])
        s.loop_len = rnd.choice([0, 7, 2**32 - 1])
        s.loop_type = LOOPS[(seed + n) % 3]
        s.loop_sustain = bool(rnd.getrandbits(1))
        s.volume = rnd.choice([0, 64, 255])
        s.finetune = rnd.choice([-128, -1, 0, 100, 127])
        s.panning = rnd.choice([-128, -1, 0, 1, 127])
        s.relative_note = rnd.choice([-128, 0, 16, 127])
        s.reserved2 = rnd.choice([0, 255])
        s.name = rnd.choice([b"", b"x", b"a" * 22, b"name with space", b"\xff\x01z"])
        s.start_pos = rnd.choice([0, 5, 2**32 - 1])
    envs = [mod.volume_envelope, mod.panning_envelope, mod.pitch_envelope]
    envs += mod.effect_control_envelopes
    for env in envs:
        lo, hi = env.range
        count = rnd.choice([0, 1, 2, 4, 12, 13, 40])
        xs = sorted(rnd.randrange(0, 0x10000) for _ in range(count))
        env.points = [(x, rnd.choice([lo, hi, rnd.randrange(lo, hi + 1)])) for x in xs]
        env.enable = bool(rnd.getrandbits(1))
        env.sustain = bool(rnd.getrandbits(1))
        env.loop = bool(rnd.getrandbits(1))
        env.sustain_point = rnd.choice([0, 1, 11, 255])
        env.loop_start_point = rnd.choice([0, 2, 255])
        env.loop_end_point = rnd.choice([0, 3, 255])
        env.ctl_index = rnd.choice([0, 1, 255])
        env.gain_pct = rnd.choice([0, 100, 255])
        env.velocity = rnd.choice([0, 1, 255])
    keys = list(mod.note_samples)
    for k in keys:
        mod.note_samples[k] = rnd.choice([0, 0, 1, 5, 127, 255])
    if seed % 3 == 0:
        mod.note_samples[keys[-1]] = 9  # no trailing zeros
    mod.vibrato_type = list(Sampler.VibratoType)[seed % 3]
    mod.vibrato_attack = rnd.choice([0, 9, 255])
    mod.vibrato_depth = rnd.choice([0, 9, 255])
    mod.vibrato_rate = rnd.choice([0, 9, 63])
    mod.volume_fadeout = rnd.choice([0, 77, 8192])
    mod.instrument_name = rnd.choice([b"", b"ins", b"q" * 30])
    mod.volume_old = rnd.choice([0, 64, 255])
    mod.ins_finetune = rnd.choice([-128, 0, 127])
    mod.ins_relative_note = rnd.choice([-128, 0, 127])
    mod.editor_cursor = rnd.choice([0, -1, 12345, 2**31 - 1, -(2**31)])
    mod.editor_selected_size = rnd.choice([0, -7, 99, 2**31 - 1])
    mod.unused1 = rnd.choice([0, 2**32 - 1])
    mod.unused2 = rnd.choice([0, 0xFFFF])
    mod.unused3 = rnd.choice([0, 0xABCD])
    mod.unused4 = rnd.choice([0, 0xDEADBEEF])
    mod.unused5 = rnd.choice([0, 0xEE])
    mod.unused6 = rnd.choice([0, 0x12345678])
    if with_effect:
        from rv.modules.distortion import Distortion

        mod.effect = Synth(Distortion())
    return mod


def env_state(env):
    return (
        list(env.points),
        env.enable,
        env.sustain,
        env.loop,
        env.sustain_point,
        env.loop_start_point,
        env.loop_end_point,
        env.ctl_index,
        env.gain_pct,
        env.velocity,
        env.loaded,
    )


def sample_state(s):
    if s is None:
        return None
    return (
        s.data,
        s._length,
        s.format,
        s.channels,
        s.rate,
        s.loop_start,
        s.loop_len,
        s.loop_type,
        s.loop_sustain,
        s.volume,
        s.finetune,
        s.panning,
        s.relative_note,
        s.reserved2,
        s.name,
        s.start_pos,
    )


def state(mod):
    return (
        [sample_state(s) for s in mod.samples],
        env_state(mod.volume_envelope),
        env_state(mod.panning_envelope),
        env_state(mod.pitch_envelope),
        [env_state(e) for e in mod.effect_control_envelopes],
        list(mod.note_samples.items()),
        mod.vibrato_type,
        mod.vibrato_attack,
        mod.vibrato_depth,
        mod.vibrato_rate,
        mod.volume_fadeout,
        mod.instrument_name,
        mod.volume_old,
        mod.ins_finetune,
        mod.ins_relative_note,
        mod.editor_cursor,
        mod.editor_selected_size,
        (mod.unused1, mod.unused2, mod.unused3, mod.unused4, mod.unused5, mod.unused6),
        mod.version,
        mod.max_version,
        mod.is_legacy,
        None if mod.legacy_chunks is None else len(mod.legacy_chunks),
        None if mod.effect is None else type(mod.effect.module).__name__,
    )


def chunk_list(mod):
    return list(mod.specialized_iff_chunks())


def mk_chunk(chnm, chdt, chff=0, chfr=44100):
    c = Chunk()
    c.chnm, c.chdt, c.chff, c.chfr = chnm, chdt, chff, chfr
    return c


def raises(exc, fn, *a):
    try:
        fn(*a)
    except exc:
        return True
    except Exception as e:  # pragma: no cover
        raise AssertionError(f"expected {exc}, got {type(e)}: {e}")
    raise AssertionError(f"expected {exc}, nothing raised")


def roundtrip_observations(obs, seeds):
    """Write programmatically built samplers, read them back, pin bytes and state."""
    for seed in seeds:
        mod = build(seed, with_effect=(seed % 5 == 2))
        raw = Synth(mod).read()
        mod2 = read_sunvox_file(io.BytesIO(raw)).module
        obs["rt%d.bytes" % seed] = sha(raw)
        obs["rt%d.state" % seed] = sha(repr(state(mod2)).encode())
        assert Synth(mod2).read() == raw, seed
        clone = mod.clone()
        assert state(clone) == state(mod2), seed
        # the property, field by field
        for i, (a, b) in enumerate(zip(mod.samples, mod2.samples)):
            assert (a is None) == (b is None), (seed, i)
            if a is None:
                continue
            sa, sb = sample_state(a), sample_state(b)
            assert sa[0] == sb[0] and sa[2:] == sb[2:], (seed, i, sa, sb)
            assert b._length == a.frames == b.frames
        env_pairs = [
            (mod.volume_envelope, mod2.volume_envelope),
            (mod.panning_envelope, mod2.panning_envelope),
            (mod.pitch_envelope, mod2.pitch_envelope),
        ] + list(zip(mod.effect_control_envelopes, mod2.effect_control_envelopes))
        for a, b in env_pairs:
            assert env_state(a)[:-1] == env_state(b)[:-1], seed
            assert b.loaded is True
            assert type(a) is type(b) and a.chnm == b.chnm
        fields = "vibrato_type vibrato_attack vibrato_depth vibrato_rate volume_fadeout "
        fields += "volume_old ins_finetune ins_relative_note editor_cursor "
        fields += "editor_selected_size unused1 unused2 unused3 unused4 unused5 unused6"
        for name in fields.split():
            assert getattr(mod, name) == getattr(mod2, name), (seed, name)
        assert mod2.instrument_name == mod.instrument_name[:22]
        assert mod2.is_legacy is False and mod2.legacy_chunks is None
        assert (mod.effect is None) == (mod2.effect is None)
        # note map: trailing zero entries are not overwritten by the 128-byte map
        # but the 96-byte legacy map covers the first 96 notes anyway.
        a, b = list(mod.note_samples.values()), list(mod2.note_samples.values())
        assert len(b) == 119
        stripped = len(bytes(a).rstrip(b"\0"))
        assert b[:max(96, stripped)] == a[:max(96, stripped)], seed
        obs["rt%d.map" % seed] = sha(bytes(b))


def h(obj):
    return sha(repr(obj).encode())


REC_LEN = 0x190
OFF_SAMPLES_NUM = 0x1C
OFF_VOL_POINTS = 0x84
OFF_PAN_POINTS = 0xB4
OFF_COUNTS = 0xE4  # vol n, pan n, vol s/ls/le, pan s/ls/le, vol type, pan type
OFF_SIGN = 0xFC


def record_of(mod):
    (k1, v1), (k2, rec) = mod.global_config_chunks()
    assert (k1, v1, k2) == (b"CHNM", b"\0\0\0\0", b"CHDT")
    assert len(rec) == REC_LEN and type(rec) is bytes
    return rec


def legacy_load(rec, extra=(), with_envelopes=()):
    """Feed an instrument record (and nothing newer) to a fresh Sampler."""
    mod = Sampler()
    mod.load_chunk(mk_chunk(0, rec))
    for c in extra:
        mod.load_chunk(c)
    for chnm, chdt in with_envelopes:
        mod.load_chunk(mk_chunk(chnm, chdt))
    mod.finalize_load()
    return mod


def samples_num_observations(obs):
    acc = []
    cases = [[], [0], [127], [0, 127], [5], [5, 6, 90], list(range(128)), [63, 64]]
    rnd = random.Random(3)
    cases += [sorted(rnd.sample(range(128), rnd.randrange(1, 20))) for _ in range(20)]
    for slots in cases:
        mod = Sampler()
        for i in slots:
            mod.samples[i] = Sampler.Sample()
        rec = record_of(mod)
        (n,) = struct.unpack_from("<H", rec, OFF_SAMPLES_NUM)
        assert n == (max(slots) + 1 if slots else 0), slots
        assert len(mod.samples) == 128
        assert [i for i, s in enumerate(mod.samples) if s is not None] == slots
        acc.append(n)
    for length in (0, 1, 3, 200):  # the slot list is an ordinary list
        mod = Sampler()
        mod.samples = [None] * length
        assert struct.unpack_from("<H", record_of(mod), OFF_SAMPLES_NUM) == (0,)
        if length:
            mod.samples[0] = Sampler.Sample()
            assert struct.unpack_from("<H", record_of(mod), OFF_SAMPLES_NUM) == (1,)
            mod.samples[-1] = Sampler.Sample()
            assert struct.unpack_from("<H", record_of(mod), OFF_SAMPLES_NUM) == (length,)
            assert len(mod.samples) == length
    mod = Sampler()
    mod.samples = [0, False, None]  # only None counts as empty
    assert struct.unpack_from("<H", record_of(mod), OFF_SAMPLES_NUM) == (2,)
    obs["rec.samples_num"] = h(acc)


def record_layout_observations(obs):
    acc = []
    for seed in range(30, 50):
        mod = build(seed)
        for env in (mod.volume_envelope, mod.panning_envelope):
            env.points = env.points[:255]
            lo = env.range[0]
            # old record cannot hold y below the range floor
            env.points = [(x, max(y, lo)) for x, y in env.points]
        rec = record_of(mod)
        vol, pan = mod.volume_envelope, mod.panning_envelope
        assert rec[OFF_VOL_POINTS:OFF_PAN_POINTS] == vol.point_bytes
        assert rec[OFF_PAN_POINTS:OFF_COUNTS] == pan.point_bytes
        assert rec[OFF_COUNTS:OFF_COUNTS + 10] == bytes([
            len(vol.points), len(pan.points),
            vol.sustain_point, vol.loop_start_point, vol.loop_end_point,
            pan.sustain_point, pan.loop_start_point, pan.loop_end_point,
            vol.bitmask, pan.bitmask,
        ])
        assert rec[OFF_SIGN:OFF_SIGN + 4] == b"PMAS"
        for env, off in ((vol, OFF_VOL_POINTS), (pan, OFF_PAN_POINTS)):
            words = struct.unpack_from("<24H", rec, off)
            for i, (x, y) in enumerate(env.points[:12]):
                assert words[2 * i] == x
                assert words[2 * i + 1] == y // 0x200 - env.range[0] // 0x200
        acc.append(rec)
        # loading the record keeps the old-layout values on the side, untouched envelopes
        dst = Sampler()
        before = (env_state(dst.volume_envelope), env_state(dst.panning_envelope))
        dst.load_instrument(mk_chunk(0, rec))
        assert (env_state(dst.volume_envelope), env_state(dst.panning_envelope)) == before
        for src_env, env, off in ((vol, dst.volume_envelope, OFF_VOL_POINTS),
                                  (pan, dst.panning_envelope, OFF_PAN_POINTS)):
            assert env._legacy_point_bytes == rec[off:off + 48]
            assert env._legacy_active_points == len(src_env.points)
            assert env._legacy_sustain_point == src_env.sustain_point
            assert env._legacy_loop_start_point == src_env.loop_start_point
            assert env._legacy_loop_end_point == src_env.loop_end_point
            assert env._legacy_bitmask == src_env.bitmask
        assert dst.pitch_envelope._legacy_point_bytes is None
        assert dst.is_legacy is False and dst.legacy_chunks is None
    obs["rec.bytes"] = h(acc)
    # writer failure modes for the paired fields
    for which in ("volume_envelope", "panning_envelope"):
        for attr, value in [("sustain_point", 256), ("loop_start_point", -1),
                            ("loop_end_point", 256)]:
            mod = Sampler()
            setattr(getattr(mod, which), attr, value)
            raises(struct.error, list, mod.global_config_chunks())
        mod = Sampler()
        getattr(mod, which).points = [(0, 0)] * 256
        raises(struct.error, list, mod.global_config_chunks())
        mod = Sampler()
        getattr(mod, which).points = [(0x10000, 0)]
        raises(struct.error, list, mod.global_config_chunks())


def upgrade_observations(obs):
    acc = []
    for seed in range(50, 90):
        src = build(seed)
        rnd = random.Random(seed)
        for env in (src.volume_envelope, src.panning_envelope):
            count = rnd.choice([0, 1, 2, 5, 11, 12])
            lo, hi = env.range
            env.points = [(rnd.randrange(0x10000), rnd.randrange(lo, hi + 1))
                          for _ in range(count)]
            if count:
                env.points[-1] = (0xFFFF, hi)
                env.points[0] = (0, lo)
        rec = record_of(src)
        extra = [mk_chunk(k, v) for k, v in []]
        dst = legacy_load(rec)
        assert dst.is_legacy is False and dst.legacy_chunks is None
        for a, b in ((src.volume_envelope, dst.volume_envelope),
                     (src.panning_envelope, dst.panning_envelope)):
            lo = a.range[0]
            # y survives quantised to 0x200 steps above the range floor
            want = [(x, (y // 0x200 - lo // 0x200) * 0x200 + lo) for x, y in a.points]
            assert b.points == want, (seed, b.points, want)
            assert all(type(p) is tuple and len(p) == 2 for p in b.points)
            assert (b.enable, b.sustain, b.loop) == (a.enable, a.sustain, a.loop)
            assert all(type(v) is bool for v in (b.enable, b.sustain, b.loop))
            assert (b.sustain_point, b.loop_start_point, b.loop_end_point) == (
                a.sustain_point, a.loop_start_point, a.loop_end_point)
            # not part of the old record: stay at defaults; still flagged as not loaded
            assert (b.ctl_index, b.gain_pct, b.velocity, b.loaded) == (0, 100, 0, False)
        fresh = Sampler()
        assert env_state(dst.pitch_envelope) == env_state(fresh.pitch_envelope)
        assert [env_state(e) for e in dst.effect_control_envelopes] == [
            env_state(e) for e in fresh.effect_control_envelopes]
        acc.append((env_state(dst.volume_envelope), env_state(dst.panning_envelope)))
        # saving the upgraded instrument and loading it again changes nothing more
        again = dst.clone()
        assert env_state(again.volume_envelope)[:-1] == env_state(dst.volume_envelope)[:-1]
        assert env_state(again.panning_envelope)[:-1] == env_state(dst.panning_envelope)[:-1]
        assert again.volume_envelope.loaded is True
        # an envelope chunk for the volume envelope suppresses the upgrade altogether
        vol_chdt = list(src.volume_envelope.chunks())[1][1]
        kept = legacy_load(rec, with_envelopes=[(0x102, vol_chdt)])
        assert env_state(kept.volume_envelope)[:-1] == env_state(src.volume_envelope)[:-1]
        assert env_state(kept.panning_envelope) == env_state(fresh.panning_envelope)
        # ...but a panning chunk alone does not
        pan_chdt = list(src.panning_envelope.chunks())[1][1]
        mixed = legacy_load(rec, with_envelopes=[(0x103, pan_chdt)])
        assert env_state(mixed.volume_envelope) == env_state(dst.volume_envelope)
        assert mixed.panning_envelope.points == dst.panning_envelope.points
        assert mixed.panning_envelope.loaded is True
    obs["upg.envs"] = h(acc)
    # more active points than the 12 slots: conversion fails, nothing half-assigned
    for which, off in (("vol", OFF_COUNTS), ("pan", OFF_COUNTS + 1)):
        for count in (13, 40, 255):
            rec = bytearray(record_of(Sampler()))
            rec[off] = count
            rec[OFF_COUNTS + 8] = 7  # vol type
            rec[OFF_COUNTS + 9] = 5  # pan type
            mod = Sampler()
            mod.load_chunk(mk_chunk(0, bytes(rec)))
            raises(struct.error, mod.finalize_load)
            assert mod.volume_envelope.points == Sampler.VolumeEnvelope.initial_points
            assert mod.panning_envelope.points == Sampler.PanningEnvelope.initial_points
            assert mod.volume_envelope.bitmask == 7 and mod.panning_envelope.bitmask == 5
    rec = bytearray(record_of(Sampler()))
    rec[OFF_COUNTS] = 12
    rec[OFF_COUNTS + 1] = 0
    mod = legacy_load(bytes(rec))
    assert mod.volume_envelope.points == [(0, 0x8000), (8, 0), (0x80, 0), (0x100, 0)] + [(0, 0)] * 8
    assert mod.panning_envelope.points == []
    # never saw an instrument record at all
    raises(TypeError, Sampler().finalize_load)
    raises(TypeError, Sampler()._upgrade_envelopes)


def legacy_file_observations(obs):
    # old signature, or an over-long record: chunks are kept and replayed verbatim
    src = build(91)
    src.volume_envelope.points = src.volume_envelope.points[:12]
    src.panning_envelope.points = src.panning_envelope.points[:12]
    lo = src.panning_envelope.range[0]
    rec = record_of(src)
    smp = Sampler.Sample()
    smp.data, smp.format, smp.channels = b"\x01\x02\x03\x04", Sampler.Format.int16, Sampler.Channels.mono
    sample_chunks = list(src.sample_chunks(9, smp))
    extra = [mk_chunk(19, sample_chunks[1][1]), mk_chunk(20, smp.data, 2, 22050)]
    acc = []
    variants = {
        "oldsign": rec[:OFF_SIGN] + b"\0\0\0\0" + rec[OFF_SIGN + 4:],
        "badsign": rec[:OFF_SIGN] + b"SAMP" + rec[OFF_SIGN + 4:],
        "long": rec + b"\0",
        "longer": rec + bytes(range(100)),
        "short_sign": rec[:OFF_SIGN + 2],
    }
    for name, data in variants.items():
        if name == "short_sign":
            mod = Sampler()
            raises(RuntimeError, mod.load_chunk, mk_chunk(0, data))
            assert mod.is_legacy is True and len(mod.legacy_chunks) == 1
            continue
        mod = legacy_load(data, extra)
        assert mod.is_legacy is True, name
        assert [c.chnm for c in mod.legacy_chunks] == [0, 19, 20]
        assert mod.samples[9].data == smp.data and mod.samples[9].rate == 22050
        out = chunk_list(mod)
        assert out == [
            (b"CHNM", b"\0\0\0\0"), (b"CHDT", data),
            (b"CHFF", b"\0\0\0\0"), (b"CHFR", struct.pack("<I", 44100)),
            (b"CHNM", struct.pack("<I", 19)), (b"CHDT", sample_chunks[1][1]),
            (b"CHFF", b"\0\0\0\0"), (b"CHFR", struct.pack("<I", 44100)),
            (b"CHNM", struct.pack("<I", 20)), (b"CHDT", smp.data),
            (b"CHFF", b"\x02\0\0\0"), (b"CHFR", struct.pack("<I", 22050)),
        ], name
        assert mod.volume_envelope.loaded is False
        assert mod.volume_envelope.sustain_point == src.volume_envelope.sustain_point
        acc.append((name, env_state(mod.volume_envelope), env_state(mod.panning_envelope),
                    mod.editor_cursor, mod.editor_selected_size, mod.max_version))
        again = mod.clone()
        assert again.is_legacy is True and len(again.legacy_chunks) == 3
        assert env_state(again.volume_envelope) == env_state(mod.volume_envelope)
        assert env_state(again.panning_envelope) == env_state(mod.panning_envelope)
        assert again.samples[9].data == smp.data
        assert Synth(again).read() == Synth(mod).read()
    obs["leg.variants"] = h(acc)
    # exactly 0x190 bytes with the right signature is the current layout
    mod = legacy_load(rec, extra)
    assert mod.is_legacy is False and mod.legacy_chunks is None
    # a second, current record after a legacy one does not clear the flag
    mod = Sampler()
    mod.load_chunk(mk_chunk(0, variants["oldsign"]))
    mod.load_chunk(mk_chunk(0, rec))
    assert mod.is_legacy is True and len(mod.legacy_chunks) == 2
    # truncated current-layout records: trailing editor fields fall back to defaults
    for cut, want in [(0x184, (6, 0, 0)), (0x188, (src.max_version, 0, 0)),
                      (0x18C, (src.max_version, src.editor_cursor, 0)),
                      (0x18F, (src.max_version, src.editor_cursor, 0))]:
        mod = Sampler()
        mod.load_chunk(mk_chunk(0, rec[:cut]))
        assert (mod.max_version, mod.editor_cursor, mod.editor_selected_size) == want
        assert mod.is_legacy is False
    raises(RuntimeError, Sampler().load_chunk, mk_chunk(0, rec[:0x102]))
    # the shipped fixture
    with open("tests/files/sampler.sunsynth", "rb") as f:
        raw = f.read()
    fx = read_sunvox_file(io.BytesIO(raw)).module
    obs["fixture.state"] = h(state(fx))
    obs["fixture.bytes"] = sha(Synth(fx).read())
    fx_chunks = fx.legacy_chunks
    if fx_chunks is not None:
        # the same file without its envelope chunks: the old record's envelopes are used
        stripped = Sampler()
        for c in fx_chunks:
            if not (0x102 <= c.chnm <= 0x108):
                stripped.load_chunk(c)
        stripped.finalize_load()
        obs["fixture.stripped"] = h(state(stripped))
        obs["fixture.stripped.bytes"] = h(chunk_list(stripped))
        assert stripped.volume_envelope.loaded is False
        assert [s is None for s in stripped.samples] == [s is None for s in fx.samples]


def observations(obs):
    samples_num_observations(obs)
    record_layout_observations(obs)
    upgrade_observations(obs)
    legacy_file_observations(obs)
    roundtrip_observations(obs, range(22, 32))


GOLDEN = {'rec.samples_num': 'c766529daa167c32',
 'rec.bytes': '73e57cd9f775bb78',
 'upg.envs': '737b2163717ae8f4',
 'leg.variants': 'cb3aaee2a692fff2',
 'fixture.state': '74b4c05497afebc2',
 'fixture.bytes': '3b0f2915c2ec0456',
 'rt22.bytes': '3ea5ee17a7db9b4e',
 'rt22.state': '51254d64710bda90',
 'rt22.map': '6ea2f25f844f4195',
 'rt23.bytes': 'd13fd6fdfea74855',
 'rt23.state': '962305c863a62841',
 'rt23.map': '09f9ee4cfb8d6887',
 'rt24.bytes': '8f81ba0b2a0a180d',
 'rt24.state': '23f47a8bcdaf499d',
 'rt24.map': 'be6a5196f8032a89',
 'rt25.bytes': 'a54d757f1909c91c',
 'rt25.state': '96b3a50a8c7fd90d',
 'rt25.map': '310d3272742112e7',
 'rt26.bytes': '29668f3fa2d0dd2f',
 'rt26.state': 'a555a02ef556f15c',
 'rt26.map': '034c6f04136e833c',
 'rt27.bytes': '6ee5188917f17e27',
 'rt27.state': '1d0b2f6cd63f2ddb',
 'rt27.map': 'f1ea6382d126c539',
 'rt28.bytes': '2169c68c54729d4e',
 'rt28.state': 'de7cb308e1f5f5c0',
 'rt28.map': '8bddc69692a09642',
 'rt29.bytes': 'd94ce19bd729708b',
 'rt29.state': '8cab4b89c01533a8',
 'rt29.map': '23006d56db858e80',
 'rt30.bytes': '482997e2d87d3246',
 'rt30.state': 'f6c06d57e3fe751d',
 'rt30.map': '62a028a18bc96af6',
 'rt31.bytes': '4eaed1f7bb920047',
 'rt31.state': '3a23094810e54979',
 'rt31.map': '9bde0a95736f660d'}


def main():
    obs = {}
    observations(obs)
    import os

    if os.environ.get("C16_RECORD"):
        import pprint

        pprint.pprint(obs, width=100, sort_dicts=False)
        return
    bad = [(k, v, GOLDEN.get(k)) for k, v in obs.items() if GOLDEN.get(k) != v]
    missing = [k for k in GOLDEN if k not in obs]
    if bad or missing:
        for item in bad:
            print("MISMATCH", *item)
        print("FAIL", missing)
        raise SystemExit(1)
    print("PASS (%d observations)" % len(obs))


if __name__ == "__main__":
    main()
