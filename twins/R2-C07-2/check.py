"""Behaviour check for the >>, << and ~ operator sugar (C07-2).

Drives Module / ModuleList / DisconnectingModule through the operators and
compares the link tables with a reference model after every operation; also
checks what the operators return and how the ~ proxy forwards attributes.
"""
import random
import sys

from rv.api import Project, m
from rv.errors import ModuleOwnershipError
from rv.modules.module import DisconnectingModule, Module, ModuleList


class Model:
    def __init__(self, n):
        self.t = {i: dict(il=[], ils=[], ol=[], ols=[]) for i in range(n)}

    def apply(self, froms, tos):
        """froms / tos: lists of (index, marked)."""
        for f, fm in froms:
            for t, tm in tos:
                dst, src = self.t[t], self.t[f]
                if fm or tm:
                    if f not in dst["il"]:
                        continue
                    i = dst["il"].index(f)
                    o = src["ol"].index(t)
                    dst["il"][i] = src["ol"][o] = -1
                    dst["ils"][i] = src["ols"][o] = -1
                    continue
                if f in dst["il"]:
                    continue
                i, o = len(dst["il"]), len(src["ol"])
                dst["il"].append(f)
                src["ol"].append(t)
                dst["ils"].append(o)
                src["ols"].append(i)

    def snapshot(self):
        return [
            (v["il"], v["ils"], v["ol"], v["ols"]) for _, v in sorted(self.t.items())
        ]


def snapshot(project):
    return [
        (mod.in_links, mod.in_link_slots, mod.out_links, mod.out_link_slots)
        for mod in project.modules
    ]


def consistent(project):
    for mod in project.modules:
        assert len(mod.in_links) == len(mod.in_link_slots)
        assert len(mod.out_links) == len(mod.out_link_slots)
        for slot, (peer, peer_slot) in enumerate(zip(mod.in_links, mod.in_link_slots)):
            if peer == -1:
                assert peer_slot == -1
                continue
            src = project.modules[peer]
            assert src.out_links[peer_slot] == mod.index
            assert src.out_link_slots[peer_slot] == slot
        for slot, (peer, peer_slot) in enumerate(
            zip(mod.out_links, mod.out_link_slots)
        ):
            if peer == -1:
                assert peer_slot == -1
                continue
            dst = project.modules[peer]
            assert dst.in_links[peer_slot] == mod.index
            assert dst.in_link_slots[peer_slot] == slot


def new_project(n):
    p = Project()
    for _ in range(n - 1):
        p.new_module(m.Amplifier)
    return p


def check_result(project, result, rhs):
    if isinstance(rhs, list):
        assert type(result) is ModuleList
        assert result is not rhs
        assert result.parent is project
        assert list(result) == list(rhs)
        assert all(x is y for x, y in zip(result, rhs))
    else:
        assert result is rhs


def random_operator_histories(seed, rounds):
    rng = random.Random(seed)
    for _ in range(rounds):
        n = rng.randint(2, 6)
        p, model = new_project(n), Model(n)
        for _ in range(rng.randint(1, 12)):
            l_kind = rng.choice(["module", "modulelist"])
            r_kind = rng.choice(["module", "marked", "list", "marked_list", "modulelist"])
            l_idx = rng.sample(range(n), 1 if l_kind == "module" else rng.randint(0, n))
            if r_kind in ("module", "marked"):
                r_idx = rng.sample(range(n), 1)
            else:
                r_idx = rng.sample(range(n), rng.randint(0, n))
            if r_kind == "marked":
                r_marks = [1]
            elif r_kind == "marked_list":
                r_marks = [rng.randint(0, 1) for _ in r_idx]
            else:
                r_marks = [0] * len(r_idx)
            lhs_mods = [p.modules[i] for i in l_idx]
            lhs = lhs_mods[0] if l_kind == "module" else ModuleList(p, lhs_mods)
            rhs_mods = [~p.modules[i] if k else p.modules[i] for i, k in zip(r_idx, r_marks)]
            if r_kind in ("module", "marked"):
                rhs = rhs_mods[0]
            elif r_kind == "modulelist":
                rhs = ModuleList(p, rhs_mods)
            else:
                rhs = rhs_mods
            left = [(i, 0) for i in l_idx]
            right = list(zip(r_idx, r_marks))
            if rng.random() < 0.5:
                result = lhs >> rhs
                model.apply(left, right)
            else:
                result = lhs << rhs
                model.apply(right, left)
            check_result(p, result, rhs)
            assert snapshot(p) == model.snapshot(), (snapshot(p), model.snapshot())
            consistent(p)


def chains():
    p = new_project(6)
    o, a, b, c, d, e = p.modules
    assert (a >> b >> c >> o) is o
    assert [x.in_links for x in (o, a, b, c)] == [[3], [], [1], [2]]
    r = a >> [c, d] >> e
    assert r is e
    assert c.in_links == [2, 1] and d.in_links == [1] and e.in_links == [3, 4]
    assert a.out_links == [2, 3, 4] and a.out_link_slots == [0, 1, 0]
    assert e.in_link_slots == [1, 0]
    r = o << [d, e] << a
    assert r is a
    assert o.in_links == [3, 4, 5] and o.in_link_slots == [0, 1, 0]
    assert d.in_links == [1] and e.in_links == [3, 4, 1]  # a->d already there
    assert a.out_links == [2, 3, 4, 5] and a.out_link_slots == [0, 1, 0, 2]
    r = a >> [~c, d, ~e]
    assert type(r) is ModuleList and len(r) == 3
    assert isinstance(r[0], DisconnectingModule) and r[1] is d
    assert a.out_links == [2, -1, 4, -1] and a.out_link_slots == [0, -1, 0, -1]
    assert c.in_links == [2, -1] and e.in_links == [3, 4, -1]
    # the re-wrapped list keeps its ~ markers when chained further
    r2 = r >> o
    assert r2 is o
    assert o.in_links == [-1, 4, -1] and c.out_links == [-1, 5] and e.out_links == [-1]
    assert d.out_links == [5, 0] and d.in_links == [1]
    # chaining from a ~ proxy is not supported; nor is a plain list on the left
    for expr in (lambda: ~a >> b, lambda: ~a << b, lambda: [a, b] >> c, lambda: [a] << c):
        try:
            expr()
        except TypeError:
            pass
        else:
            raise AssertionError("expected TypeError")
    # ModuleList on both sides; empty lists
    r = ModuleList(p, [a, b]) >> ModuleList(p, [d, e])
    assert type(r) is ModuleList and r.parent is p
    assert d.in_links == [1, 2] and e.in_links == [3, 4, -1, 1, 2]
    empty = a >> []
    assert type(empty) is ModuleList and empty == [] and empty.parent is p
    assert (empty >> a) is a and (empty << a) is a
    consistent(p)
    # constructor variants of ModuleList
    assert ModuleList(p) == [] and ModuleList(p).parent is p
    assert ModuleList(p, (a, b)) == [a, b]
    assert isinstance(ModuleList(p, [a]), list)
    try:
        ModuleList()
    except TypeError:
        pass
    else:
        raise AssertionError("parent is required")


def proxy_behaviour():
    p = new_project(3)
    o, a, b = p.modules
    d = ~a
    assert type(d) is DisconnectingModule
    assert not isinstance(d, Module)
    assert d.orig is a and vars(d) == {"orig": a} and d.__dict__["orig"] is a
    assert ~d is a and ~~a is a
    assert (~a) is not (~a)
    assert DisconnectingModule(a).orig is a and DisconnectingModule(orig=a).orig is a
    # reads are forwarded
    assert d.index == a.index == 1 and d.parent is p
    assert d.in_links is a.in_links and d.out_link_slots is a.out_link_slots
    assert d.name == a.name and d.mtype == "Amplifier"
    assert d.volume == a.volume
    # writes are forwarded (even "orig")
    d.name = "renamed"
    d.volume = 77
    assert a.name == "renamed" and a.volume == 77 and "name" not in vars(d)
    d.orig = "shadow"
    assert d.orig is a and a.orig == "shadow"
    del a.__dict__["orig"]
    try:
        d.no_such_attribute
    except AttributeError:
        pass
    else:
        raise AssertionError("expected AttributeError")
    # a proxy around a proxy forwards twice but is unwrapped only once
    dd = DisconnectingModule(d)
    assert dd.orig is d and ~dd is d and dd.index == 1
    # a bare proxy without state fails with KeyError, as before
    bare = DisconnectingModule.__new__(DisconnectingModule)
    for probe in (lambda: bare.orig, lambda: bare.index, lambda: ~bare):
        try:
            probe()
        except KeyError:
            pass
        else:
            raise AssertionError("expected KeyError")
    try:
        bare.x = 1
    except KeyError:
        pass
    else:
        raise AssertionError("expected KeyError")
    # operators through the proxy
    a >> b
    assert b.in_links == [1]
    assert (b << ~a) is not a
    assert b.in_links == [-1] and a.out_links == [-1]
    a >> b
    res = a >> ~b
    assert type(res) is DisconnectingModule and res.orig is b
    assert b.in_links == [-1, -1] and a.out_links == [-1, -1]
    assert b.in_link_slots == [-1, -1] and a.out_link_slots == [-1, -1]


def errors():
    p, q = new_project(3), new_project(3)
    pa, pb = p.modules[1:]
    qa, qb = q.modules[1:]
    for expr in (
        lambda: pa >> qa,
        lambda: pa << qa,
        lambda: pa >> [pb, qa],
        lambda: pa >> ~qa,
        lambda: ModuleList(p, [pa]) >> qa,
        lambda: ModuleList(p, [qa]) >> pa,
        lambda: ModuleList(q, [pa]) >> pb,  # list's parent decides
    ):
        try:
            expr()
        except ModuleOwnershipError as e:
            assert e.args == (
                "Modules must have same parent to be connected or disconnected",
            )
        else:
            raise AssertionError("expected ModuleOwnershipError")
    assert pb.in_links == [1] and pa.out_links == [2]  # from pa >> [pb, qa]
    assert not qa.in_links and not qa.out_links and not qb.in_links
    loose, loose2 = m.Amplifier(), m.Amplifier()
    for expr in (lambda: loose >> loose2, lambda: loose << pa, lambda: loose >> []):
        try:
            expr()
        except AttributeError as e:
            assert "connect" in str(e)
        else:
            raise AssertionError("expected AttributeError")
    try:
        ModuleList(None, [pa]) >> pb
    except AttributeError:
        pass
    else:
        raise AssertionError("expected AttributeError")
    # argument order handed to Project.connect, and what comes back
    seen = []

    class Spy(Project):
        def connect(self, from_modules, to_modules):
            seen.append((from_modules, to_modules))
            return "ignored"

    s = Spy()
    x = s.new_module(m.Amplifier)
    y = s.new_module(m.Amplifier)
    lst = [y]
    ml = ModuleList(s, [x])
    assert (x >> y) is y and (x << y) is y
    r1, r2 = x >> lst, x << lst
    r3, r4 = ml >> y, ml << y
    r5 = ml >> lst
    assert seen[0] == (x, y) and seen[0][0] is x
    assert seen[1][0] is y and seen[1][1] is x
    assert seen[2][0] is x and seen[2][1] is lst
    assert seen[3][0] is lst and seen[3][1] is x
    assert seen[4][0] is ml and seen[4][1] is y
    assert seen[5][0] is y and seen[5][1] is ml
    assert seen[6][0] is ml and seen[6][1] is lst
    assert r3 is y and r4 is y
    for r in (r1, r2, r5):
        assert type(r) is ModuleList and r.parent is s and r == lst and r is not lst
    assert not y.in_links and not x.out_links


def main():
    random_operator_histories(99, 500)
    chains()
    proxy_behaviour()
    errors()
    print("PASS")


if __name__ == "__main__":
    main()
    sys.exit(0)
