"""Behaviour check for rv.modules.multictl.convert_value (property C20).

Compares the library function against a frozen reference copy of the
algorithm for a wide sweep of parameters (full 0..32768 value axis for a set
of sampled parameter tuples), and additionally checks the C20 property itself:
range containment and monotonicity of the delivered value.
"""
import random
import sys

from rv.modules.base.multictl import BaseMultiCtl
from rv.modules.multictl import convert_value


def reference(gain, qsteps, smin, smax, dmin, dmax, vmax, value, curve=None):
    value = (value * gain) / 256
    value = min(value, 32768)
    if curve is not None:
        bucket = int(value / 128)
        start = 128 * bucket
        offset = value - start
        b = curve[bucket]
        a = curve[bucket + 1] if bucket < 256 else b
        c = min(offset / 128, 1.0)
        value = int((c * a) + ((1.0 - c) * b))
    srange = smax - smin
    if qsteps < 32768:
        quant = max(qsteps - 1, 1)
        step = 32768 / quant
        value = int(value / step)
        value = (value * step) / 32768
        value = smin + int(srange * value)
    else:
        value = smin + (srange * value) // 32768
    drange = dmax - dmin
    if vmax is not None:
        value /= 32768 / vmax
    if drange > 0:
        value += dmin
    else:
        value = dmin - value
    return int(value)


failures = []


def expect(cond, msg):
    if not cond:
        failures.append(msg)
        if len(failures) > 20:
            report()


def report():
    for f in failures:
        print("FAIL:", f)
    sys.exit(1)


rng = random.Random(20)
DEFAULT_CURVE = list(BaseMultiCtl.curve_chunk.default)
assert len(DEFAULT_CURVE) == 257 and DEFAULT_CURVE[-1] == 32768


def monotone_curve():
    pts = sorted(rng.randint(0, 32768) for _ in range(257))
    return pts


def steppy_curve():
    pts, cur = [], 0
    for _ in range(257):
        if rng.random() < 0.1:
            cur = min(32768, cur + rng.randint(0, 6000))
        pts.append(cur)
    return pts


CURVES = [
    ("none", None),
    ("default", DEFAULT_CURVE),
    ("random-monotone", monotone_curve()),
    ("steppy", steppy_curve()),
    ("flat-zero", [0] * 257),
    ("flat-top", [32768] * 257),
]
NONMONO = [rng.randint(0, 32768) for _ in range(257)]

# 1. pinned literal values (taken from the project's own unit test)
PINNED = [
    (256, 2, 0, 32768, 0, 256, 0, 0),
    (128, 32768, 0, 32768, 0, 256, 24576, 96),
    (384, 32768, 0, 32768, 0, 256, 24576, 256),
    (1024, 32768, 0, 32768, 0, 256, 4096, 128),
    (256, 32768, 5000, 25000, 0, 256, 16384, 117),
    (256, 32768, 25000, 5000, 0, 256, 8192, 156),
    (128, 32768, 32768, 0, 0, 256, 8192, 224),
    (256, 3, 32768, 0, 0, 256, 16384, 128),
    (256, 7, 0, 32768, 0, 256, 8192, 42),
    (256, 20, 32768, 0, 0, 256, 24576, 67),
    (256, 61, 0, 32768, 0, 256, 24576, 192),
]
for gain, q, smin, smax, dmin, dmax, value, want in PINNED:
    got = convert_value(
        gain=gain, qsteps=q, smin=smin, smax=smax, dmin=dmin, dmax=dmax,
        vmax=abs(dmax - dmin), value=value,
    )
    expect(got == want, f"pinned {(gain, q, smin, smax, dmin, dmax, value)}: {got} != {want}")

# 2. full value axis for sampled parameter tuples, against the reference, plus
#    the property: containment in 0..span and monotonicity per orientation.
GAINS = [0, 1, 85, 128, 255, 256, 257, 341, 512, 1000, 1024]
QSTEPS = [0, 1, 2, 3, 7, 20, 61, 255, 1000, 32767, 32768]
WINDOWS = [(0, 32768), (0, 0), (32768, 32768), (5000, 25000), (1, 2), (12224, 23408),
           (0, 1), (16384, 16385), (7808, 19824)]
SPANS = [1, 2, 3, 7, 100, 255, 256, 511, 1000, 1024, 16384, 32768, 65535]

tuples = []
for _ in range(36):
    lo, hi = rng.choice(WINDOWS)
    span = rng.choice(SPANS)
    compact = rng.random() < 0.3
    tuples.append((rng.choice(GAINS), rng.choice(QSTEPS), lo, hi, span, compact,
                   rng.random() < 0.5, rng.choice(CURVES)))
for _ in range(12):
    lo = rng.randint(0, 32768)
    hi = rng.randint(lo, 32768)
    tuples.append((rng.randint(0, 1024), rng.randint(0, 32768), lo, hi,
                   rng.randint(1, 40000), False, rng.random() < 0.5, rng.choice(CURVES)))

for gain, q, lo, hi, span, compact, flipped, (cname, curve) in tuples:
    if compact:
        # CompactRange targets are not rescaled; the window must fit the span
        lo, hi = min(lo, span), min(hi, span)
        vmax = None
    else:
        vmax = span
    dmin, dmax = (span, 0) if flipped else (0, span)
    label = f"gain={gain} q={q} win={lo}..{hi} span={span} compact={compact} flipped={flipped} curve={cname}"
    prev = None
    for value in range(0, 32769):
        got = convert_value(gain, q, lo, hi, dmin, dmax, vmax, value, curve)
        want = reference(gain, q, lo, hi, dmin, dmax, vmax, value, curve)
        if got != want or type(got) is not int:
            expect(False, f"{label} value={value}: {got!r} != {want!r}")
            break
        if not 0 <= got <= span:
            expect(False, f"{label} value={value}: {got} outside 0..{span}")
            break
        if prev is not None and ((got > prev) if flipped else (got < prev)):
            expect(False, f"{label} value={value}: not monotone ({prev} -> {got})")
            break
        prev = got

# 3. random spot checks, including inputs outside the documented domain
#    (behaviour there must be preserved as well, whatever it is)
for _ in range(60000):
    gain = rng.choice([rng.randint(0, 1024), rng.randint(-300, 3000), rng.random() * 1024])
    q = rng.choice([rng.randint(0, 32768), rng.randint(-5, 70000)])
    smin, smax = rng.randint(-100, 40000), rng.randint(-100, 40000)
    dmin, dmax = rng.randint(-40000, 40000), rng.randint(-40000, 40000)
    vmax = rng.choice([None, abs(dmax - dmin) or 1, rng.randint(1, 70000), -rng.randint(1, 500)])
    value = rng.choice([rng.randint(0, 32768), rng.randint(0, 50000), rng.random() * 32768])
    curve = rng.choice([None, DEFAULT_CURVE, NONMONO, CURVES[2][1]])
    if curve is not None and value * gain < 0:
        gain = abs(gain)
    args = (gain, q, smin, smax, dmin, dmax, vmax, value, curve)
    got = convert_value(*args)
    want = reference(*args)
    expect(got == want and type(got) is type(want), f"spot {args[:8]}: {got!r} != {want!r}")

# 4. positional / keyword / default-curve calling conventions
expect(convert_value(256, 32768, 0, 32768, 0, 256, 256, 16384) == 128, "positional call")
expect(convert_value(256, 32768, 0, 32768, 0, 256, 256, 16384, None) == 128, "curve=None")
expect(convert_value(256, 32768, 0, 32768, 0, 256, 256, 16384, curve=DEFAULT_CURVE) == 128, "curve kw")
expect(convert_value(256, 32768, 0, 32768, 256, 0, 256, 16384, curve=tuple(DEFAULT_CURVE)) == 128, "tuple curve")
# exact end points of the curve, and saturation above full scale
for v, g in [(32768, 256), (32768, 1024), (32767, 256), (32640, 256), (32641, 256), (127, 256), (128, 256)]:
    for c in (DEFAULT_CURVE, NONMONO):
        a = (g, 32768, 0, 32768, 0, 32768, 32768, v, c)
        expect(convert_value(*a) == reference(*a), f"end point {a[:8]}")
# error behaviour: short curve, zero vmax
for bad, exc in [((256, 32768, 0, 32768, 0, 10, 10, 32768, [0, 1, 2]), IndexError),
                 ((256, 32768, 0, 32768, 0, 10, 0, 100, None), ZeroDivisionError),
                 ((256, 5, 0, 32768, 0, 10, 0, 100, DEFAULT_CURVE), ZeroDivisionError)]:
    try:
        convert_value(*bad)
    except exc:
        pass
    else:
        expect(False, f"expected {exc.__name__} for {bad[:8]}")

if failures:
    report()
print("PASS")
