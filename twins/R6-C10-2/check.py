"""Behaviour check for the Range family in rv/controller.py: to_raw_value /
from_raw_value for Range, WarnOnlyRange, CompactRange and NoOffsetRange, the
warn-only validation switch, pattern_value dispatch, DependentRange, and the
public names/signatures of the module.

Runs against whatever `rv` is importable via PYTHONPATH; prints PASS on success.
"""
import inspect
import logging
import sys
from enum import Enum

import rv.controller as rc
from rv.controller import (
    CompactRange,
    Controller,
    DependentRange,
    NoOffsetRange,
    Range,
    WarnOnlyRange,
)
from rv.errors import RangeValidationError
from rv.modules import MODULE_CLASSES

failures = []


def expect(cond, msg):
    if not cond:
        failures.append(msg)


def sample_values(lo, hi):
    if hi - lo <= 1024:
        return list(range(lo, hi + 1))
    vals = set(range(lo, lo + 200)) | set(range(hi - 200, hi + 1))
    vals |= set(range(lo, hi + 1, 101))
    if lo <= 0 <= hi:
        vals |= set(range(max(lo, -50), min(hi, 50) + 1))
    return sorted(vals)


def ref_raw(t, v):
    if isinstance(t, NoOffsetRange):
        return v
    return v - t.min if t.min < 0 else v


def ref_pattern(t, v):
    if not isinstance(t, Range):
        return v
    if isinstance(t, CompactRange):
        return v - t.min
    return int((v - t.min) / ((t.max - t.min) / 32768))


# --- 0. public surface is unchanged -------------------------------------------
for name in ("Controller", "Range", "WarnOnlyRange", "CompactRange", "NoOffsetRange",
             "DependentRange", "log"):
    expect(hasattr(rc, name), f"rv.controller.{name} missing")
expect(issubclass(WarnOnlyRange, Range) and issubclass(CompactRange, Range)
       and issubclass(NoOffsetRange, Range), "hierarchy")
expect(not issubclass(DependentRange, Range), "DependentRange is not a Range")
expect(list(inspect.signature(Range.__init__).parameters) == ["self", "min_value", "max_value"],
       "Range.__init__ signature")
expect(list(inspect.signature(Controller.__init__).parameters)
       == ["self", "value_type", "default", "attached"], "Controller.__init__ signature")
expect(inspect.signature(Controller.__init__).parameters["attached"].default is True,
       "attached default")
expect(list(inspect.signature(DependentRange.__init__).parameters)
       == ["self", "ctl_name", "range_map", "default"], "DependentRange.__init__ signature")
for cls in (Range, WarnOnlyRange, CompactRange, NoOffsetRange):
    for meth in ("to_raw_value", "from_raw_value", "validate", "__call__"):
        expect(callable(getattr(cls(0, 1), meth)), f"{cls.__name__}.{meth}")
expect(Controller.name is None and Controller.number is None, "class defaults")

# --- 1. raw encodings on synthetic ranges -------------------------------------
pairs = [(0, 256), (0, 1), (-128, 128), (1, 2048), (0, 32768), (-100, 100), (-1, 0),
         (-1, 1), (-32768, 32767), (5, 6), (-7, -2), (-4000, 4000), (0, 0), (-3, -3)]
for lo, hi in pairs:
    for cls in (Range, WarnOnlyRange, CompactRange, NoOffsetRange):
        t = cls(lo, hi)
        expect(t.min == lo and t.max == hi, "min/max attributes")
        expect(repr(t) == f"<{cls.__name__} {lo}..{hi}>", f"repr {t!r}")
        seen = {}
        for v in sample_values(lo, hi):
            raw = t.to_raw_value(v)
            expect(raw == ref_raw(t, v), f"{t!r}.to_raw_value({v}) = {raw}")
            expect(type(raw) is int, f"{t!r} raw type for {v}")
            expect(t.from_raw_value(raw) == v, f"{t!r} round trip {v}")
            expect(raw not in seen, f"{t!r} collision at raw {raw}")
            seen[raw] = v
            if cls is not NoOffsetRange:
                expect(raw >= 0 or lo >= 0, f"{t!r} negative raw {raw}")
        if cls is not NoOffsetRange and lo < 0:
            expect(t.to_raw_value(lo) == 0, f"{t!r} min stored as 0")
            expect(t.to_raw_value(hi) == hi - lo, f"{t!r} max stored as span")
            # values outside the range are still shifted the same way
            expect(t.from_raw_value(hi - lo + 5) == hi + 5, f"{t!r} from_raw beyond max")
            expect(t.from_raw_value(-3) == lo - 3, f"{t!r} from_raw below zero")
        else:
            expect(t.to_raw_value(lo) == lo and t.to_raw_value(hi) == hi, f"{t!r} identity")
            expect(t.from_raw_value(-3) == -3, f"{t!r} identity from_raw")

# identity cases keep the very object (bool / float are not coerced)
for t in (Range(0, 10), NoOffsetRange(-5, 5), WarnOnlyRange(1, 9), CompactRange(0, 3)):
    for v in (True, False, 2.5, 7):
        expect(t.to_raw_value(v) is v, f"{t!r}.to_raw_value keeps {v!r}")
        expect(t.from_raw_value(v) is v, f"{t!r}.from_raw_value keeps {v!r}")
# shifted cases with non-int operands
t = Range(-10, 10)
expect(t.to_raw_value(2.5) == 12.5 and t.from_raw_value(12.5) == 2.5, "float shift")
expect(t.to_raw_value(True) == 11 and type(t.to_raw_value(True)) is int, "bool shift")
expect(t.to_raw_value(-0.25) == 9.75, "negative float shift")
t = Range(-0.5, 10)
expect(t.to_raw_value(1) == 1.5 and t.from_raw_value(1.5) == 1.0, "fractional min shift")

# equality is by exact type and bounds
expect(Range(0, 1) == Range(0, 1) and Range(0, 1) != Range(0, 2), "eq bounds")
expect(Range(0, 1) != WarnOnlyRange(0, 1) and NoOffsetRange(-1, 1) != Range(-1, 1), "eq type")
expect(Range(0, 1) != (0, 1) and Range(0, 1) != None, "eq foreign")  # noqa: E711

# mutating min afterwards is honoured
t = Range(0, 10)
expect(t.to_raw_value(4) == 4, "before mutation")
t.min = -10
expect(t.to_raw_value(4) == 14 and t.from_raw_value(14) == 4, "after mutation")
n = NoOffsetRange(0, 10)
n.min = -10
expect(n.to_raw_value(4) == 4 and n.from_raw_value(14) == 14, "no-offset after mutation")


# subclasses behave like their base
class MyCompact(CompactRange):
    pass


class MyNoOffset(NoOffsetRange):
    pass


class MyWarn(WarnOnlyRange):
    pass


expect(MyCompact(-4, 4).to_raw_value(-1) == 3, "compact subclass raw")
expect(MyNoOffset(-4, 4).to_raw_value(-1) == -1, "no-offset subclass raw")
expect(MyNoOffset(-4, 4).from_raw_value(-1) == -1, "no-offset subclass from_raw")
fake = type("I", (), {"controllers_loaded": set(), "controller_values": {}})()
expect(Controller(MyCompact(-4, 4), 0).pattern_value(fake, 4) == 8, "compact subclass pattern")
expect(Controller(MyNoOffset(-4, 4), 0).pattern_value(fake, 4) == 0x8000, "no-offset pattern")
expect(Controller(MyWarn(0, 4), 0).pattern_value(fake, 1) == 0x2000, "warn subclass pattern")

# --- 2. validation: strict vs warn-only ---------------------------------------
records = []


class Catch(logging.Handler):
    def emit(self, record):
        records.append(record)


h = Catch()
rc.log.addHandler(h)
rc.log.setLevel(logging.WARNING)
rc.log.propagate = False
for cls in (Range, CompactRange, NoOffsetRange, MyCompact, MyNoOffset):
    r = cls(-5, 9)
    for v in (-5, 0, 9):
        expect(r(v) == v, "accept")
    for v in (-6, 10):
        try:
            r(v)
        except RangeValidationError as e:
            expect(e.args == (v, -5, 9), "error args")
        else:
            expect(False, f"{cls.__name__} must reject {v}")
expect(not records, "strict ranges never log")
for cls in (WarnOnlyRange, MyWarn):
    del records[:]
    w = cls(1, 4)
    expect(w(4) == 4 and w(1) == 1 and not records, "warn-only inside")
    expect(w(0) == 0 and w(5) == 5, "warn-only returns the value")
    expect(len(records) == 2, "warn-only logged twice")
    expect(records[0].getMessage() == str(RangeValidationError(0, 1, 4)), "warn text")
rc.log.removeHandler(h)

# --- 3. pattern_value ---------------------------------------------------------
for lo, hi in [(0, 256), (-128, 128), (1, 2048), (0, 32768), (0, 3), (1, 4000), (0, 44100)]:
    for cls in (Range, WarnOnlyRange, NoOffsetRange, CompactRange):
        ctl = Controller(cls(lo, hi), lo)
        for v in sample_values(lo, hi):
            pv = ctl.pattern_value(fake, v)
            if pv != ref_pattern(ctl.value_type, v) or type(pv) is not int:
                expect(False, f"pattern {cls.__name__}({lo},{hi}) v={v} -> {pv!r}")
                break
        expect(ctl.pattern_value(fake, lo) == 0, "min -> 0")
        want_max = hi - lo if cls is CompactRange else 0x8000
        expect(ctl.pattern_value(fake, hi) == want_max, f"max {cls.__name__}({lo},{hi})")
try:
    Controller((2, 2), 2).pattern_value(fake, 2)
except ZeroDivisionError:
    pass
else:
    expect(False, "empty span must raise ZeroDivisionError")
expect(Controller(CompactRange(2, 2), 2).pattern_value(fake, 2) == 0, "compact empty span")
expect(Controller((-100, 100), 0).pattern_value(fake, 0.5) == int(100.5 / (200 / 32768)), "float")


class Colour(Enum):
    red = 0
    green = 1


for vt, v in [(bool, True), (Colour, Colour.green), (None, None)]:
    expect(Controller(vt, v).pattern_value(fake, v) is v, f"pass through {vt}")

# --- 4. real modules: get_raw / set_raw round trips ---------------------------
n_ctl = 0
for mtype, cls in sorted(MODULE_CLASSES.items()):
    for name, ctl in cls.controllers.items():
        vt = ctl.value_type
        variants = []
        if isinstance(vt, DependentRange):
            for unit, rng in vt.range_map.items():
                m = cls()
                setattr(m, vt.ctl_name, unit)
                variants.append((m, rng))
        else:
            m = cls()
            variants.append((m, ctl.controller(m).instance_value_type(m)))
        for m, t in variants:
            n_ctl += 1
            if isinstance(t, Range):
                for v in sample_values(t.min, t.max):
                    m.controller_values[name] = v
                    raw = m.get_raw(name)
                    m.controller_values[name] = None
                    m.set_raw(name, raw)
                    back = m.controller_values[name]
                    if raw != ref_raw(t, v) or back != v or (raw < 0 and not isinstance(t, NoOffsetRange)):
                        expect(False, f"{mtype}.{name} v={v} raw={raw} back={back}")
                        break
            elif isinstance(t, type) and issubclass(t, Enum):
                for member in t:
                    m.controller_values[name] = member
                    raw = m.get_raw(name)
                    expect(raw == member.value, f"{mtype}.{name} enum raw")
                    m.set_raw(name, raw)
                    expect(m.controller_values[name] is member, f"{mtype}.{name} enum back")
            elif t is bool:
                for b in (False, True):
                    m.controller_values[name] = b
                    raw = m.get_raw(name)
                    expect(raw == int(b) and type(raw) is int, f"{mtype}.{name} bool raw")
                    m.set_raw(name, raw)
                    expect(m.controller_values[name] is b, f"{mtype}.{name} bool back")
expect(n_ctl > 300, f"expected many controllers, saw {n_ctl}")

if failures:
    print("FAIL")
    for f in failures[:40]:
        print("  ", f)
    sys.exit(1)
print(f"PASS ({n_ctl} controller variants)")
