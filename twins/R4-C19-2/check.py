"""Behaviour check for Note.project / Note.module_index / Note.mod (property C19).

Run as:  cd <root> && PYTHONPATH=<root>/src/python /venv/bin/python check.py
"""
import sys

from rv.api import Project, m
from rv.errors import ModuleOwnershipError, PatternOwnershipError
from rv.note import NOTE, Note
from rv.pattern import Pattern

FAILS = []


def check(cond, msg):
    if not cond:
        FAILS.append(msg)


def raises(exc_type, thunk, msg, text=None):
    try:
        thunk()
    except exc_type as e:
        if type(e) is not exc_type:
            check(False, f"{msg}: got subclass {type(e).__name__}")
        if text is not None:
            check(str(e) == text, f"{msg}: message {str(e)!r}")
    except BaseException as e:  # noqa
        check(False, f"{msg}: wrong exception {type(e).__name__}: {e}")
    else:
        check(False, f"{msg}: did not raise")


# ---- a note with no pattern at all -------------------------------------------
loose = Note(module=1)
raises(AttributeError, lambda: loose.project, "loose.project",
       "'NoneType' object has no attribute 'project'")
raises(AttributeError, lambda: loose.mod, "loose.mod",
       "'NoneType' object has no attribute 'project'")
raises(AttributeError, lambda: Note().mod, "loose empty .mod")
check(loose.module_index == 0, "loose.module_index")
check(Note().module_index is None, "empty module_index")
check(Note(module=0xFFFE).module_index == 0xFFFD, "big module_index")

# ---- detached pattern -----------------------------------------------------------
p = Pattern(lines=2, tracks=2)
for row in p.data:
    for n in row:
        check(n.pattern is p, "cleared note owned")
        check(n.project is None, "detached note.project is None")
        raises(PatternOwnershipError, lambda n=n: n.mod, "detached empty note.mod",
               "Pattern not owned by a project")
p.data[0][0].module = 3
raises(PatternOwnershipError, lambda: p.data[0][0].mod, "detached note.mod",
       "Pattern not owned by a project")

# ---- attached pattern -------------------------------------------------------------
proj = Project()
gen = proj.attach_module(m.Generator())
amp = proj.attach_module(m.Amplifier())
proj.attach_module(None)  # empty slot
fm = proj.attach_module(m.Fm(), loading=True)
q = Pattern(lines=3, tracks=2)
proj.attach_pattern(q)
nmods = len(proj.modules)
check(nmods == 5, f"module count {nmods}")

n = q.data[1][1]
check(n.project is proj, "attached note.project")
check(n.mod is None, "module 0 -> mod None")
for module in range(0, nmods + 4):
    n.module = module
    if module == 0:
        check(n.module_index is None, "module_index None")
        check(n.mod is None, "mod None for module 0")
    else:
        check(n.module_index == module - 1, f"module_index {module}")
        if module - 1 < nmods:
            check(n.mod is proj.modules[module - 1], f"mod for module {module}")
        else:
            check(n.mod is None, f"mod out of range {module}")
n.module = 4
check(n.mod is None and proj.modules[3] is None, "empty slot gives None")
n.module = 1
check(n.mod is proj.output, "module 1 is Output")

# negative raw module numbers (only possible by direct assignment) index from the end
n.module = -1
check(n.module_index == -2 and n.mod is proj.modules[-2], "negative module -1")
n.module = -(nmods + 5)
raises(IndexError, lambda: n.mod, "negative far out of range")
n.module = 0.0
check(n.module_index is None and n.mod is None, "module 0.0 is empty")

# ---- mod setter ---------------------------------------------------------------------
n.module = 0
n.mod = fm
check(n.module == fm.index + 1 == 5 and n.mod is fm, "mod setter attached")
n.mod = gen
check(n.module == 2 and n.mod is gen, "mod setter gen")
before = n.module
raises(ModuleOwnershipError, lambda: setattr(n, "mod", m.Generator()), "mod setter detached module",
       "Module must be attached to a project")
check(n.module == before, "failed mod setter leaves module")
raises(AttributeError, lambda: setattr(n, "mod", None), "mod setter None")
# setter does not need an owning project, only an attached module
loose2 = Note()
loose2.mod = amp
check(loose2.module == amp.index + 1, "mod setter on loose note")
d = Pattern(lines=1, tracks=1)
d.data[0][0].mod = amp
check(d.data[0][0].module == amp.index + 1, "mod setter on detached pattern")
raises(PatternOwnershipError, lambda: d.data[0][0].mod, "detached after set")
# module from a different project is accepted by the setter (index only)
other = Project()
og = other.attach_module(m.Generator())
n.mod = og
check(n.module == og.index + 1 and n.mod is proj.modules[og.index], "foreign module index")

# ---- accessors after bulk edits (ownership half of C19) ----------------------------
for attached in (False, True):
    for lines, tracks in ((1, 1), (2, 3), (4, 2)):
        pat = Pattern(lines=lines, tracks=tracks)
        prj = None
        if attached:
            prj = Project()
            g = prj.attach_module(m.Generator())
            prj.attach_pattern(pat)
        for rnd in range(3):
            if rnd % 2 == 0:
                pat.set_via_fn(lambda p_, l, t: Note(note=NOTE.C4, vel=129, module=(l + t) % 4))
            else:
                pat.set_via_gen(lambda p_, new: iter([(lines - 1, tracks - 1, Note(module=2))]))
            for row in pat.data:
                for note in row:
                    check(note.pattern is pat, "bulk: owned")
                    check(note.project is prj, "bulk: project")
                    if not attached:
                        raises(PatternOwnershipError, lambda note=note: note.mod, "bulk: detached mod")
                    elif note.module == 0:
                        check(note.mod is None, "bulk: mod none")
                    elif note.module <= len(prj.modules):
                        check(note.mod is prj.modules[note.module - 1], "bulk: mod")
                    else:
                        check(note.mod is None, "bulk: mod out of range")
            # a failing edit must not disturb accessors
            try:
                pat.set_via_fn(lambda p_, l, t: 1 / 0)
            except ZeroDivisionError:
                pass
            check(all(x.project is prj for r in pat.data for x in r), "bulk: after failure")

# tabular_repr / clone / raw_data are unaffected by ownership
n = q.data[0][0]
n.note, n.vel, n.module, n.ctl, n.val = NOTE.C5, 100, 2, 0x0A0B, 0x1234
check(n.raw_data == bytes([int(NOTE.C5), 100, 2, 0, 0x0B, 0x0A, 0x34, 0x12]), "raw_data")
c = n.clone()
check(c.pattern is None and c.raw_data == n.raw_data, "clone detached")
check(n.tabular_repr() == "C5 63 0001 0A 0B 1234", f"tabular {n.tabular_repr()!r}")

if FAILS:
    print("FAIL")
    for f in FAILS[:40]:
        print("  ", f)
    sys.exit(1)
print("PASS")
