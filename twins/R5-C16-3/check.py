"""Behaviour check for C16 refactoring 3 (Sampler codec). Prints PASS and exits 0.

Run from the repository root:
    PYTHONPATH=$PWD/src/python python check.py
"""
import hashlib
import logging
import random
import struct
import sys
from io import BytesIO

from rv.api import NOTE, Synth, m, read_sunvox_file
from rv.chunks.chunk import Chunk

logging.disable(logging.CRITICAL)

Sampler = m.Sampler
FORMATS = [Sampler.Format.int8, Sampler.Format.int16, Sampler.Format.float32]
CHANNELS = [Sampler.Channels.mono, Sampler.Channels.stereo]
LOOPS = list(Sampler.LoopType)
FAILURES = []


def check(cond, label):
    if not cond:
        FAILURES.append(label)
        print("FAIL:", label, file=sys.stderr)


def expect_raises(exc_type, fn, label):
    try:
        fn()
    except exc_type as e:
        check(type(e) is exc_type, f"{label}: exact type {exc_type.__name__}")
    except Exception as e:  # noqa
        check(False, f"{label}: raised {type(e).__name__}, wanted {exc_type.__name__}")
    else:
        check(False, f"{label}: did not raise {exc_type.__name__}")


# ---------------------------------------------------------------- file helpers


def write(mod):
    f = BytesIO()
    Synth(mod).write_to(f)
    return f.getvalue()


def read(raw):
    return read_sunvox_file(BytesIO(raw)).module


def iff_chunks(raw):
    pos = 0
    out = []
    while pos < len(raw):
        tag = raw[pos : pos + 4]
        (size,) = struct.unpack("<I", raw[pos + 4 : pos + 8])
        out.append((tag, raw[pos + 8 : pos + 8 + size]))
        pos += 8 + size
    return out


def iff_join(chunks):
    return b"".join(t + struct.pack("<I", len(d)) + d for t, d in chunks)


def specialized(raw):
    """[(chnm, {tag: data})] for the module-specific chunks of a written synth."""
    out = []
    seen_chnk = False
    for tag, data in iff_chunks(raw):
        if tag == b"CHNK":
            seen_chnk = True
        elif seen_chnk and tag == b"CHNM":
            out.append((struct.unpack("<I", data)[0], {}))
        elif seen_chnk and tag in (b"CHDT", b"CHFF", b"CHFR"):
            out[-1][1][tag] = data
    return out


def drop_chnms(raw, chnms):
    """Remove whole CHNM groups (CHNM + CHDT/CHFF/CHFR) with the given numbers."""
    out = []
    skipping = False
    seen_chnk = False
    for tag, data in iff_chunks(raw):
        if tag == b"CHNK":
            seen_chnk = True
        if seen_chnk and tag == b"CHNM":
            skipping = struct.unpack("<I", data)[0] in chnms
        elif tag not in (b"CHDT", b"CHFF", b"CHFR"):
            skipping = False
        if not skipping:
            out.append((tag, data))
    return iff_join(out)


def patch_chdt(raw, chnm, fn):
    """Replace CHDT of module chunk `chnm` by fn(old)."""
    out = []
    current = None
    seen_chnk = False
    for tag, data in iff_chunks(raw):
        if tag == b"CHNK":
            seen_chnk = True
        if seen_chnk and tag == b"CHNM":
            current = struct.unpack("<I", data)[0]
        if seen_chnk and tag == b"CHDT" and current == chnm:
            data = fn(data)
        out.append((tag, data))
    return iff_join(out)


# ---------------------------------------------------------------- snapshots


def env_snapshot(env):
    return (
        env.chnm,
        list(env.points),
        env.enable,
        env.sustain,
        env.loop,
        env.sustain_point,
        env.loop_start_point,
        env.loop_end_point,
        env.ctl_index,
        env.gain_pct,
        env.velocity,
        env.loaded,
    )


def sample_snapshot(s):
    if s is None:
        return None
    return (
        bytes(s.data),
        int(s.format),
        int(s.channels),
        s.rate,
        int(s.loop_type),
        s.loop_sustain,
        s.loop_start,
        s.loop_len,
        s.volume,
        s.finetune,
        s.panning,
        s.relative_note,
        s.reserved2,
        s.name,
        s.start_pos,
    )


def snapshot(mod, loaded=True):
    envs = [mod.volume_envelope, mod.panning_envelope, mod.pitch_envelope]
    envs += list(mod.effect_control_envelopes)
    snap = {
        "samples": [sample_snapshot(s) for s in mod.samples],
        "envelopes": [env_snapshot(e)[:-1] + ((e.loaded,) if loaded else ()) for e in envs],
        "note_samples": [(int(k), v) for k, v in mod.note_samples.items()],
        "vibrato": (
            int(mod.vibrato_type),
            mod.vibrato_attack,
            mod.vibrato_depth,
            mod.vibrato_rate,
            mod.volume_fadeout,
        ),
        "ins": (
            mod.instrument_name,
            mod.volume_old,
            mod.ins_finetune,
            mod.ins_relative_note,
            mod.editor_cursor,
            mod.editor_selected_size,
            mod.version,
            mod.max_version,
            mod.unused1,
            mod.unused2,
            mod.unused3,
            mod.unused4,
            mod.unused5,
            mod.unused6,
        ),
        "effect": None if mod.effect is None else mod.effect.read(),
    }
    return snap


def digest(*parts):
    h = hashlib.sha256()
    for p in parts:
        h.update(p if isinstance(p, bytes) else repr(p).encode())
    return h.hexdigest()[:20]


# ---------------------------------------------------------------- builders


def random_points(rng, lo, hi, n):
    xs = sorted(rng.randrange(0, 0x10000) for _ in range(n))
    return [(x, rng.randrange(lo, hi + 1)) for x in xs]


def randomize_envelope(rng, env, n=None, coarse=False):
    lo, hi = env.range
    if n is None:
        n = rng.choice([0, 1, 2, 3, 5, 12, 13, 40])
    pts = random_points(rng, lo, hi, n)
    if coarse:
        pts = [(x, (y // 0x200) * 0x200) for x, y in pts]
    env.points = pts
    env.enable = rng.random() < 0.5
    env.sustain = rng.random() < 0.5
    env.loop = rng.random() < 0.5
    top = max(n - 1, 0)
    env.sustain_point = rng.randint(0, top)
    env.loop_start_point = rng.randint(0, top)
    env.loop_end_point = rng.randint(0, top)
    env.ctl_index = rng.randrange(256)
    env.gain_pct = rng.randrange(256)
    env.velocity = rng.randrange(256)


def random_sample(rng, mod, fmt=None, ch=None, nbytes=None):
    s = mod.Sample()
    s.format = fmt if fmt is not None else rng.choice(FORMATS)
    s.channels = ch if ch is not None else rng.choice(CHANNELS)
    frames = rng.choice([0, 1, 2, 7, 100]) if nbytes is None else None
    if nbytes is None:
        nbytes = frames * s.frame_size
    s.data = bytes(rng.randrange(256) for _ in range(nbytes))
    s.rate = rng.choice([0, 1, 8000, 44100, 48000, 0xFFFFFFFF])
    s.loop_type = rng.choice(LOOPS)
    s.loop_sustain = rng.random() < 0.5
    s.loop_start = rng.choice([0, 1, 0xFFFFFFFF, rng.randrange(1 << 32)])
    s.loop_len = rng.choice([0, 1, 0xFFFFFFFF, rng.randrange(1 << 32)])
    s.volume = rng.randrange(256)
    s.finetune = rng.randint(-128, 127)
    s.panning = rng.randint(-128, 127)
    s.relative_note = rng.randint(-128, 127)
    s.reserved2 = rng.randrange(256)
    s.name = bytes(rng.randrange(1, 256) for _ in range(rng.choice([0, 1, 5, 21, 22])))
    s.start_pos = rng.choice([0, 1, 0xFFFFFFFF, rng.randrange(1 << 32)])
    return s


def random_sampler(seed, slots=None, with_effect=False, coarse_env=False, env_n=None):
    rng = random.Random(seed)
    mod = Sampler()
    if slots is None:
        slots = sorted(rng.sample(range(128), rng.choice([0, 1, 2, 5])))
    for i in slots:
        mod.samples[i] = random_sample(rng, mod)
    for k in mod.note_samples:
        mod.note_samples[k] = rng.randrange(1, 256) if rng.random() < 0.9 else 0
    envs = [mod.volume_envelope, mod.panning_envelope, mod.pitch_envelope]
    envs += mod.effect_control_envelopes
    for env in envs:
        randomize_envelope(rng, env, n=env_n, coarse=coarse_env)
    mod.vibrato_type = rng.choice(list(mod.VibratoType))
    mod.vibrato_attack = rng.randrange(256)
    mod.vibrato_depth = rng.randrange(256)
    mod.vibrato_rate = rng.randrange(64)
    mod.volume_fadeout = rng.randrange(8193)
    mod.instrument_name = bytes(
        rng.randrange(1, 256) for _ in range(rng.choice([0, 3, 22]))
    )
    mod.volume_old = rng.randrange(256)
    mod.ins_finetune = rng.randint(-128, 127)
    mod.ins_relative_note = rng.randint(-128, 127)
    mod.editor_cursor = rng.randint(-(1 << 31), (1 << 31) - 1)
    mod.editor_selected_size = rng.randint(-(1 << 31), (1 << 31) - 1)
    mod.unused1 = rng.randrange(1 << 32)
    mod.unused2 = rng.randrange(1 << 16)
    mod.unused3 = rng.randrange(1 << 16)
    mod.unused4 = rng.randrange(1 << 32)
    mod.unused5 = rng.randrange(256)
    mod.unused6 = rng.randrange(1 << 32)
    if with_effect:
        fx = m.Filter()
        fx.freq = rng.randrange(100, 14000)
        mod.effect = Synth(fx)
    return mod


def chunk(chnm, chdt, chff=None, chfr=None):
    c = Chunk()
    c.chnm = chnm
    c.chdt = chdt
    if chff is not None:
        c.chff = chff
    if chfr is not None:
        c.chfr = chfr
    return c


def roundtrip_ok(mod, label):
    """write -> read -> compare; returns (raw, loaded module)."""
    raw = write(mod)
    back = read(raw)
    before = snapshot(mod, loaded=False)
    after = snapshot(back, loaded=False)
    for key in before:
        check(before[key] == after[key], f"{label}: {key} survives save/load")
    check(back.is_legacy is False and back.legacy_chunks is None, f"{label}: not legacy")
    raw2 = write(back)
    check(raw2 == raw, f"{label}: second write is byte-identical")
    return raw, back


GOLDEN_RESULTS = {}


def golden(name, value):
    GOLDEN_RESULTS[name] = value
    if REGEN:
        return
    check(name in GOLDEN, f"golden {name} known")
    check(GOLDEN.get(name) == value, f"golden {name}: {value} == {GOLDEN.get(name)}")


def finish():
    if REGEN:
        print("GOLDEN = {")
        for k, v in GOLDEN_RESULTS.items():
            print(f"    {k!r}: {v!r},")
        print("}")
        return
    check(set(GOLDEN) == set(GOLDEN_RESULTS), "all goldens visited")
    if FAILURES:
        print(f"{len(FAILURES)} check(s) failed")
        sys.exit(1)
    print("PASS")


REGEN = "--regen" in sys.argv

GOLDEN = {
    'rt-400': '1e3409eefef53867757c',
    'rt-401': '315d1f925b5038bc14a5',
    'rt-402': '231293ca377a876313f5',
    'rt-403': 'c21c173129e6c07217c9',
    'rt-404': '36d8951c0d49205da317',
    'rt-405': '5e430ac433b1e10e6ecf',
    'rt-406': '48156491b9d8fe818c7e',
    'rt-407': '85bd0899bc11f301b10b',
    'rt-408': 'a7b19560b615ebae8466',
    'rt-409': '2d393de9539e2b5ffa6a',
    'rt-default': 'c665ea9372f6fad33025',
    'rt-fixture': 'e8e81adb230cc3628026',
    'records': 'e5842be9839946818ad7',
    'legacy-noenv-440': 'c92364167c35e44789bd',
    'legacy-unsigned-440': '2b60263aa85028fdfa3c',
    'legacy-noenv-441': 'ea6654081562d9f5db61',
    'legacy-unsigned-441': '2ed5df6bad1ba93b2aa9',
    'legacy-noenv-442': '0d171f81ab82079337df',
    'legacy-unsigned-442': 'ce3fcd75168b8cb250f8',
    'legacy-noenv-443': 'd355f87cadd2ee59eaf3',
    'legacy-unsigned-443': '654d761aebe1d791ae93',
    'legacy-noenv-444': '7df93b67166036522353',
    'legacy-unsigned-444': '14f79eafb59a1e03f0af',
    'legacy-noenv-445': 'b7d3f496142d09ebe0e5',
    'legacy-unsigned-445': 'bcd8164f33620c465e4c',
}


# ---------------------------------------------------------------- round trips


def section_roundtrips(seeds):
    for seed in seeds:
        mod = random_sampler(seed, with_effect=(seed % 3 == 0))
        raw, back = roundtrip_ok(mod, f"random sampler {seed}")
        golden(f"rt-{seed}", digest(raw))
        # slots stay where they were put
        check(
            [i for i, s in enumerate(back.samples) if s is not None]
            == [i for i, s in enumerate(mod.samples) if s is not None],
            f"random sampler {seed}: slot indices kept",
        )
        clone = Synth(mod).clone().module
        check(snapshot(clone) == snapshot(back), f"random sampler {seed}: clone == reload")
    # default, untouched sampler
    raw, back = roundtrip_ok(Sampler(), "default sampler")
    golden("rt-default", digest(raw))
    # shipped fixture
    fixture = read_sunvox_file("tests/files/sampler.sunsynth").module
    raw, back = roundtrip_ok(fixture, "fixture")
    golden("rt-fixture", digest(raw, snapshot(back)))


# ---------------------------------------------------------------- instrument record


def legacy_table(env):
    base = env.range[0] // 0x200
    pts = [(x, y // 0x200) for x, y in env.points]
    pts = (pts + [(0, 0)] * 12)[:12]
    return b"".join(struct.pack("<HH", x, y - base) for x, y in pts)


def env_flags(env):
    return (1 if env.enable else 0) | (2 if env.sustain else 0) | (4 if env.loop else 0)


def expected_record(mod):
    """Independent re-statement of the 0x190-byte instrument record."""
    vol, pan = mod.volume_envelope, mod.panning_envelope
    used = [i for i, s in enumerate(mod.samples) if s is not None]
    note_map = bytes(mod.note_samples.values())
    out = struct.pack("<I", mod.unused1)
    out += mod.instrument_name[:22].ljust(22, b"\0")
    out += struct.pack("<HHHI", mod.unused2, used[-1] + 1 if used else 0, mod.unused3, mod.unused4)
    out += note_map[:96]
    out += legacy_table(vol) + legacy_table(pan)
    out += bytes(
        [
            len(vol.points),
            len(pan.points),
            vol.sustain_point,
            vol.loop_start_point,
            vol.loop_end_point,
            pan.sustain_point,
            pan.loop_start_point,
            pan.loop_end_point,
            env_flags(vol),
            env_flags(pan),
            int(mod.vibrato_type),
            mod.vibrato_attack,
            mod.vibrato_depth,
            mod.vibrato_rate,
        ]
    )
    out += struct.pack("<HBbBbI", mod.volume_fadeout, mod.volume_old, mod.ins_finetune, mod.unused5, mod.ins_relative_note, mod.unused6)
    out += b"PMAS" + struct.pack("<I", mod.version)
    out += note_map + bytes(128 - len(note_map))
    out += struct.pack("<Iii", mod.max_version, mod.editor_cursor, mod.editor_selected_size)
    return out


def section_instrument(seeds):
    acc = []
    for seed in seeds:
        mod = random_sampler(seed, env_n=random.Random(seed).choice([0, 2, 12, 13, 40, 255]))
        got = list(mod.global_config_chunks())
        want = expected_record(mod)
        check(got[0] == (b"CHNM", bytes(4)) and got[1][0] == b"CHDT" and len(got) == 2, f"record {seed}: chunk pair")
        check(len(got[1][1]) == 0x190, f"record {seed}: length 0x190")
        check(got[1][1] == want, f"record {seed}: layout")
        acc.append(got[1][1])
        # decode with load_instrument on a fresh module
        fresh = Sampler()
        fresh.load_instrument(chunk(0, want))
        a, b = snapshot(mod, loaded=False), snapshot(fresh, loaded=False)
        for key in ("note_samples", "vibrato", "ins"):
            check(a[key] == b[key], f"record {seed}: {key} decoded")
        check(fresh.is_legacy is False and fresh.legacy_chunks is None, f"record {seed}: current layout")
        for name in ("volume_envelope", "panning_envelope"):
            src, dst = getattr(mod, name), getattr(fresh, name)
            check(dst._legacy_point_bytes == legacy_table(src), f"record {seed}: {name} table stashed")
            check(dst._legacy_active_points == len(src.points), f"record {seed}: {name} count stashed")
            check(
                (dst._legacy_sustain_point, dst._legacy_loop_start_point, dst._legacy_loop_end_point, dst._legacy_bitmask)
                == (src.sustain_point, src.loop_start_point, src.loop_end_point, env_flags(src)),
                f"record {seed}: {name} settings stashed",
            )
            check(env_snapshot(dst) == env_snapshot(type(dst)()), f"record {seed}: {name} itself not touched yet")
        check(fresh.pitch_envelope._legacy_bitmask is None, "pitch envelope has no legacy fields")
        check(all(s is None for s in fresh.samples), "record alone creates no samples")
        check(type(fresh.vibrato_type) is Sampler.VibratoType, "vibrato type is an enum member")
    golden("records", digest(acc))

    # samples_num counts up to the last used slot
    for slots, n in (([], 0), ([0], 1), ([5], 6), ([0, 127], 128), ([3, 4, 90], 91), (list(range(128)), 128)):
        mod = Sampler()
        for i in slots:
            mod.samples[i] = mod.Sample()
        rec = list(mod.global_config_chunks())[1][1]
        check(struct.unpack_from("<H", rec, 0x1C)[0] == n, f"samples_num {slots[:3]}..")
        check(sum(s is not None for s in mod.samples) == len(slots) and len(mod.samples) == 128, "samples list not disturbed")
    mod = Sampler()
    mod.samples = []
    check(struct.unpack_from("<H", list(mod.global_config_chunks())[1][1], 0x1C)[0] == 0, "empty samples list")

    # instrument name: padded / truncated / stripped
    for name, back in ((b"", b""), (b"n", b"n"), (b"q" * 22, b"q" * 22), (b"w" * 40, b"w" * 22), (b"a\0b\0", b"a\0b")):
        mod = Sampler(instrument_name=name)
        check(mod.instrument_name == name, "constructor keeps the name")
        rec = list(mod.global_config_chunks())[1][1]
        check(rec[4:26] == name[:22].ljust(22, b"\0"), f"name field {name!r}")
        fresh = Sampler()
        fresh.load_instrument(chunk(0, rec))
        check(fresh.instrument_name == back, f"name back {name!r}")

    # field-width errors
    def bad(setter, label, exc=struct.error):
        mod = Sampler()
        setter(mod)
        gen = mod.global_config_chunks()
        expect_raises(exc, lambda: next(gen), label)

    bad(lambda m_: setattr(m_, "unused1", 1 << 32), "unused1 too wide")
    bad(lambda m_: setattr(m_, "unused2", 1 << 16), "unused2 too wide")
    bad(lambda m_: setattr(m_, "volume_old", 256), "volume_old too wide")
    bad(lambda m_: setattr(m_, "ins_finetune", 128), "ins_finetune too wide")
    bad(lambda m_: setattr(m_, "ins_relative_note", -129), "ins_relative_note too low")
    bad(lambda m_: setattr(m_, "editor_cursor", 1 << 31), "editor_cursor too wide")
    bad(lambda m_: setattr(m_, "editor_selected_size", -(1 << 31) - 1), "editor_selected_size too low")
    bad(lambda m_: setattr(m_, "version", -1), "version negative")
    bad(lambda m_: setattr(m_, "max_version", 1 << 32), "max_version too wide")
    bad(lambda m_: setattr(m_.volume_envelope, "points", [(0, 0)] * 256), "256 volume points")
    bad(lambda m_: setattr(m_.panning_envelope, "sustain_point", 256), "pan sustain too wide")
    bad(lambda m_: setattr(m_.volume_envelope, "loop_end_point", -1), "vol loop end negative")
    bad(lambda m_: m_.note_samples.__setitem__(NOTE.C5, 256), "note map value too wide", ValueError)
    bad(lambda m_: setattr(m_, "instrument_name", "text"), "str instrument name", TypeError)
    bad(lambda m_: setattr(m_, "instrument_name", None), "no instrument name", AttributeError)

    # signature handling and the legacy decision, via load_instrument directly
    base = expected_record(random_sampler(4242))
    fresh = Sampler()
    fresh.load_instrument(chunk(0, base))
    check((fresh.is_legacy, fresh.legacy_chunks) == (False, None), "signed, 0x190 -> current")
    fresh = Sampler()
    fresh.load_instrument(chunk(0, base + b"\0"))
    check(fresh.is_legacy is True and fresh.legacy_chunks == [], "0x191 bytes -> legacy")
    for sign in (b"SAMP", b"\0\0\0\0", b"PMA\0", b"pmas"):
        fresh = Sampler()
        fresh.load_instrument(chunk(0, base[:0xFC] + sign + base[0x100:]))
        check(fresh.is_legacy is True and fresh.legacy_chunks == [], f"signature {sign!r} -> legacy")
        check(fresh.version == struct.unpack_from("<I", base, 0x100)[0], "rest still decoded")
        check(fresh.editor_cursor == struct.unpack_from("<i", base, 0x188)[0], "editor cursor still decoded")
    # once legacy, a later good record does not reset it
    fresh.load_instrument(chunk(0, base))
    check(fresh.is_legacy is True and fresh.legacy_chunks == [], "legacy is sticky")
    # and the other way round: current, then an unsigned record
    fresh = Sampler()
    fresh.load_instrument(chunk(0, base))
    fresh.load_instrument(chunk(0, base[:0xFC] + b"XXXX" + base[0x100:]))
    check(fresh.is_legacy is True and fresh.legacy_chunks is None, "current then unsigned")
    # vibrato type outside the enum
    fresh = Sampler()
    expect_raises(ValueError, lambda: fresh.load_instrument(chunk(0, base[:0xEE] + b"\x07" + base[0xEF:])), "vibrato type 7")
    check(fresh.volume_envelope._legacy_bitmask == base[0xEC] and fresh.is_legacy is None, "decoded up to the failure")
    # note map: zero tail of the 128-byte copy falls back to the 96-byte copy
    rec = bytearray(base)
    rec[0x24:0x84] = bytes(range(1, 97))
    rec[0x104:0x184] = bytes([9] * 50) + bytes(78)
    fresh = Sampler()
    fresh.load_instrument(chunk(0, bytes(rec)))
    check(
        list(fresh.note_samples.values()) == [9] * 50 + list(range(51, 97)) + [0] * 23,
        "128-byte map overrides only up to its last non-zero byte",
    )


def section_module_level(seeds):
    """Whole-module chunk stream: order and numbering."""
    for seed in seeds:
        mod = random_sampler(seed, with_effect=True, slots=[2, 9])
        raw = write(mod)
        groups = specialized(raw)
        chnms = [n for n, _ in groups]
        check(chnms == [0, 5, 6, 19, 20, 0x101, 0x102, 0x103, 0x104, 0x105, 0x106, 0x107, 0x108, 0x10A], f"stream {seed}: order")
        d = dict(groups)
        check(d[0][b"CHDT"] == expected_record(mod), f"stream {seed}: record")
        check(d[6][b"CHDT"] == mod.samples[2].data and d[20][b"CHDT"] == mod.samples[9].data, f"stream {seed}: PCM")
        check(d[0x10A][b"CHDT"] == mod.effect.read(), f"stream {seed}: effect")
        for env in [mod.volume_envelope, mod.panning_envelope, mod.pitch_envelope] + mod.effect_control_envelopes:
            check(d[env.chnm][b"CHDT"] == list(env.chunks())[1][1], f"stream {seed}: envelope {env.chnm:#x}")
        back = read(raw)
        check(back.effect is not None and back.effect.module.freq == mod.effect.module.freq, f"stream {seed}: effect reloaded")
        # loading chunk by chunk through load_chunk gives the same thing
        manual = Sampler()
        for n, parts in groups:
            c = chunk(n, parts[b"CHDT"])
            if b"CHFF" in parts:
                c.chff = struct.unpack("<I", parts[b"CHFF"])[0]
                c.chfr = struct.unpack("<I", parts[b"CHFR"])[0]
            manual.load_chunk(c)
        manual.finalize_load()
        a, b = snapshot(manual), snapshot(back)
        for key in a:
            if key != "effect":
                check(a[key] == b[key], f"stream {seed}: manual load {key}")
        check(manual.legacy_chunks is None and manual.is_legacy is False, f"stream {seed}: manual load current")


# ---------------------------------------------------------------- legacy layouts

ENVELOPE_CHNMS = set(range(0x102, 0x109))


def chdts(raw):
    return [(n, parts[b"CHDT"]) for n, parts in specialized(raw)]


def expected_upgraded_points(env):
    """What a pre-envelope file can carry: at most 12 points, y in 0x200 steps."""
    lo = env.range[0]
    if len(env.points) > 12:
        return None
    return [(x, ((y // 0x200 - lo // 0x200) * 0x200) + lo) for x, y in env.points]


def section_legacy(seeds):
    for seed in seeds:
        rng = random.Random(seed)
        mod = random_sampler(seed, coarse_env=True, env_n=rng.choice([0, 1, 4, 11, 12]))
        raw = write(mod)

        # variant 1: file written before the envelope chunks existed
        old = read(drop_chnms(raw, ENVELOPE_CHNMS))
        check(old.is_legacy is False, f"legacy {seed}: signature still current")
        for name in ("volume_envelope", "panning_envelope"):
            src, got = getattr(mod, name), getattr(old, name)
            check(got.loaded is False, f"legacy {seed}: {name} came from the record")
            check(got.points == src.points, f"legacy {seed}: {name} points converted")
            check(got.points == expected_upgraded_points(src), f"legacy {seed}: {name} formula")
            check(
                (got.enable, got.sustain, got.loop) == (src.enable, src.sustain, src.loop),
                f"legacy {seed}: {name} flags converted",
            )
            check(
                (got.sustain_point, got.loop_start_point, got.loop_end_point)
                == (src.sustain_point, src.loop_start_point, src.loop_end_point),
                f"legacy {seed}: {name} sustain/loop points converted",
            )
            check(
                (got.ctl_index, got.gain_pct, got.velocity) == (0, 100, 0),
                f"legacy {seed}: {name} new-style fields at defaults",
            )
        check(
            env_snapshot(old.pitch_envelope) == env_snapshot(Sampler.PitchEnvelope()),
            f"legacy {seed}: pitch envelope at defaults",
        )
        before, after = snapshot(mod, loaded=False), snapshot(old, loaded=False)
        for key in ("samples", "note_samples", "vibrato", "ins", "effect"):
            check(before[key] == after[key], f"legacy {seed}: {key} kept")
        # saving the converted instrument loses nothing it carried
        again = read(write(old))
        check(snapshot(again, loaded=False) == snapshot(old, loaded=False), f"legacy {seed}: resave")
        golden(f"legacy-noenv-{seed}", digest(write(old), snapshot(old)))

        # variant 2: record without the "SAMP" signature -> raw chunks replayed
        unsigned = patch_chdt(raw, 0, lambda d: d[:0xFC] + b"\0\0\0\0" + d[0x100:])
        leg = read(unsigned)
        check(leg.is_legacy is True, f"legacy {seed}: unsigned record flagged")
        check(len(leg.legacy_chunks) == len(specialized(raw)), f"legacy {seed}: all chunks kept")
        check(snapshot(leg, loaded=False)["samples"] == before["samples"], f"legacy {seed}: samples read")
        out = write(leg)
        check(chdts(out) == chdts(unsigned), f"legacy {seed}: chunk data replayed verbatim")
        golden(f"legacy-unsigned-{seed}", digest(out))

        # variant 3: over-long record -> also replayed
        longrec = patch_chdt(raw, 0, lambda d: d + bytes(0x191 - len(d)))
        leg = read(longrec)
        check(leg.is_legacy is True, f"legacy {seed}: long record flagged")
        check(chdts(write(leg)) == chdts(longrec), f"legacy {seed}: long record replayed")
        atlimit = patch_chdt(raw, 0, lambda d: d + bytes(0x190 - len(d)))
        ok = read(atlimit)
        check(ok.is_legacy is False and ok.legacy_chunks is None, f"legacy {seed}: 0x190 is current")

        # variant 4: record that stops before the editor fields / max_version
        for cut, label in ((0x18C, "no editor_selected_size"), (0x188, "no editor fields"), (0x184, "no max_version")):
            short = read(patch_chdt(raw, 0, lambda d: d[:cut]))
            s = snapshot(short, loaded=False)
            want = list(before["ins"])
            if cut <= 0x18C:
                want[5] = 0
            if cut <= 0x188:
                want[4] = 0
            if cut <= 0x184:
                want[7] = Sampler.INS_VERSION
            check(s["ins"] == tuple(want), f"legacy {seed}: {label} -> defaults")
            check(s["note_samples"] == before["note_samples"], f"legacy {seed}: {label} map kept")
            check(short.is_legacy is False, f"legacy {seed}: {label} still current")

    # envelopes with more than 12 points cannot be carried by the old table
    mod = random_sampler(77, env_n=13)
    raw = drop_chnms(write(mod), ENVELOPE_CHNMS)
    expect_raises(struct.error, lambda: read(raw), "13 legacy points overflow the table")
    # a record that ends inside the fixed part
    raw = write(Sampler())
    expect_raises(RuntimeError, lambda: read(patch_chdt(raw, 0, lambda d: d[:0x90])), "record cut at 0x90")
    expect_raises(RuntimeError, lambda: read(patch_chdt(raw, 0, lambda d: d[:0x102])), "record cut in version")
    expect_raises(RuntimeError, lambda: read(patch_chdt(raw, 0, lambda d: b"")), "empty record")
    # no record and no envelope chunks at all
    expect_raises(TypeError, lambda: read(drop_chnms(raw, ENVELOPE_CHNMS | {0})), "nothing to upgrade from")
    # no record but envelopes present: fine, stays undecided
    norec = read(drop_chnms(raw, {0}))
    check(norec.is_legacy is None and len(norec.legacy_chunks) == 8, "no record: undecided")

    # direct call path with hand-set legacy fields
    mod = Sampler()
    table = b"".join(struct.pack("<HH", 10 * i, i) for i in range(12))
    for env, n in ((mod.volume_envelope, 3), (mod.panning_envelope, 12)):
        env._legacy_point_bytes = table
        env._legacy_active_points = n
        env._legacy_bitmask = 6
        env._legacy_sustain_point = 2
        env._legacy_loop_start_point = 1
        env._legacy_loop_end_point = 2
    mod.finalize_load()
    check(mod.volume_envelope.points == [(0, 0), (10, 0x200), (20, 0x400)], "direct: vol points")
    check(
        mod.panning_envelope.points == [(10 * i, i * 0x200 - 0x4000) for i in range(12)],
        "direct: pan points",
    )
    for env in (mod.volume_envelope, mod.panning_envelope):
        check((env.enable, env.sustain, env.loop) == (False, True, True), "direct: flags")
        check((env.sustain_point, env.loop_start_point, env.loop_end_point) == (2, 1, 2), "direct: pts")
    mod.volume_envelope.loaded = True
    mod.volume_envelope.points = []
    mod.finalize_load()
    check(mod.volume_envelope.points == [], "finalize_load leaves loaded envelopes alone")
    # failure while converting the second envelope leaves both point lists as they were
    mod = Sampler()
    for env, n in ((mod.volume_envelope, 2), (mod.panning_envelope, 13)):
        env._legacy_point_bytes = table
        env._legacy_active_points = n
        env._legacy_bitmask = 1
        env._legacy_sustain_point = env._legacy_loop_start_point = env._legacy_loop_end_point = 0
    vol_before = list(mod.volume_envelope.points)
    expect_raises(struct.error, mod.finalize_load, "direct: 13 points")
    check(mod.volume_envelope.points == vol_before, "direct: vol points untouched on failure")
    check(mod.panning_envelope.enable is True, "direct: flags were already converted")


if __name__ == "__main__":
    section_roundtrips(range(400, 410))
    section_instrument(range(410, 430))
    section_module_level(range(430, 434))
    section_legacy(range(440, 446))
    finish()
