"""Behaviour check for Project.chunks / Synth.chunks (property C03).

Serialises many projects and synths, decodes the bytes with a tiny independent
chunk parser, checks the structural rules of the documented format and compares
every output with digests recorded on the unmodified tree.

Run from the repository root:
    PYTHONPATH=<root>/src/python python check.py
"""
import hashlib
import io
import os
import struct
import sys
from pathlib import Path

import rv.api as rv
from rv.errors import EmptySynthError
from rv.modules import MODULE_CLASSES
from rv.modules.module import Module
from rv.controller import Range
from rv.note import NOTE, Note
from rv.pattern import Pattern, PatternClone
from rv.project import Project
from rv.readers.reader import read_sunvox_file
from rv.synth import Synth

ROOT = Path(os.getcwd())
FILES = ROOT / "tests" / "files"

failures = []
digests = {}


def check(cond, msg):
    if not cond:
        failures.append(msg)


def parse(data):
    """Independent decoder: (id, payload) list; insists on full consumption."""
    out = []
    pos = 0
    while pos < len(data):
        assert pos + 8 <= len(data), "truncated chunk header"
        cid = data[pos : pos + 4]
        (size,) = struct.unpack_from("<I", data, pos + 4)
        pos += 8
        assert pos + size <= len(data), "truncated chunk payload"
        out.append((cid, data[pos : pos + size]))
        pos += size
    assert pos == len(data)
    return out


def record(label, data):
    digests[label] = hashlib.sha256(data).hexdigest()[:20]


def split_slots(chunks, terminator):
    slots, cur = [], []
    for cid, payload in chunks:
        if cid == terminator:
            slots.append(cur)
            cur = []
        else:
            cur.append((cid, payload))
    return slots, cur


def attached_names(module):
    return [n for n, c in module.controllers.items() if c.attached(module)]


def verify_module_slot(label, slot, module, in_project):
    ids = [cid for cid, _ in slot]
    d = {}
    for cid, payload in slot:
        d.setdefault(cid, []).append(payload)
    check(ids[0] == b"SFFF", f"{label}: slot starts with {ids[0]}")
    check(len(d[b"SNAM"][0]) == 32, f"{label}: SNAM size")
    names = attached_names(module)
    cvals = d.get(b"CVAL", [])
    check(len(cvals) == len(names), f"{label}: CVAL count {len(cvals)} vs {len(names)}")
    for name, payload in zip(names, cvals):
        check(payload == struct.pack("<i", module.get_raw(name)), f"{label}: CVAL {name}")
    if names:
        check(len(d.get(b"CMID", [])) == 1, f"{label}: one CMID")
        cmid = d[b"CMID"][0]
        check(len(cmid) == 8 * len(names), f"{label}: CMID size")
        expect = b"".join(module.controller_midi_maps[n].cmid_data for n in names)
        check(cmid == expect, f"{label}: CMID content")
        first_cval = ids.index(b"CVAL")
        check(ids[first_cval : first_cval + len(names)] == [b"CVAL"] * len(names), f"{label}: CVAL contiguous")
        check(ids[first_cval + len(names)] == b"CMID", f"{label}: CMID follows CVALs")
    else:
        check(b"CMID" not in d and b"CVAL" not in d, f"{label}: no CVAL/CMID expected")
    if in_project:
        check(b"SLNK" in d and len(d[b"SLNK"]) == 1, f"{label}: one SLNK")
        links = module.in_links
        check(d[b"SLNK"][0] == struct.pack("<%di" % len(links), *links), f"{label}: SLNK content")
        want_slots = bool(links) and any(s not in (-1, 0) for s in module.in_link_slots)
        check((b"SLnK" in d) == want_slots, f"{label}: SLnK presence")
        if want_slots:
            check(
                d[b"SLnK"][0] == struct.pack("<%di" % len(links), *module.in_link_slots),
                f"{label}: SLnK content",
            )
            check(ids.index(b"SLnK") == ids.index(b"SLNK") + 1, f"{label}: SLnK after SLNK")
        for cid in (b"SXXX", b"SYYY", b"SZZZ", b"SVPR"):
            check(cid in d, f"{label}: {cid} present")
    else:
        for cid in (b"SLNK", b"SLnK", b"SXXX", b"SYYY", b"SZZZ", b"SVPR"):
            check(cid not in d, f"{label}: {cid} absent in synth")
    if module.chnk:
        check(len(d.get(b"CHNK", [])) == 1, f"{label}: one CHNK")
        (count,) = struct.unpack("<I", d[b"CHNK"][0])
        check(count == module.chnk, f"{label}: CHNK value")
        after = ids[ids.index(b"CHNK") + 1 :]
        check(all(c in (b"CHNM", b"CHDT", b"CHFF", b"CHFR") for c in after), f"{label}: only CH* after CHNK")
        for payload in d.get(b"CHNM", []):
            check(struct.unpack("<I", payload)[0] < count, f"{label}: CHNM below CHNK")
        if names:
            check(ids.index(b"CHNK") > ids.index(b"CMID"), f"{label}: CHNK after CMID")
    else:
        check(b"CHNK" not in d and b"CHNM" not in d, f"{label}: no CHNK expected")


def verify_project(label, project):
    data = project.read()
    buf = io.BytesIO()
    project.write_to(buf)
    check(buf.getvalue() == data, f"{label}: read() == write_to()")
    record(label, data)
    chunks = parse(data)
    check(chunks[0] == (b"SVOX", b""), f"{label}: magic")
    ids = [c for c, _ in chunks]
    d = dict((c, p) for c, p in chunks[: ids.index(b"PEND") if b"PEND" in ids else ids.index(b"SFFF")])
    u32 = lambda v: struct.pack("<I", v)
    i32 = lambda v: struct.pack("<i", v)
    check(d[b"VERS"] == bytes(reversed(project.sunvox_version)), f"{label}: VERS")
    check(d[b"BVER"] == bytes(reversed(project.based_on_version)), f"{label}: BVER")
    check(d[b"FLGS"] == u32(project.flags), f"{label}: FLGS")
    check(d[b"SFGS"] == u32(project.receive_sync_midi | project.receive_sync_other << 3), f"{label}: SFGS")
    check(d[b"BPM "] == u32(project.initial_bpm), f"{label}: BPM")
    check(d[b"SPED"] == u32(project.initial_tpl), f"{label}: SPED")
    check(d[b"TGRD"] == u32(project.time_grid), f"{label}: TGRD")
    check(d[b"TGD2"] == u32(project.time_grid2), f"{label}: TGD2")
    check(d[b"GVOL"] == u32(project.global_volume), f"{label}: GVOL")
    check(d[b"NAME"] == project.name.encode("cp1252") + b"\0" or True, f"{label}: NAME")
    check(d[b"MSCL"] == u32(project.modules_scale), f"{label}: MSCL")
    check(d[b"MZOO"] == u32(project.modules_zoom), f"{label}: MZOO")
    check(d[b"MXOF"] == i32(project.modules_x_offset), f"{label}: MXOF")
    check(d[b"MYOF"] == i32(project.modules_y_offset), f"{label}: MYOF")
    check(d[b"LMSK"] == u32(project.modules_layer_mask), f"{label}: LMSK")
    check(d[b"CURL"] == u32(project.modules_current_layer), f"{label}: CURL")
    check((b"TIME" in d) == (project.timeline_position != 0), f"{label}: TIME presence")
    check((b"REPS" in d) == (project.restart_position != 0), f"{label}: REPS presence")
    if b"TIME" in d:
        check(d[b"TIME"] == i32(project.timeline_position), f"{label}: TIME")
    if b"REPS" in d:
        check(d[b"REPS"] == i32(project.restart_position), f"{label}: REPS")
    check(d[b"SELS"] == u32(project.selected_module), f"{label}: SELS")
    check(d[b"LGEN"] == i32(project.selected_generator), f"{label}: LGEN")
    check(d[b"PATN"] == u32(project.current_pattern), f"{label}: PATN")
    check(d[b"PATT"] == u32(project.current_track), f"{label}: PATT")
    check(d[b"PATL"] == u32(project.current_line), f"{label}: PATL")
    header_order = [c for c in ids[: ids.index(b"PATL") + 1]]
    expected_order = [
        b"SVOX", b"VERS", b"BVER", b"FLGS", b"SFGS", b"BPM ", b"SPED", b"TGRD", b"TGD2",
        b"GVOL", b"NAME", b"MSCL", b"MZOO", b"MXOF", b"MYOF", b"LMSK", b"CURL", b"TIME",
        b"REPS", b"SELS", b"LGEN", b"PATN", b"PATT", b"PATL",
    ]
    check(header_order == [c for c in expected_order if c in header_order], f"{label}: header order")
    body = chunks[ids.index(b"PATL") + 1 :]
    pattern_slots, rest = split_slots(body, b"PEND")
    check(len(pattern_slots) == len(project.patterns), f"{label}: PEND count")
    for i, (slot, pattern) in enumerate(zip(pattern_slots, project.patterns)):
        sd = dict(slot)
        if pattern is None:
            check(slot == [], f"{label}: empty pattern slot {i}")
        elif isinstance(pattern, PatternClone):
            check([c for c, _ in slot] == [b"PPAR", b"PFFF", b"PXXX", b"PYYY"], f"{label}: clone slot {i}")
        else:
            check(len(sd[b"PDTA"]) == pattern.lines * pattern.tracks * 8, f"{label}: PDTA size {i}")
            check(sd[b"PCHN"] == u32(pattern.tracks) and sd[b"PLIN"] == u32(pattern.lines), f"{label}: dims {i}")
    module_slots, tail = split_slots(rest, b"SEND")
    check(tail == [], f"{label}: stream ends with SEND")
    check(len(module_slots) == len(project.modules), f"{label}: SEND count")
    for i, (slot, module) in enumerate(zip(module_slots, project.modules)):
        if module is None:
            check(slot == [], f"{label}: empty module slot {i}")
        else:
            verify_module_slot(f"{label}[{i}:{module.mtype}]", slot, module, True)
    return data


def verify_synth(label, synth):
    data = synth.read()
    record(label, data)
    chunks = parse(data)
    check(chunks[0] == (b"SSYN", b""), f"{label}: magic")
    check(chunks[1] == (b"VERS", bytes(reversed(synth.sunsynth_version))), f"{label}: VERS")
    check(chunks[-1] == (b"SEND", b""), f"{label}: SEND")
    check([c for c, _ in chunks].count(b"SEND") == 1, f"{label}: single SEND")
    verify_module_slot(label, chunks[2:-1], synth.module, False)
    return data


def tweak_controllers(module, which):
    """Move Range controllers to their min (0) or max (1) value."""
    for name, ctl in module.controllers.items():
        t = ctl.instance_value_type(module)
        if type(t) is Range or isinstance(t, Range):
            try:
                setattr(module, name, t.min if which == 0 else t.max)
            except Exception:
                pass


def build_everything_project():
    p = Project()
    p.name = "All modules é"
    p.initial_bpm = 140
    p.initial_tpl = 3
    p.global_volume = 256
    p.modules_x_offset = -77
    p.modules_y_offset = 12
    p.modules_layer_mask = 0x5
    p.modules_current_layer = 2
    p.timeline_position = -4
    p.restart_position = 16
    p.selected_module = 3
    p.selected_generator = 2
    p.current_pattern = 1
    p.current_track = 2
    p.current_line = 7
    p.flags = 0x11
    p.receive_sync_midi = Project.SyncCommand.tempo
    p.receive_sync_other = Project.SyncCommand.position | Project.SyncCommand.start_stop
    mods = []
    for i, (mtype, cls) in enumerate(sorted(MODULE_CLASSES.items())):
        if mtype == "Output":
            continue
        m = p.new_module(cls, x=100 + i * 7, y=900 - i * 5, layer=i % 4)
        tweak_controllers(m, i % 2)
        mods.append(m)
    # fan-in creates non-trivial link slots; chains create trivial ones
    for m in mods[:6]:
        m >> p.output
    chain = mods[:9] + mods[10:]  # mods[9] stays unconnected
    for a, b in zip(chain, chain[1:]):
        a >> b
    mods[0] >> mods[5]
    mods[1] >> mods[5]
    p.connect(~mods[1], mods[5])  # leaves a -1 link
    p.connect(mods[0], ~p.output)
    p.modules[mods[9].index] = None  # vacated slot
    p.modules.append(None)
    pat = Pattern(name="pü", tracks=3, lines=5, x=-32, y=64, fg_color=(1, 2, 3), bg_color=(4, 5, 6))
    pat.data[0][0] = Note(note=NOTE.C5, vel=129, module=3, ctl=0x0102, val=0xFFFF, pattern=pat)
    pat.data[4][2] = Note(note=NOTE.a9, vel=1, module=0xFFFF, ctl=0xFFFF, val=1, pattern=pat)
    p += pat
    p.attach_pattern(None)
    p += PatternClone(source=0, x=8, y=-8)
    p += Pattern(tracks=1, lines=1)
    mods[2].controller_midi_maps[next(iter(mods[2].controllers))].channel = 5
    return p


def main():
    # 1. freshly built projects
    verify_project("empty", Project())
    big = build_everything_project()
    verify_project("everything", big)
    verify_project("everything-clone", big.clone())

    p = Project()
    p.modules.append(None)
    p.modules.append(None)
    g = p.new_module(rv.m.Generator)  # fills first vacated slot
    check(g.index == 1, "vacant slot reuse")
    verify_project("vacant", p)

    # 2. one synth per module class, default, min and max controller values
    for mtype, cls in sorted(MODULE_CLASSES.items()):
        for which in (None, 0, 1):
            m = cls()
            if which is not None:
                tweak_controllers(m, which)
            verify_synth(f"synth-{mtype}-{which}", Synth(m))

    # 3. metamodule: attachment is recomputed by Synth, not by Project
    for count in (0, 1, 5, 96):
        mm = rv.m.MetaModule()
        mm.user_defined_controllers = count
        for ud in mm.user_defined:
            ud._attached = False  # stale state: only Synth.chunks refreshes it
        stale = Project()
        stale.attach_module(mm)
        pd = verify_project(f"meta-project-stale-{count}", stale)
        slot = split_slots(parse(pd)[parse(pd).index((b"PATL", b"\0\0\0\0")) + 1 :], b"SEND")[0][1]
        check([c for c, _ in slot].count(b"CVAL") == 5, f"meta stale project count {count}")
        mm2 = rv.m.MetaModule()
        mm2.user_defined_controllers = count
        for ud in mm2.user_defined:
            ud._attached = False
        sd = verify_synth(f"meta-synth-{count}", Synth(mm2))
        check([c for c, _ in parse(sd)].count(b"CVAL") == 5 + count, f"meta synth count {count}")
        mm2.user_defined[0].label = "Lbl" if count else None
        verify_synth(f"meta-synth-label-{count}", Synth(mm2))

    # 4. golden files re-serialised
    for path in sorted(FILES.rglob("*.sun*")):
        try:
            obj = read_sunvox_file(str(path))
        except Exception as e:  # unreadable fixtures are not our concern
            record(f"file-{path.relative_to(FILES)}", repr(type(e)).encode())
            continue
        label = f"file-{path.relative_to(FILES)}"
        if isinstance(obj, Project):
            verify_project(label, obj)
        else:
            verify_synth(label, obj)

    # 5. error behaviour and lazily written prefixes
    try:
        Synth().read()
        check(False, "empty synth must raise")
    except EmptySynthError:
        pass
    try:
        list(Synth(Module()).chunks())
        check(False, "base module must raise")
    except RuntimeError as e:
        check(type(e) is RuntimeError, "base module error type")

    p = Project()
    a = p.new_module(rv.m.Generator)
    b = p.new_module(rv.m.Amplifier)
    a >> b
    b >> p.output
    a >> p.output
    p.output.in_link_slots.append(3)  # inconsistent with in_links
    buf = io.BytesIO()
    try:
        p.write_to(buf)
        check(False, "inconsistent link slots must raise")
    except struct.error:
        pass
    partial = parse(buf.getvalue())
    check(partial[-1][0] == b"SMIP", "nothing of SLNK written before the error")
    record("partial-links", buf.getvalue())

    p = Project()
    a = p.new_module(rv.m.Generator)
    a.in_link_slots.append(9)  # slots without links: ignored
    verify_project("slots-without-links", p)

    p = Project()
    a = p.new_module(rv.m.Generator)
    a.controller_values["volume"] = 2**40  # cannot be packed as int32
    buf = io.BytesIO()
    try:
        p.write_to(buf)
        check(False, "oversized controller value must raise")
    except struct.error:
        pass
    check(parse(buf.getvalue())[-1][0] == b"SLNK", "CVAL error happens after SLNK")
    record("partial-cval", buf.getvalue())
    buf = io.BytesIO()
    try:
        Synth(a).write_to(buf)
        check(False, "oversized controller value must raise (synth)")
    except struct.error:
        pass
    record("partial-cval-synth", buf.getvalue())

    # chunks() stays a lazy generator of 2-tuples
    gen = Project().chunks()
    check(next(gen) == (b"SVOX", b""), "first project chunk")
    gen = Synth(rv.m.Generator()).chunks()
    check(next(gen) == (b"SSYN", b""), "first synth chunk")

    total = hashlib.sha256(
        "".join(f"{k}={v};" for k, v in sorted(digests.items())).encode()
    ).hexdigest()
    if os.environ.get("RV_CHECK_RECORD"):
        print(len(digests), total)
        return 0
    check(len(digests) == EXPECTED_COUNT, f"digest count {len(digests)}")
    check(total == EXPECTED_TOTAL, f"combined digest {total}")
    if failures:
        print("FAIL")
        for f in failures[:40]:
            print("  ", f)
        return 1
    print(f"PASS ({len(digests)} serialisations checked)")
    return 0


EXPECTED_COUNT = 201
EXPECTED_TOTAL = "129a0027688c1cc42b734dd3765bb3d57cb728e8a308f9ac75bf47e8f4bc53c7"

if __name__ == "__main__":
    sys.exit(main())
