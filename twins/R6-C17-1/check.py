"""Behaviour check for C17-1 (array/waveform chunks and sampler envelopes).

Compares the library against small reference implementations written out
long-hand in this file, over many inputs, and checks that instances never
share list payloads.  Must print PASS on the original and the patched tree.
"""
import io
import os
import random
import struct
import sys
from itertools import chain
from struct import pack, unpack

import rv
from rv.chunks import ArrayChunk, DrawnWaveformChunk, WaveformChunk
from rv.modules.analoggenerator import AnalogGenerator
from rv.modules.fmx import Fmx
from rv.modules.generator import Generator
from rv.modules.metamodule import MetaModule
from rv.modules.multictl import MultiCtl
from rv.modules.multisynth import MultiSynth
from rv.modules.sampler import Sampler
from rv.modules.spectravoice import SpectraVoice
from rv.modules.waveshaper import WaveShaper
from rv.readers.reader import read_sunvox_file
from rv.synth import Synth

ROOT = os.path.dirname(os.path.dirname(os.path.dirname(os.path.dirname(rv.__file__))))
FILES = os.path.join(ROOT, "tests", "files")
rnd = random.Random(1717)
checks = 0


def ok(cond, msg):
    global checks
    checks += 1
    if not cond:
        print("FAIL:", msg)
        sys.exit(1)


def raises(exc, fn, msg):
    try:
        fn()
    except exc:
        ok(True, msg)
    except BaseException as e:  # noqa
        ok(False, f"{msg}: expected {exc.__name__}, got {type(e).__name__}: {e}")
    else:
        ok(False, f"{msg}: expected {exc.__name__}, nothing raised")


# --------------------------------------------------------------------------
# reference implementations (long-hand)
# --------------------------------------------------------------------------
def ref_array_bytes(chunk):
    return pack("<" + chunk.type * chunk.length, *chunk.encoded_values)


def ref_array_decode(cls_or_chunk, value):
    out = []
    es = cls_or_chunk.element_size
    for i in range(len(value) // es):
        data = value[i * es : i * es + es]
        un = unpack("<" + cls_or_chunk.type, data)
        if len(un) == 1:
            (un,) = un
        out.append(cls_or_chunk.python_type(un))
    return out


def ref_set_via_fn(chunk, fn):
    out = []
    for x in range(chunk.length):
        y = fn(x)
        if chunk.min_value:
            y = max(y, chunk.min_value)
        if chunk.max_value:
            y = min(y, chunk.max_value)
        out.append(y)
    return out


def ref_env_chdt(env):
    data = pack("<HBBB", env.enable | env.sustain * 2 | env.loop * 4, env.ctl_index,
                env.gain_pct, env.velocity)
    data += b"\0\0\0"
    data += pack("<HHHH", len(env.points), env.sustain_point, env.loop_start_point,
                 env.loop_end_point)
    data += b"\0\0\0\0"
    for x, y in env.points:
        data += pack("<HH", x, y - env.range[0])
    return data


def ref_point_bytes(env):
    xs = [x for x, y in env.points]
    ys = [y // 0x200 for x, y in env.points]
    while len(xs) < 12:
        xs.append(0)
    while len(ys) < 12:
        ys.append(0)
    xs, ys = xs[:12], ys[:12]
    ys = [y - env.range[0] // 0x200 for y in ys]
    vals = list(chain.from_iterable(zip(xs, ys)))
    return pack("<" + "H" * len(vals), *vals)


# --------------------------------------------------------------------------
# ArrayChunk: custom subclasses covering every reset() branch
# --------------------------------------------------------------------------
class NoDefault(ArrayChunk):
    chnm = 7
    length = 5
    type = "h"
    element_size = 2


class ListDefault(ArrayChunk):
    chnm = 8
    length = 4
    type = "B"
    element_size = 1
    default = [9, 8, 7, 6]


class ScalarDefault(ArrayChunk):
    chnm = 9
    length = 3
    type = "I"
    element_size = 4
    default = 77


class FnDefault(ArrayChunk):
    chnm = 10
    length = 6
    type = "H"
    element_size = 2
    min_value = 2
    max_value = 4

    def default(self, x):
        return x


class FnLowerOnly(FnDefault):
    max_value = None


class FnUpperOnly(FnDefault):
    min_value = None


class FnZeroBounds(FnDefault):
    min_value = 0
    max_value = 0


class Pairs(ArrayChunk):
    chnm = 11
    length = 3
    type = "Bh"
    element_size = 3
    python_type = tuple


class FloatChunk(ArrayChunk):
    chnm = 12
    length = 2
    type = "f"
    element_size = 4
    python_type = float
    default = 0.5


ok(NoDefault().values == [0] * 5, "None default -> zeros")
ok(ListDefault().values == [9, 8, 7, 6], "list default")
ok(ScalarDefault().values == [77] * 3, "scalar default")
ok(FnDefault().values == [2, 2, 2, 3, 4, 4], "fn default clamped both")
ok(FnLowerOnly().values == [2, 2, 2, 3, 4, 5], "fn default clamped lower")
ok(FnUpperOnly().values == [0, 1, 2, 3, 4, 4], "fn default clamped upper")
ok(FnZeroBounds().values == [0, 1, 2, 3, 4, 5], "falsy bounds do not clamp")
ok(FloatChunk().values == [0.5, 0.5], "float scalar default")

# list default must be copied: instance lists are distinct from class + peers
a, b = ListDefault(), ListDefault()
ok(a.values is not b.values and a.values is not ListDefault.default, "no aliasing")
a.values[0] = 200
a.values.append(1)
ok(b.values == [9, 8, 7, 6] and ListDefault.default == [9, 8, 7, 6], "peer unchanged")
a.reset()
ok(a.values == [9, 8, 7, 6] and a.values is not ListDefault.default, "reset recopies")
a.values.clear()
ok(ListDefault().values == [9, 8, 7, 6], "class default intact after clear")

# reset when default overridden on the instance
c = ScalarDefault()
c.default = [1, 2]
c.reset()
ok(c.values == [1, 2] and c.values is not c.default, "instance list default copied")
c.default = None
c.reset()
ok(c.values == [0, 0, 0], "instance None default")
c.default = lambda x: x * 3
c.reset()
ok(c.values == [0, 3, 6], "instance callable default")

# set_via_fn: call order, bounds, and values untouched when fn raises
for cls in (FnDefault, FnLowerOnly, FnUpperOnly, FnZeroBounds, NoDefault):
    ch = cls()
    calls = []

    def fn(x, calls=calls):
        calls.append(x)
        return (x * 7) % 5

    ch.set_via_fn(fn)
    ok(calls == list(range(ch.length)), f"{cls.__name__} fn call order")
    ok(ch.values == ref_set_via_fn(ch, lambda x: (x * 7) % 5), f"{cls.__name__} set_via_fn")
    before = ch.values

    def bad(x):
        if x == 2:
            raise KeyError(x)
        return x

    raises(KeyError, lambda: ch.set_via_fn(bad), "fn error propagates")
    ok(ch.values is before, "values kept when fn fails")
ch = FnDefault()
ch.set_via_fn(lambda x: 3.5)
ok(ch.values == [3.5] * 6, "float results pass through clamp")

# bytes getter / setter on custom chunks
for cls in (NoDefault, ListDefault, ScalarDefault, FnDefault, FloatChunk):
    ch = cls()
    ok(ch.bytes == ref_array_bytes(ch), f"{cls.__name__} bytes")
    ok(ch.chdt() == ch.bytes, "chdt is bytes")
    ok(list(ch.chunks())[:2] == [(b"CHNM", pack("<I", cls.chnm)), (b"CHDT", ch.bytes)],
       "chunks()")
    for n in (0, 1, cls.element_size - 1, cls.element_size, cls.element_size * 3 + 1,
              cls.element_size * 9):
        raw = bytes(rnd.randrange(0, 120) for _ in range(n))
        ch.bytes = raw
        exp = ref_array_decode(cls, raw)
        ok(ch.values == exp and [type(v) for v in ch.values] == [type(v) for v in exp],
           f"{cls.__name__} decode {n} bytes")
        for buf in (bytearray(raw), memoryview(raw)):
            ch.bytes = buf
            ok(ch.values == exp, "decode from bytearray/memoryview")
p = Pairs()
p.bytes = bytes(range(10))
ok(p.values == [(0, 0x0201), (3, 0x0504), (6, 0x0807)], "multi-field elements -> tuples")
p.values = [(1, -2), (3, -4), (5, 6)]
raises(struct.error, lambda: p.bytes, "multi-field needs flat encoded values")
ch = NoDefault()
old = ch.values
ch.bytes = b""
ok(ch.values == [] and ch.values is not old, "empty data -> fresh empty list")
ch.values = [1, 2]
raises(struct.error, lambda: ch.bytes, "wrong item count")
ch.values = [1, 2, 3, 4, 70000]
raises(struct.error, lambda: ch.bytes, "out of range item")
raises(TypeError, lambda: setattr(ch, "bytes", 5), "non-buffer input")
ok(ch.values == [], "values reset to [] before failing")
raises(TypeError, lambda: setattr(ch, "bytes", "abcd"), "str input")
ok(ch.values == [], "values reset to [] before failing (str)")
raises(TypeError, lambda: setattr(ArrayChunk.__new__(ArrayChunk), "bytes", b"ab"),
       "base class has no element size")
raises(TypeError, lambda: ArrayChunk(), "base class cannot reset")

# each freshly decoded list is private
x, y = ListDefault(), ListDefault()
x.bytes = b"\x01\x02\x03\x04"
y.bytes = b"\x01\x02\x03\x04"
ok(x.values == y.values and x.values is not y.values, "decoded lists are distinct")
x.values[1] = 99
ok(y.values == [1, 2, 3, 4] and y.bytes == b"\x01\x02\x03\x04", "decoded peer unchanged")

# --------------------------------------------------------------------------
# library ArrayChunk subclasses
# --------------------------------------------------------------------------
lib_chunks = [
    WaveShaper.curve_chunk,
    MultiCtl.curve_chunk,
    MultiSynth.note_velocity_curve_chunk,
    MultiSynth.velocity_velocity_curve_chunk,
    MultiSynth.note_pitch_curve_chunk,
    SpectraVoice.harmonic_freqs_chunk,
    SpectraVoice.harmonic_volumes_chunk,
    SpectraVoice.harmonic_widths_chunk,
    SpectraVoice.harmonic_types_chunk,
    Fmx.custom_waveform_chunk,
]
for cls in lib_chunks:
    u, v = cls(), cls()
    ok(u.values == v.values and u.values is not v.values, f"{cls.__name__} distinct lists")
    ok(len(u.values) == cls.length, f"{cls.__name__} default length")
    ok(u.bytes == ref_array_bytes(u), f"{cls.__name__} default bytes")
    snap = (list(v.values), v.bytes)
    raw = u.bytes
    u.values[0] = u.values[-1]
    u.values.reverse()
    ok((list(v.values), v.bytes) == snap, f"{cls.__name__} peer isolated")
    ok(cls().values == snap[0], f"{cls.__name__} class default intact")
    u.bytes = raw
    ok(u.values == snap[0], f"{cls.__name__} roundtrip")
    ok(u.values == ref_array_decode(u, raw), f"{cls.__name__} decode matches reference")
    u.bytes = raw[: cls.element_size * 3] + b"\x01"[: cls.element_size - 1]
    ok(len(u.values) == 3, f"{cls.__name__} trailing partial element ignored")
ht = SpectraVoice.harmonic_types_chunk()
ht.bytes = bytes([0, 1, 2, 3])
ok(ht.values == [SpectraVoice.HarmonicType(i) for i in range(4)], "enum decode")
raises(ValueError, lambda: setattr(ht, "bytes", bytes([0, 1, 200, 3])), "bad enum value")
ok(ht.values == [SpectraVoice.HarmonicType(0), SpectraVoice.HarmonicType(1)],
   "elements before the bad one are kept")

for cls, mk in ((MetaModule.MappingArray, MetaModule.Mapping), (MultiCtl.MappingArray, MultiCtl.Mapping)):
    m1, m2 = cls(), cls()
    ok(len(m1.values) == cls.length, "mapping defaults length")
    ok(all(p is not q for p, q in zip(m1.values, m2.values)), "mapping objects distinct")
    ok(len({id(o) for o in m1.values}) == cls.length, "mapping objects distinct within")
    ok(m1.bytes == ref_array_bytes(m1), "mapping bytes")
    snap = m2.bytes
    if cls is MetaModule.MappingArray:
        m1.values[0].module, m1.values[0].controller = 3, 4
        raw = pack("<HHHH", 1, 2, 3, 4)
        m1.bytes = raw
        ok(len(m1.values) == 96, "metamodule mappings padded to 96")
        ok([(v.module, v.controller) for v in m1.values[:3]] == [(1, 2), (3, 4), (0, 0)],
           "metamodule mapping decode")
        ok(m1.bytes[:8] == raw and m1.bytes[8:] == b"\0" * (95 * 4 - 4), "re-encode")
    else:
        m1.values[0].min = 5
        raw = pack("<16I", *range(16))
        m1.bytes = raw
        ok(len(m1.values) == 2, "multictl mapping decode length")
        ok((m1.values[1].min, m1.values[1].future_use5) == (8, 15), "multictl mapping decode")
    ok(m2.bytes == snap, "mapping peer isolated")

# --------------------------------------------------------------------------
# WaveformChunk / DrawnWaveformChunk
# --------------------------------------------------------------------------
w = WaveformChunk()
ok(w.samples == [] and w.format is None and w.freq is None, "plain waveform defaults")
ok(w.bytes == b"" and w.chdt() == b"", "empty waveform bytes")
w.samples = [0, 1, -1, 127, -128, 255, 256, -129, 1000, -1000, True]
ok(w.bytes == bytes(v % 256 for v in [0, 1, -1, 127, -128, 255, 256, -129, 1000, -1000, 1]),
   "sample bytes wrap to 8 bits")
w.samples = [1.5]
raises(TypeError, lambda: w.bytes, "float samples rejected")
w.samples = [1, 2]
for fmt in WaveformChunk.Format:
    w.format = fmt
    if fmt is WaveformChunk.Format.mono_8bit:
        ok(w.bytes == b"\x01\x02", "mono 8 bit supported")
    else:
        raises(NotImplementedError, lambda: w.bytes, f"{fmt.name} unsupported")
    ok(w.chff() == pack("<I", fmt.value), "chff")
w.format = 1
raises(NotImplementedError, lambda: w.bytes, "int format is not the enum member")
w.format = None
raises(AttributeError, w.chff, "chff without format")
raises(struct.error, w.chfr, "chfr without freq")
w.freq = 22050
ok(w.chfr() == pack("<I", 22050), "chfr")
w.freq = -1
raises(struct.error, w.chfr, "chfr negative")

for cls in (DrawnWaveformChunk, Generator.DrawnWaveform, AnalogGenerator.DrawnWaveform):
    d1, d2 = cls(), cls()
    ok(d1.samples == cls.default and d1.samples is not cls.default, "drawn default copied")
    ok(d1.samples is not d2.samples, "drawn peers distinct")
    ok(d1.format is WaveformChunk.Format.mono_8bit and d1.freq == 44100, "fixed fmt/freq")
    ok("format" in vars(d1) and "freq" in vars(d1), "fixed values stored on instance")
    ok(d1.is_default and list(d1.chunks()) == [], "default waveform not written")
    snap = (list(d2.samples), d2.bytes, list(cls.default))
    d1.samples[3] = 55
    d1.samples.append(7)
    ok((list(d2.samples), d2.bytes, list(cls.default)) == snap, "drawn peer isolated")
    ok(cls().samples == snap[0], "fresh instance sees pristine default")
    if d1.chnm is None:
        raises(struct.error, lambda: list(d1.chunks()), "base drawn chunk has no chnm")
        d1.chnm = 0
    ch = list(d1.chunks())
    ok([k for k, _ in ch][:2] == [b"CHNM", b"CHDT"], "modified waveform written")
    ok(dict(ch)[b"CHDT"] == bytes(v & 255 for v in d1.samples), "written bytes")
    ok(dict(ch).get(b"CHFR") == pack("<I", 44100), "written freq")


class NoFixed(WaveformChunk):
    default = [1, 2, 3]


nf = NoFixed()
ok(nf.samples == [1, 2, 3] and nf.samples is not NoFixed.default, "default sliced")
ok("format" not in vars(nf) and "freq" not in vars(nf), "no fixed -> nothing stored")

# --------------------------------------------------------------------------
# Sampler envelopes / note map
# --------------------------------------------------------------------------
def envs():
    return [Sampler.VolumeEnvelope(), Sampler.PanningEnvelope(), Sampler.PitchEnvelope(),
            Sampler.EffectControlEnvelope(0x105)]


for e in envs():
    ok(dict(e.chunks()) == {b"CHNM": pack("<I", e.chnm), b"CHDT": ref_env_chdt(e)},
       "default envelope chunks")
    ok([k for k, _ in e.chunks()] == [b"CHNM", b"CHDT"], "chunk order")
    ok(type(dict(e.chunks())[b"CHDT"]) is bytes, "CHDT is bytes")
    ok(e.point_bytes == ref_point_bytes(e), "default point_bytes")
    ok(len(e.point_bytes) == 48, "point table is 48 bytes")
    lo, hi = e.range
    for n in (0, 1, 2, 11, 12, 13, 40):
        e.points = [(rnd.randrange(0, 0x10000), rnd.randrange(lo, hi + 1)) for _ in range(n)]
        e.enable, e.sustain, e.loop = (bool(rnd.getrandbits(1)) for _ in range(3))
        e.ctl_index, e.gain_pct, e.velocity = (rnd.randrange(256) for _ in range(3))
        e.sustain_point, e.loop_start_point, e.loop_end_point = (
            rnd.randrange(0x10000) for _ in range(3))
        chdt = dict(e.chunks())[b"CHDT"]
        ok(chdt == ref_env_chdt(e), f"envelope chdt with {n} points")
        ok(e.point_bytes == ref_point_bytes(e), f"point_bytes with {n} points")
        f = type(e)(0x106) if isinstance(e, Sampler.EffectControlEnvelope) else type(e)()
        ok(not f.loaded, "fresh envelope not loaded")
        old_points = f.points
        f.load_chdt(chdt)
        ok(f.loaded and f.points == e.points and f.points is not old_points, "load points")
        ok(all(type(p) is tuple for p in f.points), "points are tuples")
        ok((f.enable, f.sustain, f.loop, f.ctl_index, f.gain_pct, f.velocity, f.sustain_point,
            f.loop_start_point, f.loop_end_point) ==
           (e.enable, e.sustain, e.loop, e.ctl_index, e.gain_pct, e.velocity, e.sustain_point,
            e.loop_start_point, e.loop_end_point), "load header")
        ok(f.bitmask == e.bitmask, "bitmask")
        # trailing garbage after the declared points is ignored
        g = Sampler.VolumeEnvelope()
        g.range = e.range
        g.load_chdt(chdt + b"\xff\xff\xff")
        ok(g.points == e.points, "trailing bytes ignored")
    # truncated data: partial points stay, loaded stays False
    e.points = [(1, lo), (2, lo + 1), (3, lo + 2)]
    chdt = dict(e.chunks())[b"CHDT"]
    t = Sampler.VolumeEnvelope()
    t.range = e.range
    raises(struct.error, lambda: t.load_chdt(chdt[:-2]), "truncated point")
    ok(t.points == e.points[:2] and not t.loaded, "partial points kept, not loaded")
    t2 = Sampler.VolumeEnvelope()
    keep = t2.points
    raises(struct.error, lambda: t2.load_chdt(chdt[:10]), "truncated header")
    ok(t2.points is keep and not t2.loaded and t2.gain_pct == 100, "nothing assigned")
    # out-of-range / malformed points
    e.points = [(0, hi + 0x10000)]
    raises(struct.error, lambda: list(e.chunks()), "y too large")
    e.points = [(0, lo - 1)]
    raises(struct.error, lambda: list(e.chunks()), "y below range")
    e.points = [(1, 2, 3)]
    raises(ValueError, lambda: list(e.chunks()), "malformed point")
    raises(ValueError, lambda: e.point_bytes, "malformed point in point_bytes")
    it = e.chunks()
    ok(next(it) == (b"CHNM", pack("<I", e.chnm)), "CHNM is yielded before data is built")
    e.points = [(0, lo)] * 13 + [(1, 2, 3)]
    raises(ValueError, lambda: e.point_bytes, "malformed point past slot 12")
    e.points = ()
    ok(dict(e.chunks())[b"CHDT"] == ref_env_chdt(e) and len(ref_env_chdt(e)) == 0x14,
       "tuple of no points")
    e.points = ((5, lo), (6, hi))
    ok(dict(e.chunks())[b"CHDT"] == ref_env_chdt(e), "tuple of points")

# envelope defaults are copied per instance
for cls in (Sampler.VolumeEnvelope, Sampler.PanningEnvelope, Sampler.PitchEnvelope):
    e1, e2 = cls(), cls()
    ok(e1.points == cls.initial_points and e1.points is not cls.initial_points
       and e1.points is not e2.points, "initial points copied")
    snap = (list(e2.points), dict(e2.chunks()), list(cls.initial_points))
    e1.points.append((0x200, 0))
    e1.points[0] = (0, 1)
    ok((list(e2.points), dict(e2.chunks()), list(cls.initial_points)) == snap, "peer isolated")

nm1, nm2 = Sampler.NoteSampleMap(), Sampler.NoteSampleMap()
keys = list(nm1.keys())
ok(len(keys) == 119 and nm1.bytes == b"\0" * 119, "note map default")
nm1.bytes = bytes(range(96))
ok(nm1.bytes == bytes(range(96)) + b"\0" * 23, "short assignment keeps tail")
ok(list(nm1.keys()) == keys, "keys and their order unchanged")
nm1.bytes = bytes(range(10, 138))
ok(nm1.bytes == bytes(range(10, 129)), "long assignment truncated")
nm1.bytes = b""
ok(nm1.bytes == bytes(range(10, 129)), "empty assignment is a no-op")
nm1.bytes = [7, 8]
ok(nm1.bytes[:3] == bytes([7, 8, 12]), "list assignment")
ok(nm2.bytes == b"\0" * 119, "peer note map untouched")


def gen():
    yield 1
    yield 2
    raise KeyError("boom")


raises(KeyError, lambda: setattr(nm2, "bytes", gen()), "iterator failure propagates")
ok(nm2.bytes[:3] == b"\x01\x02\x00", "items before the failure were assigned")

# --------------------------------------------------------------------------
# whole-module round trips through files
# --------------------------------------------------------------------------
def synth_bytes(mod):
    f = io.BytesIO()
    Synth(mod).write_to(f)
    return f.getvalue()


for name in ("sampler", "waveshaper", "multictl", "multisynth", "spectravoice", "fmx",
             "generator", "analog-generator", "metamodule"):
    path = os.path.join(FILES, name + ".sunsynth")
    with open(path, "rb") as fh:
        m1 = read_sunvox_file(fh).module
    with open(path, "rb") as fh:
        m2 = read_sunvox_file(fh).module
    b1, b2 = synth_bytes(m1), synth_bytes(m2)
    ok(b1 == b2, f"{name}: two loads serialise identically")
    m3 = m1.clone()
    ok(synth_bytes(m3) == b1, f"{name}: clone serialises identically")
    ok(synth_bytes(read_sunvox_file(io.BytesIO(b1)).module) == b1, f"{name}: stable roundtrip")
    # mutate list payloads of m1, peers must not move
    if name == "sampler":
        m1.volume_envelope.points.append((0x300, 0x1000))
        m1.effect_control_envelopes[2].points[0] = (0, 0)
        m1.note_samples.bytes = bytes([1] * 119)
    elif name in ("waveshaper", "multictl"):
        m1.curve.values[5] = 1
        if name == "multictl":
            m1.mappings.values[0].min = 99
    elif name == "multisynth":
        m1.nv_curve.values[0] = 1
        m1.vv_curve.values[0] = 1
        m1.np_curve.values[0] = 1
    elif name == "spectravoice":
        m1.harmonic_freqs.values[1] = 500
        m1.harmonic_types.values[1] = SpectraVoice.HarmonicType(3)
    elif name == "fmx":
        m1.custom_waveform.values[3] = 0.25
    elif name in ("generator", "analog-generator"):
        m1.drawn_waveform.samples[0] = 100
    elif name == "metamodule":
        m1.mappings.values[0].module += 5
        m1.mappings.values[40].controller = 9
    ok(synth_bytes(m1) != b1, f"{name}: mutation is visible in the mutated module")
    ok(synth_bytes(m2) == b2 and synth_bytes(m3) == b1, f"{name}: peers and clone isolated")
    fresh = type(m1)()
    ok(synth_bytes(type(m1)()) == synth_bytes(fresh), f"{name}: fresh instances pristine")

print(f"PASS ({checks} checks)")
