"""Behaviour check for the Project.chunks() / Module.iff_chunks() tidy-up.

Compares the chunk stream produced by the library with an independent
reference encoder kept in this file, for a range of generated projects,
then checks save/load round trips and the "partial output" behaviour
when a field cannot be packed.

Run:  cd <root> && PYTHONPATH=<root>/src/python /venv/bin/python check.py
"""
import logging
import random
import struct
import sys
from io import BytesIO
from struct import pack

from rv import ENCODING
from rv.api import NOTECMD, Pattern, PatternClone, Project, Synth, m, read_sunvox_file
from rv.modules import MODULE_CLASSES

logging.disable(logging.CRITICAL)

FAILURES = []


def expect(cond, label):
    if not cond:
        FAILURES.append(label)
        print("FAIL:", label)


# --------------------------------------------------------------------------
# reference encoder (written out long-hand, independent of the library code)
# --------------------------------------------------------------------------
def ref_module_header(mod, in_project):
    out = []
    out.append((b"SFFF", pack("<I", mod.flags)))
    raw = mod.name.encode("utf8")[:32]
    while True:
        try:
            raw.decode("utf8")
            break
        except UnicodeDecodeError as e:
            # drop invalid bytes exactly like errors="ignore" would
            raw = raw.decode("utf8", "ignore").encode("utf8")
    out.append((b"SNAM", raw + b"\0" * (32 - len(raw))))
    if mod.mtype is not None and mod.mtype != "Output":
        out.append((b"STYP", mod.mtype.encode("utf8") + b"\0"))
    out.append((b"SFIN", pack("<i", mod.mod_finetune)))
    out.append((b"SREL", pack("<i", mod.mod_relative_note)))
    if in_project:
        out.append((b"SXXX", pack("<i", mod.x)))
        out.append((b"SYYY", pack("<i", mod.y)))
        out.append((b"SZZZ", pack("<i", mod.layer)))
    out.append((b"SSCL", pack("<I", mod.mod_scale)))
    if in_project:
        out.append((b"SVPR", pack("<I", int(mod.visualization))))
    out.append((b"SCOL", pack("BBB", *mod.color)))
    out.append((b"SMII", pack("<I", int(mod.midi_in_always) + mod.midi_in_channel * 2)))
    if mod.midi_out_name:
        out.append((b"SMIN", mod.midi_out_name.encode("utf8") + b"\0"))
    out.append((b"SMIC", pack("<I", mod.midi_out_channel)))
    out.append((b"SMIB", pack("<i", mod.midi_out_bank)))
    out.append((b"SMIP", pack("<i", mod.midi_out_program)))
    return out


def ref_project_chunks(p):
    out = [(b"SVOX", b"")]
    out.append((b"VERS", bytes(reversed(p.sunvox_version))))
    out.append((b"BVER", bytes(reversed(p.based_on_version))))
    out.append((b"FLGS", pack("<I", p.flags)))
    out.append((b"SFGS", pack("<I", p.receive_sync_midi | (p.receive_sync_other << 3))))
    out.append((b"BPM ", pack("<I", p.initial_bpm)))
    out.append((b"SPED", pack("<I", p.initial_tpl)))
    out.append((b"TGRD", pack("<I", p.time_grid)))
    out.append((b"TGD2", pack("<I", p.time_grid2)))
    out.append((b"GVOL", pack("<I", p.global_volume)))
    out.append((b"NAME", p.name.encode("utf8") + b"\0"))
    out.append((b"MSCL", pack("<I", p.modules_scale)))
    out.append((b"MZOO", pack("<I", p.modules_zoom)))
    out.append((b"MXOF", pack("<i", p.modules_x_offset)))
    out.append((b"MYOF", pack("<i", p.modules_y_offset)))
    out.append((b"LMSK", pack("<I", p.modules_layer_mask)))
    out.append((b"CURL", pack("<I", p.modules_current_layer)))
    if p.timeline_position != 0:
        out.append((b"TIME", pack("<i", p.timeline_position)))
    if p.restart_position != 0:
        out.append((b"REPS", pack("<i", p.restart_position)))
    out.append((b"SELS", pack("<I", p.selected_module)))
    out.append((b"LGEN", pack("<i", p.selected_generator)))
    out.append((b"PATN", pack("<I", p.current_pattern)))
    out.append((b"PATT", pack("<I", p.current_track)))
    out.append((b"PATL", pack("<I", p.current_line)))
    for pat in p.patterns:
        if pat is not None:
            out.extend(pat.iff_chunks())
        out.append((b"PEND", b""))
    for mod in p.modules:
        if mod is not None:
            out.extend(ref_module_header(mod, True))
            links, slots = list(mod.in_links), list(mod.in_link_slots)
            if links:
                fmt = "<%di" % len(links)
                out.append((b"SLNK", pack(fmt, *links)))
                if [s for s in slots if s != -1 and s != 0]:
                    out.append((b"SLnK", pack(fmt, *slots)))
            else:
                out.append((b"SLNK", b""))
            names = [n for n, c in mod.controllers.items() if c.attached(mod)]
            for n in names:
                out.append((b"CVAL", pack("<i", mod.get_raw(n))))
            if names:
                cmid = b""
                for n in names:
                    cmid += mod.controller_midi_maps[n].cmid_data
                out.append((b"CMID", cmid))
            if mod.chnk:
                out.append((b"CHNK", pack("<I", mod.chnk)))
                out.extend(mod.specialized_iff_chunks())
        out.append((b"SEND", b""))
    return out


# --------------------------------------------------------------------------
# project generators
# --------------------------------------------------------------------------
NAMES = [
    "",
    "plain",
    "x" * 31,
    "x" * 32,
    "x" * 33,
    "x" * 31 + "é",  # 2-byte char straddles byte 32
    "x" * 30 + "€",  # 3-byte char straddles byte 32
    "x" * 29 + "\U0001f3b5",  # 4-byte char ends exactly at 33
    "\U0001f3b5" * 9,  # 36 bytes -> 8 chars fit
    "é" * 16,  # exactly 32 bytes
    "é" * 17,
    "naïve ♫ module name that is long",
]

ATTACHABLE = sorted(k for k in MODULE_CLASSES if k != "Output")


def random_project(rng, n_modules, all_types=False):
    p = Project()
    p.name = rng.choice(NAMES)
    p.flags = rng.getrandbits(32)
    p.initial_bpm = rng.randrange(1, 1000)
    p.initial_tpl = rng.randrange(1, 32)
    p.global_volume = rng.randrange(0, 257)
    p.time_grid = rng.randrange(1, 64)
    p.time_grid2 = rng.randrange(1, 64)
    p.modules_scale = rng.randrange(1, 1024)
    p.modules_zoom = rng.randrange(1, 1024)
    p.modules_x_offset = rng.randrange(-5000, 5000)
    p.modules_y_offset = rng.randrange(-5000, 5000)
    p.modules_layer_mask = rng.getrandbits(32)
    p.modules_current_layer = rng.randrange(0, 8)
    p.timeline_position = rng.choice([0, 0, -7, 12, 2**31 - 1])
    p.restart_position = rng.choice([0, 0, -3, 99])
    p.selected_module = rng.randrange(0, 20)
    p.selected_generator = rng.choice([-1, 0, 5])
    p.current_pattern = rng.randrange(0, 9)
    p.current_track = rng.randrange(0, 9)
    p.current_line = rng.randrange(0, 99)
    p.receive_sync_midi = rng.randrange(0, 8)
    p.receive_sync_other = rng.randrange(0, 8)
    p.output.name = rng.choice(NAMES)
    types = ATTACHABLE if all_types else [rng.choice(ATTACHABLE) for _ in range(n_modules)]
    mods = []
    for t in types:
        if rng.random() < 0.15:
            p.attach_module(None)
        mod = p.new_module(MODULE_CLASSES[t])
        mod.name = rng.choice(NAMES)
        mod.x = rng.randrange(-2000, 2000)
        mod.y = rng.randrange(-2000, 2000)
        mod.layer = rng.randrange(0, 8)
        mod.mod_scale = rng.randrange(1, 1024)
        mod.mod_finetune = rng.randrange(-256, 257)
        mod.mod_relative_note = rng.randrange(-64, 65)
        mod.color = (rng.randrange(256), rng.randrange(256), rng.randrange(256))
        mod.midi_in_always = rng.random() < 0.5
        mod.midi_in_channel = rng.randrange(0, 17)
        mod.midi_out_name = rng.choice([None, "", "dev", "gerät"])
        mod.midi_out_channel = rng.randrange(0, 17)
        mod.midi_out_bank = rng.randrange(-1, 128)
        mod.midi_out_program = rng.randrange(-1, 128)
        mod.visualization = rng.getrandbits(28)
        names = [n for n, c in mod.controllers.items() if c.attached(mod)]
        for n in names:
            if rng.random() < 0.3:
                cm = mod.controller_midi_maps[n]
                cm.channel = rng.randrange(0, 17)
                cm.message_parameter = rng.randrange(0, 128)
        mods.append(mod)
    # links, including re-connects, disconnects and fan-in (non-zero slots)
    everything = [p.output] + mods
    for _ in range(len(everything) * 2):
        a, b = rng.choice(everything), rng.choice(everything)
        if a is b:
            continue
        if rng.random() < 0.2:
            p.connect(~a, b)
        else:
            p.connect(a, b)
    # patterns
    for _ in range(rng.randrange(0, 5)):
        r = rng.random()
        if r < 0.2:
            p.attach_pattern(None)
        elif r < 0.4 and any(isinstance(x, Pattern) for x in p.patterns):
            src = [i for i, x in enumerate(p.patterns) if isinstance(x, Pattern)]
            p.attach_pattern(PatternClone(source=rng.choice(src), x=rng.randrange(-9, 99), y=rng.randrange(-9, 99)))
        else:
            pat = Pattern(
                name=rng.choice([None, "", "pat", "pät"]),
                tracks=rng.randrange(1, 6),
                lines=rng.randrange(1, 9),
                x=rng.randrange(-99, 99),
                y=rng.randrange(-99, 99),
            )
            for line in pat.data:
                for note in line:
                    if rng.random() < 0.5:
                        note.note = rng.choice([NOTECMD.C4, NOTECMD.NOTE_OFF, NOTECMD.EMPTY, NOTECMD.SET_PITCH])
                        note.vel = rng.randrange(0, 130)
                        note.module = rng.randrange(0, 0x10000)
                        note.ctl = rng.randrange(0, 0x10000)
                        note.val = rng.randrange(0, 0x10000)
            p.attach_pattern(pat)
    return p


def same_stream(p, label):
    got = list(p.chunks())
    want = ref_project_chunks(p)
    expect(got == want, label + ": chunk stream equals reference")
    if got != want:
        for i, (g, w) in enumerate(zip(got, want)):
            if g != w:
                print("  first difference at", i, g, w)
                break
    return got


def roundtrip(p, label):
    data = p.read()
    q = read_sunvox_file(BytesIO(data))
    # (trailing "disconnected" link entries are dropped when loading)
    holes = any(mod is not None and mod.in_links[-1:] == [-1] for mod in p.modules)
    if not holes:
        expect(q.read() == data, label + ": reload + resave is byte identical")
    data2 = q.read()
    expect(read_sunvox_file(BytesIO(data2)).read() == data2, label + ": second generation is stable")
    expect(len(q.modules) <= len(p.modules), label + ": module count")
    for a, b in zip(p.modules, q.modules):
        expect((a is None) == (b is None), label + ": empty slots preserved")
        if a is None or b is None:
            continue
        expect(type(a) is type(b), label + ": module type")
        want = a.name.encode("utf8")[:32].decode("utf8", "ignore")
        expect(b.name == want, label + ": module name %r -> %r" % (a.name, b.name))
        trimmed = list(a.in_links)
        while trimmed[-1:] == [-1]:
            trimmed.pop()
        expect(b.in_links == trimmed, label + ": in_links")
        expect(tuple(b.color) == tuple(a.color), label + ": color")
    expect(len(q.patterns) == len(p.patterns), label + ": pattern count")


def main():
    rng = random.Random(20240117)

    # 1. default project
    p = Project()
    got = same_stream(p, "default")
    expect([n for n, _ in got][:3] == [b"SVOX", b"VERS", b"BVER"], "default: header order")
    expect(got[-1] == (b"SEND", b""), "default: ends with SEND")
    expect((b"SLNK", b"") in got, "default: output without links has empty SLNK")
    roundtrip(p, "default")

    # 2. one of every attachable type
    p = random_project(rng, 0, all_types=True)
    same_stream(p, "all types")
    roundtrip(p, "all types")

    # 3. random projects
    for i in range(40):
        p = random_project(rng, rng.randrange(0, 8))
        same_stream(p, "random %d" % i)
        roundtrip(p, "random %d" % i)

    # 4. link slot edge cases
    p = Project()
    a, b, c = p.new_module(m.Generator), p.new_module(m.Generator), p.new_module(m.Amplifier)
    p.connect([a, b], c)
    p.connect(c, p.output)
    got = same_stream(p, "links")
    names = [n for n, _ in got]
    expect(names.count(b"SLNK") == 4, "links: one SLNK per module")
    expect(names.count(b"SLnK") == 0, "links: all-zero slots omit SLnK")
    p.connect(a, p.output)  # a now has two outgoing links -> slot 1 somewhere
    got = same_stream(p, "links fan-out")
    expect([n for n, _ in got].count(b"SLnK") == 1, "links fan-out: SLnK written")
    p.connect(~a, c)  # leaves a -1 hole in c.in_links
    same_stream(p, "links after disconnect")
    roundtrip(p, "links after disconnect")

    # 5. empty slots everywhere
    p = Project()
    p.attach_module(None)
    p.attach_pattern(None)
    p.attach_pattern(Pattern(tracks=1, lines=1))
    p.attach_pattern(None)
    got = same_stream(p, "empty slots")
    expect([n for n, _ in got].count(b"PEND") == 3, "empty slots: three PEND")
    expect([n for n, _ in got].count(b"SEND") == 2, "empty slots: two SEND")

    # 6. chunks() is lazy: fields that cannot be packed fail at their position
    p = Project()
    p.receive_sync_midi = None
    seen = []
    try:
        for chunk in p.chunks():
            seen.append(chunk[0])
        expect(False, "bad sync: should raise")
    except TypeError:
        pass
    expect(seen == [b"SVOX", b"VERS", b"BVER", b"FLGS"], "bad sync: fails after FLGS, got %r" % seen)

    p = Project()
    gen = p.new_module(m.Generator)
    gen.in_links = [0, 0]
    gen.in_link_slots = [0]  # too short: cannot be packed
    seen = []
    try:
        for chunk in p.chunks():
            seen.append(chunk[0])
        expect(False, "bad slots: should raise")
    except struct.error:
        pass
    expect(seen[-1] == b"SMIP" and seen.count(b"SLNK") == 1, "bad slots: fails before the module's SLNK")

    p = Project()
    gen = p.new_module(m.Generator)
    gen.midi_in_channel = "x"
    seen = []
    try:
        for chunk in p.chunks():
            seen.append(chunk[0])
        expect(False, "bad midi: should raise")
    except TypeError:
        pass
    expect(seen[-1] == b"SCOL", "bad midi: fails right after SCOL")

    # 7. base Module cannot be serialised
    from rv.modules.module import Module

    try:
        list(Module().iff_chunks())
        expect(False, "base module: should raise")
    except RuntimeError as e:
        expect(str(e) == "Cannot serialize base Module instance.", "base module: message")

    # 8. header of a module outside a project (synth) omits placement chunks
    for name in NAMES:
        mod = m.Generator(name=name)
        got = list(mod.iff_chunks())
        expect(got == ref_module_header(mod, False), "synth header %r" % name)
        expect(len(dict(got)[b"SNAM"]) == 32, "synth header %r: SNAM is 32 bytes" % name)
        expect(list(mod.iff_chunks(in_project=True)) == ref_module_header(mod, True), "forced in_project %r" % name)
        s = read_sunvox_file(BytesIO(Synth(mod).read()))
        expect(s.module.name == name.encode("utf8")[:32].decode("utf8", "ignore"), "synth name %r" % name)

    if FAILURES:
        print("%d check(s) failed" % len(FAILURES))
        sys.exit(1)
    print("PASS")


if __name__ == "__main__":
    main()
