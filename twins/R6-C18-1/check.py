"""Behaviour check for property C18 (strictness flag restored, files released).

Run from the repository root:
    PYTHONPATH=<root>/src/python python check.py

Exercises read_sunvox_file, Reader.process_chunks, the nested loads in
MetaModule / Sampler and rv.errors.override_raise_controller_value_errors with
well-formed files, injected read faults at every read index, truncation at
every chunk boundary and at sampled offsets, both initial flag values and
nested loads.  A digest of all observed outcomes is compared with the value
recorded on the unmodified tree.
"""
import glob
import hashlib
import io
import logging
import os
import pathlib
import struct
import sys

import rv.api  # noqa: F401  (registers all module classes)
import rv.errors as E
import rv.modules.metamodule as MM
import rv.modules.sampler as SM
import rv.readers.reader as R
from rv.readers.initial import InitialReader
from rv.readers.reader import Reader, ReaderFinished, read_sunvox_file

EXPECTED_DIGEST = "b43213885c9cf919d19f62112b176d7dbb0c82fbd98ebf7bd9ab26231049a28f"

ROOT = os.getcwd()
FILES = sorted(
    glob.glob(os.path.join(ROOT, "tests", "files", "**", "*.sunvox"), recursive=True)
    + glob.glob(os.path.join(ROOT, "tests", "files", "**", "*.sunsynth"), recursive=True)
)
assert len(FILES) >= 50, len(FILES)

failures = []
outcomes = []  # everything that must be identical before/after a refactoring


def fail(msg):
    failures.append(msg)
    print("FAIL:", msg)


def note(*parts):
    outcomes.append("|".join(str(p) for p in parts))


def rel(p):
    return os.path.relpath(p, ROOT).replace(os.sep, "/")


def dump(obj):
    b = io.BytesIO()
    try:
        obj.write_to(b)
    except Exception as e:  # truncated inputs can give unserialisable objects
        return "unwritable(%s:%s)" % (type(e).__name__, str(e)[:60])
    return hashlib.sha256(b.getvalue()).hexdigest()[:16]


class Boom(Exception):
    pass


class FaultyFile(io.BytesIO):
    """BytesIO that raises at the n-th read() call (0-based); counts reads."""

    def __init__(self, data, fail_at=None, exc=Boom):
        super().__init__(data)
        self.reads = 0
        self.fail_at = fail_at
        self.exc = exc

    def read(self, *a):
        i = self.reads
        self.reads += 1
        if self.fail_at is not None and i == self.fail_at:
            raise self.exc("read #%d" % i)
        return super().read(*a)


class PathOpenSpy:
    """Wrap pathlib.Path.open; optionally substitute a FaultyFile."""

    def __init__(self, substitute=None, raise_on_open=None):
        self.opened = []
        self.substitute = substitute
        self.raise_on_open = raise_on_open
        self.flag_at_open = []

    def __enter__(self):
        self._orig = pathlib.Path.open
        spy = self

        def _open(self_path, *a, **kw):
            spy.flag_at_open.append(E.RAISE_CONTROLLER_VALUE_ERRORS)
            if spy.raise_on_open is not None:
                raise spy.raise_on_open
            if spy.substitute is not None:
                f = spy.substitute
            else:
                f = spy._orig(self_path, *a, **kw)
            spy.opened.append((a, kw, f))
            return f

        pathlib.Path.open = _open
        return self

    def __exit__(self, *exc):
        pathlib.Path.open = self._orig
        return False


def chunk_boundaries(data):
    """Offsets of top-level chunk starts (and header ends) in an IFF stream."""
    out = []
    pos = 0
    n = len(data)
    while pos + 8 <= n:
        out.append(pos)
        out.append(pos + 4)
        out.append(pos + 8)
        (size,) = struct.unpack_from("<I", data, pos + 4)
        pos += 8 + size
    out.append(n)
    return sorted(set(o for o in out if o <= n))


def run_load(arg, initial):
    """Load with the flag preset to `initial`; return (kind, detail, flag_after)."""
    E.RAISE_CONTROLLER_VALUE_ERRORS = initial
    try:
        obj = read_sunvox_file(arg)
    except BaseException as e:  # noqa: BLE001 - we want to see everything
        res = ("exc", type(e).__name__ + ":" + str(e)[:120])
    else:
        res = ("ok", type(obj).__name__ + ":" + (dump(obj) if obj is not None else "None"))
    after = E.RAISE_CONTROLLER_VALUE_ERRORS
    E.RAISE_CONTROLLER_VALUE_ERRORS = True
    return res[0], res[1], after


SENTINELS = (True, False)


# ---------------------------------------------------------------- 1. good loads
def test_good_loads():
    for p in FILES:
        data = open(p, "rb").read()
        for initial in SENTINELS:
            # (a) str path, (b) Path
            for mk in (str, pathlib.Path):
                with PathOpenSpy() as spy:
                    kind, detail, after = run_load(mk(p), initial)
                if after is not initial:
                    fail("flag not restored after path load %s" % rel(p))
                if len(spy.opened) != 1:
                    fail("expected exactly one Path.open for %s" % rel(p))
                else:
                    a, kw, f = spy.opened[0]
                    if (a, kw) != (("rb",), {}):
                        fail("open args changed: %r %r" % (a, kw))
                    if not f.closed:
                        fail("path-opened file left open: %s" % rel(p))
                if spy.flag_at_open != [R.RAISE_RANGE_ERRORS_ON_READ]:
                    fail("flag while opening: %r" % spy.flag_at_open)
                note("good", rel(p), mk.__name__, initial, kind, detail)
            # (c) caller-owned binary file: must NOT be closed
            with open(p, "rb") as fh:
                kind, detail, after = run_load(fh, initial)
                if fh.closed:
                    fail("caller-owned file was closed: %s" % rel(p))
                if after is not initial:
                    fail("flag not restored (file obj) %s" % rel(p))
                note("good-fh", rel(p), initial, kind, detail, fh.tell())
            # (d) BytesIO
            bio = FaultyFile(data)
            kind, detail, after = run_load(bio, initial)
            if bio.closed:
                fail("caller-owned BytesIO was closed")
            if after is not initial:
                fail("flag not restored (BytesIO) %s" % rel(p))
            note("good-bio", rel(p), initial, kind, detail, bio.reads, bio.tell())


# ------------------------------------------------------- 2. faults at each read
def test_read_faults():
    for p in FILES:
        data = open(p, "rb").read()
        probe = FaultyFile(data)
        read_sunvox_file(probe)
        total = probe.reads
        for initial in SENTINELS:
            for n in range(total + 1):
                for exc in (Boom, OSError) if n % 7 == 0 else (Boom,):
                    # caller-owned stream
                    f = FaultyFile(data, fail_at=n, exc=exc)
                    kind, detail, after = run_load(f, initial)
                    if after is not initial:
                        fail("flag leaked after fault %d in %s" % (n, rel(p)))
                    if f.closed:
                        fail("caller-owned stream closed after fault")
                    if n < total and kind != "exc":
                        fail("fault %d swallowed in %s" % (n, rel(p)))
                    note("fault", rel(p), initial, n, exc.__name__, kind, detail)
                    # library-opened path (substitute the faulty stream)
                    f = FaultyFile(data, fail_at=n, exc=exc)
                    with PathOpenSpy(substitute=f) as spy:
                        kind2, detail2, after = run_load(p, initial)
                    if after is not initial:
                        fail("flag leaked after path fault %d in %s" % (n, rel(p)))
                    if not f.closed:
                        fail("path-opened file left open after fault %d %s" % (n, rel(p)))
                    if (kind2, detail2) != (kind, detail):
                        fail("path/stream outcome differ at %d %s" % (n, rel(p)))
    # failure of open() itself
    for initial in SENTINELS:
        with PathOpenSpy(raise_on_open=PermissionError("nope")) as spy:
            kind, detail, after = run_load(FILES[0], initial)
        if after is not initial:
            fail("flag leaked after open() failure")
        if spy.flag_at_open != [R.RAISE_RANGE_ERRORS_ON_READ]:
            fail("flag at failing open: %r" % spy.flag_at_open)
        note("openfail", initial, kind, detail)
        kind, detail, after = run_load(os.path.join(ROOT, "no", "such.sunvox"), initial)
        if after is not initial:
            fail("flag leaked after missing file")
        note("missing", initial, kind, detail.split(":")[0])
    # failure of close() itself must propagate and still restore the flag
    class BadClose(FaultyFile):
        def close(self):
            super().close()
            raise OSError("close failed")

    for initial in SENTINELS:
        for fail_at in (None, 3):
            f = BadClose(open(FILES[0], "rb").read(), fail_at=fail_at)
            with PathOpenSpy(substitute=f):
                kind, detail, after = run_load(FILES[0], initial)
            if after is not initial:
                fail("flag leaked after close() failure")
            note("badclose", initial, fail_at, kind, detail)


# ------------------------------------------------------------- 3. truncations
def test_truncations():
    for p in FILES:
        data = open(p, "rb").read()
        offs = set(chunk_boundaries(data))
        offs.update(range(0, len(data), max(1, len(data) // 23)))
        offs.update((0, 1, 3, 4, 7, 8, 9, len(data) - 1))
        for initial in SENTINELS:
            for off in sorted(o for o in offs if 0 <= o <= len(data)):
                f = FaultyFile(data[:off])
                kind, detail, after = run_load(f, initial)
                if after is not initial:
                    fail("flag leaked after truncation %d of %s" % (off, rel(p)))
                note("trunc", rel(p), initial, off, kind, detail, f.reads)
                if off % 5 == 0:
                    f = FaultyFile(data[:off])
                    with PathOpenSpy(substitute=f):
                        k2, d2, after = run_load(pathlib.Path(p), initial)
                    if not f.closed:
                        fail("path file left open after truncation")
                    if after is not initial:
                        fail("flag leaked after path truncation")
                    if (k2, d2) != (kind, detail):
                        fail("path/stream truncation outcomes differ")
    # garbage / unknown magic / non-file arguments
    junk = [b"", b"JUNK", b"JUNK\x00\x00\x00\x00", b"SVOX\x00\x00\x00\x00",
            b"SSYN\x00\x00\x00\x00", b"SVOX\xff\xff\xff\xff", b"\x00" * 64,
            b"PAMD\x04\x00\x00\x00abcdSVOX\x00\x00\x00\x00"]
    for j in junk:
        for initial in SENTINELS:
            kind, detail, after = run_load(io.BytesIO(j), initial)
            if after is not initial:
                fail("flag leaked on junk %r" % j)
            note("junk", j, initial, kind, detail)
    for bad in (None, 42, b"bytes-are-not-a-path", object):
        for initial in SENTINELS:
            kind, detail, after = run_load(bad, initial)
            if after is not initial:
                fail("flag leaked on bad argument %r" % (bad,))
            note("badarg", repr(bad)[:20], initial, kind, detail.split(":")[0])


# ---------------------------------------------------------------- 4. nested loads
def test_nested():
    nested_files = [p for p in FILES if "metamodule" in p or p.endswith("sampler.sunsynth")]
    assert len(nested_files) >= 5
    seen = []
    orig = R.read_sunvox_file

    def spying(arg):
        before = E.RAISE_CONTROLLER_VALUE_ERRORS
        try:
            return orig(arg)
        finally:
            seen.append((before, E.RAISE_CONTROLLER_VALUE_ERRORS, type(arg).__name__))

    class Inner(Exception):
        pass

    def exploding(arg):
        before = E.RAISE_CONTROLLER_VALUE_ERRORS
        try:
            orig(arg)
        finally:
            seen.append((before, E.RAISE_CONTROLLER_VALUE_ERRORS, type(arg).__name__))
        raise Inner("nested load failed")

    for p in nested_files:
        for repl in (spying, exploding):
            MM.read_sunvox_file = repl
            SM.read_sunvox_file = repl
            try:
                for initial in SENTINELS:
                    del seen[:]
                    with PathOpenSpy() as spy:
                        kind, detail, after = run_load(p, initial)
                    if after is not initial:
                        fail("flag leaked after nested load %s" % rel(p))
                    if not all(f.closed for _, _, f in spy.opened):
                        fail("file left open after nested load %s" % rel(p))
                    if not seen:
                        fail("no nested load seen for %s" % rel(p))
                    for before, aft, _ in seen:
                        if before is not aft:
                            fail("nested load changed the flag")
                        if before is not R.RAISE_RANGE_ERRORS_ON_READ:
                            fail("nested load ran with unexpected flag %r" % before)
                    note("nested", rel(p), repl.__name__, initial, kind, detail, list(seen))
            finally:
                MM.read_sunvox_file = orig
                SM.read_sunvox_file = orig

    # corrupt the embedded project/effect in place (same length) at several points
    for p in nested_files:
        data = open(p, "rb").read()
        inner = max(data.find(b"SVOX", 8), data.find(b"SSYN", 8))
        if inner < 0:
            fail("no embedded file found in %s" % rel(p))
            continue
        for delta in (0, 4, 8, 12, 40, 100, 200):
            for filler in (b"\xff", b"\x00", b"Z"):
                pos = inner + delta
                if pos + 4 > len(data):
                    continue
                mutated = data[:pos] + filler * 4 + data[pos + 4:]
                for initial in SENTINELS:
                    kind, detail, after = run_load(io.BytesIO(mutated), initial)
                    if after is not initial:
                        fail("flag leaked after corrupt nested data %s" % rel(p))
                    note("nested-corrupt", rel(p), delta, filler, initial, kind, detail)

    # direct use of load_chunk / load_project with a tiny Chunk stand-in
    class C:
        def __init__(self, chnm, chdt):
            self.chnm, self.chdt = chnm, chdt
            self.chff = self.chfr = None

    empty = open(os.path.join(ROOT, "tests", "files", "empty.sunvox"), "rb").read()
    amp = open(os.path.join(ROOT, "tests", "files", "amplifier.sunsynth"), "rb").read()
    for initial in SENTINELS:
        E.RAISE_CONTROLLER_VALUE_ERRORS = initial
        m = MM.MetaModule()
        m.load_chunk(C(0, empty))
        note("mm-direct", initial, type(m.project).__name__, dump(m.project),
             E.RAISE_CONTROLLER_VALUE_ERRORS)
        if E.RAISE_CONTROLLER_VALUE_ERRORS is not initial:
            fail("MetaModule.load_chunk leaked flag")
        m.load_chunk(C(8, b"hello\0junk"))
        m.load_chunk(C(9, b"no-terminator"))
        m.load_chunk(C(3, b"ignored"))
        m.load_chunk(C(1, bytes(m.mappings.bytes)))
        note("mm-labels", m.user_defined[0].label, m.user_defined[1].label)
        try:
            m.load_chunk(C(0, empty[:100]))
        except BaseException as e:  # noqa: BLE001
            note("mm-direct-bad", type(e).__name__, str(e)[:80])
        else:
            note("mm-direct-bad", "ok", type(m.project).__name__)
        if E.RAISE_CONTROLLER_VALUE_ERRORS is not initial:
            fail("MetaModule.load_chunk leaked flag on bad data")
        s = SM.Sampler()
        s.load_chunk(C(0x10A, amp))
        note("sm-direct", initial, type(s.effect).__name__, dump(s.effect),
             E.RAISE_CONTROLLER_VALUE_ERRORS)
        s.load_chunk(C(0x101, b"abc"))
        s.load_chunk(C(0x109, b"ignored"))
        s.load_chunk(C(0x200, b"ignored"))
        note("sm-0x101", getattr(s, "_unknown_0x101", "<unset>"), len(s.legacy_chunks),
             s.is_legacy, sorted(s.option_values.items()))

        # dispatch precedence: the options chunk number wins over every other branch
        # (subclassing re-registers the module type, so snapshot the registry)
        from rv.modules import MODULE_CLASSES
        registry = dict(MODULE_CLASSES)
        class S2(SM.Sampler):
            options_chnm = 0x7777

        s2 = S2()
        s2.load_chunk(C(0x101, b"raw-0x101"))
        s2.load_chunk(C(0x7777, b"\xff" * 8))
        note("sm2", s2._unknown_0x101, sorted(s2.option_values.items()))

        class S3(SM.Sampler):
            options_chnm = 0x10A

        s3 = S3()
        s3.load_chunk(C(0x10A, amp))  # treated as options, not as an effect
        note("sm3", s3.effect, sorted(s3.option_values.items()))

        class M2(MM.MetaModule):
            options_chnm = 0

        m2 = M2()
        before_project = m2.project
        m2.load_chunk(C(0, empty))  # options win; no nested load happens
        note("mm2", m2.project is before_project, sorted(m2.option_values.items()))
        m2.load_chunk(C(2, b"zz"))  # 2 is no longer special: ignored
        m2.load_chunk(C(7, b"zz"))
        note("mm2b", sorted(m2.option_values.items()))
        MODULE_CLASSES.clear()
        MODULE_CLASSES.update(registry)
        for chnm in (0x102, 0x103, 0x104, 0x105, 0x106, 0x107, 0x108):
            try:
                s.load_chunk(C(chnm, b"\x00" * 64))
                note("sm-env", chnm, "ok")
            except BaseException as e:  # noqa: BLE001
                note("sm-env", chnm, type(e).__name__, str(e)[:60])
        try:
            s.load_chunk(C(0x10A, amp[:50]))
        except BaseException as e:  # noqa: BLE001
            note("sm-direct-bad", type(e).__name__, str(e)[:80])
        else:
            note("sm-direct-bad", "ok", type(s.effect).__name__)
        if E.RAISE_CONTROLLER_VALUE_ERRORS is not initial:
            fail("Sampler.load_chunk leaked flag")
        E.RAISE_CONTROLLER_VALUE_ERRORS = True


# ------------------------------------------------------ 5. the context manager
def test_override_cm():
    cm = E.override_raise_controller_value_errors
    marker = object()
    for initial in (True, False, 0, 1, None, "x", marker):
        for new in (True, False, 0, "lenient", None, marker):
            E.RAISE_CONTROLLER_VALUE_ERRORS = initial
            with cm(new) as got:
                if E.RAISE_CONTROLLER_VALUE_ERRORS is not new:
                    fail("override did not install the new value")
                if got is not None:
                    fail("override yields a value")
                with cm(initial):
                    if E.RAISE_CONTROLLER_VALUE_ERRORS is not initial:
                        fail("nested override wrong")
                if E.RAISE_CONTROLLER_VALUE_ERRORS is not new:
                    fail("nested override did not restore")
            if E.RAISE_CONTROLLER_VALUE_ERRORS is not initial:
                fail("override did not restore identity of old value")
            for exc in (ValueError, KeyboardInterrupt, GeneratorExit, Boom):
                try:
                    with cm(new):
                        raise exc("x")
                except exc:
                    pass
                else:
                    fail("override swallowed %s" % exc.__name__)
                if E.RAISE_CONTROLLER_VALUE_ERRORS is not initial:
                    fail("override did not restore after %s" % exc.__name__)
    E.RAISE_CONTROLLER_VALUE_ERRORS = True

    # usable as a decorator (contextlib.contextmanager feature) and re-creatable
    @cm(False)
    def inside():
        return E.RAISE_CONTROLLER_VALUE_ERRORS

    note("decorator", inside(), inside(), E.RAISE_CONTROLLER_VALUE_ERRORS)
    # manual protocol
    c = cm(False)
    note("manual-enter", c.__enter__(), E.RAISE_CONTROLLER_VALUE_ERRORS)
    note("manual-exit", c.__exit__(None, None, None), E.RAISE_CONTROLLER_VALUE_ERRORS)
    # an unentered manager has no effect
    cm(False)
    note("unentered", E.RAISE_CONTROLLER_VALUE_ERRORS)

    # raise_or_warn helper follows the flag at call time
    class Log:
        def __init__(self):
            self.calls = []

        def warning(self, *a, **kw):
            self.calls.append((a, sorted(kw.items(), key=lambda kv: kv[0])))

    cause = KeyError("k")
    lg = Log()
    try:
        E.raise_or_warn_controller_value_validation(cause, lg, "msg %s", 1)
    except E.ControllerValueError as e:
        note("row-raise", e.args, e.__cause__ is cause, isinstance(e, ValueError), lg.calls)
    else:
        fail("strict mode did not raise")
    with cm(False):
        r = E.raise_or_warn_controller_value_validation(cause, lg, "msg %s", 1)
        note("row-warn", r, [(a, [(k, v is cause) for k, v in kw]) for a, kw in lg.calls])
    try:
        E.raise_or_warn_controller_value_validation(None, lg)
    except E.ControllerValueError as e:
        note("row-raise-noargs", e.args, e.__cause__)

    # flag consulted inside a load is reader.RAISE_RANGE_ERRORS_ON_READ (looked up per call)
    inside_flags = []
    orig_pc = InitialReader.process_chunks

    def pc(self):
        inside_flags.append(E.RAISE_CONTROLLER_VALUE_ERRORS)
        return orig_pc(self)

    InitialReader.process_chunks = pc
    saved = R.RAISE_RANGE_ERRORS_ON_READ
    try:
        for on_read in (False, True, "sentinel"):
            R.RAISE_RANGE_ERRORS_ON_READ = on_read
            for initial in SENTINELS:
                kind, detail, after = run_load(FILES[0], initial)
                if after is not initial:
                    fail("flag leaked with on_read=%r" % (on_read,))
        # changing rv.errors' copy after import has no effect on reader's binding
        R.RAISE_RANGE_ERRORS_ON_READ = saved
        E.RAISE_RANGE_ERRORS_ON_READ = True
        run_load(FILES[0], True)
        E.RAISE_RANGE_ERRORS_ON_READ = False
    finally:
        R.RAISE_RANGE_ERRORS_ON_READ = saved
        InitialReader.process_chunks = orig_pc
    note("inside-flags", inside_flags)


# -------------------------------------------- 6. Reader.process_chunks directly
def test_reader_dispatch():
    records = []

    class H(logging.Handler):
        def emit(self, record):
            records.append((record.levelname, record.name, record.getMessage()))

    h = H()
    lg = logging.getLogger("rv.readers.reader")
    old_level, old_prop = lg.level, lg.propagate
    lg.addHandler(h)
    lg.setLevel(logging.DEBUG)
    lg.propagate = False
    logging.disable(logging.NOTSET)
    try:
        def stream(*pairs):
            b = io.BytesIO()
            for name, data in pairs:
                b.write(name + struct.pack("<I", len(data)) + data)
            b.seek(0)
            return b

        class MyReader(Reader):
            not_callable = 5  # process_ prefix absent -> never looked up
            process_NCAL = "not callable"

            def __init__(self, f):
                super().__init__(f)
                self.seen = []

            def process_AAAA(self, data):
                self.seen.append(("AAAA", data))

            def process_BB(self, data):
                self.seen.append(("BB", data))

            def process_STOP(self, data):
                self.seen.append(("STOP", data))
                raise ReaderFinished()

            def process_REWD(self, data):
                self.seen.append(("REWD", data, self.f.tell()))
                if len(self.seen) < 4:
                    self.rewind(data)

            def process_SETO(self, data):
                self.object = data

            def process_ERRR(self, data):
                raise Boom("handler failed")

        s = stream((b"AAAA", b"1"), (b"BB  ", b"22"), (b"ZZZZ", b""), (b"NCAL", b"x"),
                   (b"PAMD", b"pp"), (b" CC ", b"y"), (b"AAAA", b"again"))
        r = MyReader(s)
        try:
            r.process_chunks()
            note("disp1", "returned")
        except RuntimeError as e:
            note("disp1", "RuntimeError", str(e), r.seen, s.tell())
        s = stream((b"AAAA", b"1"), (b"STOP", b"s"), (b"AAAA", b"never"))
        r = MyReader(s)
        note("disp2", r.process_chunks(), r.seen, s.tell(), r._object)
        s = stream((b"REWD", b"abc"), (b"AAAA", b"t"))
        r = MyReader(s)
        try:
            r.process_chunks()
        except RuntimeError as e:
            note("disp3", str(e), r.seen)
        s = stream((b"SETO", b"obj1"), (b"STOP", b""))
        r = MyReader(s)
        note("disp4", r.object, r.object, s.tell())
        s = stream((b"SETO", b"obj1"), (b"SETO", b"obj2"))
        r = MyReader(s)
        try:
            r.object
        except AttributeError as e:
            note("disp5", str(e), r._object)
        s = stream((b"AAAA", b"1"), (b"ERRR", b""), (b"AAAA", b"2"))
        r = MyReader(s)
        try:
            r.process_chunks()
        except Boom as e:
            note("disp6", str(e), r.seen, s.tell())
        # non-ascii chunk name
        s = stream((b"\xc3\xa9AB", b"1"),)
        r = MyReader(s)
        try:
            r.process_chunks()
        except BaseException as e:  # noqa: BLE001
            note("disp7", type(e).__name__, str(e)[:60])
        # base class: end of file without handler, empty stream
        try:
            Reader(io.BytesIO(b"")).process_chunks()
        except RuntimeError as e:
            note("disp8", str(e))
        note("disp9", InitialReader(io.BytesIO(b"")).object)
        # two instances / subclasses do not share dispatch state
        class Other(Reader):
            def process_AAAA(self, data):
                self.hit = data

            def process_end_of_file(self):
                raise ReaderFinished()

        o = Other(stream((b"AAAA", b"o"), (b"BB  ", b"")))
        o.process_chunks()
        note("disp10", o.hit)
        # handler added on the instance / class after a first run is honoured
        o2 = Other(stream((b"BB  ", b"late")))
        o2.process_BB = lambda data: setattr(o2, "late", data)
        o2.process_chunks()
        note("disp11", o2.late)
        Other.process_CCCC = lambda self, data: setattr(self, "cc", data)
        o3 = Other(stream((b"CCCC", b"cls")))
        o3.process_chunks()
        note("disp12", o3.cc)
        del Other.process_CCCC
        o4 = Other(stream((b"CCCC", b"cls")))
        o4.process_chunks()
        note("disp13", hasattr(o4, "cc"))
        # a real file too
        read_sunvox_file(os.path.join(ROOT, "tests", "files", "metamodule.sunsynth"))
        read_sunvox_file(os.path.join(ROOT, "tests", "files", "sampler.sunsynth"))
    finally:
        lg.removeHandler(h)
        lg.setLevel(old_level)
        lg.propagate = old_prop
        logging.disable(logging.CRITICAL)
    note("logs", len(records), hashlib.sha256(repr(records).encode()).hexdigest()[:16])


# ------------------------------------------- 7. writers / programmatic objects
def test_write_roundtrip():
    from rv.api import Project, Synth, m

    def chunk_list(mod):
        return [(k, hashlib.sha256(bytes(v)).hexdigest()[:12], len(v))
                for k, v in mod.specialized_iff_chunks()]

    # MetaModule with an embedded project, mappings and labels
    inner = Project()
    amp = inner.new_module(m.Amplifier, volume=300)
    inner.connect(amp, inner.output)
    mm = m.MetaModule(project=inner)
    mm.user_defined_controllers = 3
    mm.mappings.values[0] = MM.MetaModule.Mapping((amp.index, 0))
    mm.user_defined[0].label = "Volume"
    mm.user_defined[2].label = ""
    note("w-mm-chunks", chunk_list(mm))
    synth = Synth(mm)
    raw = synth.read()
    note("w-mm-synth", hashlib.sha256(raw).hexdigest()[:16], len(raw))
    for initial in SENTINELS:
        E.RAISE_CONTROLLER_VALUE_ERRORS = initial
        back = read_sunvox_file(io.BytesIO(raw))
        if E.RAISE_CONTROLLER_VALUE_ERRORS is not initial:
            fail("flag leaked in metamodule round trip")
        bm = back.module
        note("w-mm-back", initial, type(bm).__name__, dump(back),
             [c.label for c in bm.user_defined[:4]],
             [(x.module, x.controller) for x in bm.mappings.values[:3]],
             type(bm.project).__name__, len(bm.project.modules),
             bm.project.modules[1].volume)
    E.RAISE_CONTROLLER_VALUE_ERRORS = True
    # a project whose metamodule contains a metamodule (two nesting levels)
    outer = Project()
    mm_outer = outer.new_module(m.MetaModule, project=Project())
    mm_outer.project.new_module(m.MetaModule, project=inner)
    outer.connect(mm_outer, outer.output)
    raw2 = outer.read()
    depth = []
    orig = R.read_sunvox_file

    def counting(arg):
        depth.append(E.RAISE_CONTROLLER_VALUE_ERRORS)
        return orig(arg)

    MM.read_sunvox_file = counting
    try:
        for initial in SENTINELS:
            kind, detail, after = run_load(io.BytesIO(raw2), initial)
            if after is not initial:
                fail("flag leaked in two-level nested load")
            note("w-nest2", initial, kind, detail, list(depth))
            del depth[:]
            # a fault in the innermost level
            cut = raw2.rfind(b"SVOX")
            broken = raw2[:cut + 8] + b"\xff" * 8 + raw2[cut + 16:]
            kind, detail, after = run_load(io.BytesIO(broken), initial)
            if after is not initial:
                fail("flag leaked after innermost corruption")
            note("w-nest2-broken", initial, kind, detail, list(depth))
            del depth[:]
    finally:
        MM.read_sunvox_file = orig

    # Sampler with an effect, written with the modern (non legacy) chunk layout
    s = m.Sampler()
    s.effect = Synth(m.Amplifier(volume=77))
    chunks_ = list(s.specialized_iff_chunks())
    names = [k for k, _ in chunks_]
    chnms = [struct.unpack("<I", v)[0] for k, v in chunks_ if k == b"CHNM"]
    note("w-sm-chunks", names.count(b"CHNM"), chnms, chunk_list(s))
    if chunks_[-2] != (b"CHNM", b"\x0a\x01\0\0"):
        fail("effect chunk number changed: %r" % (chunks_[-2],))
    raw3 = Synth(s).read()
    for initial in SENTINELS:
        E.RAISE_CONTROLLER_VALUE_ERRORS = initial
        back = read_sunvox_file(io.BytesIO(raw3))
        if E.RAISE_CONTROLLER_VALUE_ERRORS is not initial:
            fail("flag leaked in sampler round trip")
        note("w-sm-back", initial, dump(back), type(back.module.effect).__name__,
             back.module.effect.module.volume, back.module.is_legacy)
    E.RAISE_CONTROLLER_VALUE_ERRORS = True


def main():
    logging.disable(logging.CRITICAL)
    test_good_loads()
    test_read_faults()
    test_truncations()
    test_nested()
    test_override_cm()
    test_reader_dispatch()
    test_write_roundtrip()
    if E.RAISE_CONTROLLER_VALUE_ERRORS is not True:
        fail("flag not True at end of check")
    digest = hashlib.sha256("\n".join(outcomes).encode("utf-8", "replace")).hexdigest()
    if "--print-digest" in sys.argv:
        print(len(outcomes), digest)
        if "--dump" in sys.argv:
            with open(sys.argv[sys.argv.index("--dump") + 1], "w") as fh:
                fh.write("\n".join(outcomes))
        return 0
    if digest != EXPECTED_DIGEST:
        fail("outcome digest %s != expected %s" % (digest, EXPECTED_DIGEST))
    if failures:
        print("FAILED (%d problems)" % len(failures))
        return 1
    print("PASS (%d outcomes checked)" % len(outcomes))
    return 0


if __name__ == "__main__":
    sys.exit(main())
