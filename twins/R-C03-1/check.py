"""Behaviour check for the Project.chunks() refactoring (C03-1).

Exercises Project.chunks / Container.read for corpus files and for projects
built in code (links, link slots, controllers, CMID bindings, empty pattern /
module slots, metamodules) and compares the produced bytes against digests
recorded on the unchanged tree, plus independent structural checks of the
chunk stream.

Run from the repository root:
    PYTHONPATH=<root>/src/python python check.py
(`--regen` prints the digest table instead of checking it.)
"""
import hashlib
import os
import struct
import sys
from io import BytesIO

from rv.api import NOTE, Pattern, PatternClone, Project, Synth, m, read_sunvox_file
from rv.cmidmap import MidiMessageType, Slope

ROOT = os.getcwd()
FILES = os.path.join(ROOT, "tests", "files")

GOLDEN = {
    "built:all-types": "07a5196565b63a284e22e902",
    "built:controllers": "b6fdeefa30a932842db3e389",
    "built:empty": "406949941dae172bfd71f901",
    "built:holes": "87520477fbab804e04ad3c8f",
    "built:links": "0360c57a89d4de4a4ebbfa52",
    "built:meta": "c2436bdbad81cf29abfc21cf",
    "built:meta-synth": "23df4c3763390efcdd1810e1",
    "built:patterns": "81523ba6846e84025efacdcd",
    "file:amplifier.sunsynth": "419f5717e558efbc145eafac",
    "file:analog-generator.sunsynth": "76ce674ef1db6717af60bca2",
    "file:compressor.sunsynth": "7e4fa89c60186b9a11f55e88",
    "file:dc-blocker.sunsynth": "1312bb3c1626a845ea4227ba",
    "file:delay.sunsynth": "32ee6c78f799b00c67608a7e",
    "file:distortion.sunsynth": "e9b59951b8753b41f51c8c4f",
    "file:drum-synth.sunsynth": "6d8ad0364d91a386d19b24cf",
    "file:echo.sunsynth": "a51866593f018ff999a6757d",
    "file:empty.sunvox": "0b58f6338b84cd2a3802ae4d",
    "file:eq.sunsynth": "c6e8877e93f69f7fbaa3db88",
    "file:feedback.sunsynth": "09a1d368f8d9743977592b90",
    "file:fft.sunsynth": "a532a1e449a579c5fa56fcdd",
    "file:filter-pro.sunsynth": "87b217d025f588bb70015551",
    "file:filter.sunsynth": "ccf4f2af334e7d85df980339",
    "file:flanger.sunsynth": "658f4783cc9c248ebe9f31e3",
    "file:fmx.sunsynth": "d2b0427af5abec18927f4138",
    "file:generator.sunsynth": "16aefebfbfb606f8c608f0af",
    "file:glide.sunsynth": "765d995ffed7b9491e2c9775",
    "file:gpio.sunsynth": "15c3990e39ba8c2d0b6f5ecd",
    "file:input.sunsynth": "025ed41f84a149cb59b48ef6",
    "file:issue109/filter_lfo.sunvox": "7c07bab808ce3d271b3487c1",
    "file:issue41/sample.sunvox": "31504b7ddfd906224ba3855d",
    "file:issue54/test1.sunvox": "915266c46c96537b1ad7473c",
    "file:kicker.sunsynth": "33abb29c4834873a1df6cdaa",
    "file:lfo.sunsynth": "efa89196cf44067f36c946f4",
    "file:loop.sunsynth": "57eca85729cb1af475e5c57d",
    "file:metamodule-option-78.sunsynth": "76bf484725a761c100dc6c67",
    "file:metamodule-option-79.sunsynth": "8d8a050747174fd9f658a8b2",
    "file:metamodule-option-7a.sunsynth": "36db7cdd1df60d034c827704",
    "file:metamodule.sunsynth": "55f5fd0bfba897453b071068",
    "file:modulator.sunsynth": "22d3e9b37c36f8818d83036c",
    "file:module-multiselect.sunvox": "8fa3a4e0ed3b0d49c4294782",
    "file:multictl.sunsynth": "66b009f3228bb000bd08f11f",
    "file:multisynth-random-off.sunsynth": "b4ccf1b6f4e1ed62c7ebf966",
    "file:multisynth-random1.sunsynth": "a19a3f40a8bd840e62b0b525",
    "file:multisynth-random2.sunsynth": "98bf489a0febc83d29b91511",
    "file:multisynth-random3.sunsynth": "b7fbddfa4ed104bfe889dc1d",
    "file:multisynth.sunsynth": "87df69077399b6112a3e3ed7",
    "file:pitch-shifter.sunsynth": "4c58b5705344a08e159e5273",
    "file:pitch2ctl.sunsynth": "73252da465dfcc2f5993dc79",
    "file:reverb.sunsynth": "90db4c635458e8fe34ef4ba4",
    "file:sampler.sunsynth": "3b0f2915c2ec0456c0932e70",
    "file:single-fm.sunvox": "ca3eb0ed7d25ba31f4e96888",
    "file:smooth.sunsynth": "673c38cfc74b338e6936d75c",
    "file:sound2ctl.sunsynth": "fd4a139c6dc96ebf2eecbaea",
    "file:spectravoice.sunsynth": "112111c76bcab011dcf9c039",
    "file:supertracks.sunvox": "1a4f41f039f94d444739fff9",
    "file:velocity2ctl.sunsynth": "5fe6662a1ac4bc70daa3ed25",
    "file:vibrato.sunsynth": "274b70fa0e6cf0ab0d3b04b7",
    "file:vocal-filter.sunsynth": "f62bcc37659869aaa0bd842d",
    "file:vorbis-player.sunsynth": "f18896c9f30ee44ad1a83493",
    "file:waveshaper.sunsynth": "a4d25d2c53431359abb5c05e",
}

failures = []
digests = {}


def fail(msg):
    failures.append(msg)
    print("FAIL:", msg)


def record(key, data):
    digests[key] = hashlib.sha256(data).hexdigest()[:24]


def parse(data):
    """Independent chunk stream parser: list of (id, payload)."""
    out = []
    pos = 0
    while pos < len(data):
        assert pos + 8 <= len(data), "truncated chunk header"
        cid = data[pos : pos + 4]
        (size,) = struct.unpack_from("<I", data, pos + 4)
        pos += 8
        assert pos + size <= len(data), "truncated chunk payload"
        out.append((cid, data[pos : pos + size]))
        pos += size
    return out


def check_project_structure(key, project, data):
    chunks = parse(data)
    ids = [c for c, _ in chunks]
    if ids[0] != b"SVOX":
        fail(f"{key}: first chunk {ids[0]}")
    if ids.count(b"PEND") != len(project.patterns):
        fail(f"{key}: PEND count {ids.count(b'PEND')} != {len(project.patterns)}")
    if ids.count(b"SEND") != len(project.modules):
        fail(f"{key}: SEND count {ids.count(b'SEND')} != {len(project.modules)}")
    if ids[-1] != b"SEND":
        fail(f"{key}: last chunk is {ids[-1]}")
    # all PEND before first SFFF
    if b"SFFF" in ids and b"PEND" in ids:
        last_pend = len(ids) - 1 - ids[::-1].index(b"PEND")
        if last_pend > ids.index(b"SFFF"):
            fail(f"{key}: pattern slots not before module slots")
    # split module slots
    slots = []
    cur = None
    for cid, payload in chunks:
        if cid == b"SFFF":
            cur = [(cid, payload)]
        elif cid == b"SEND":
            slots.append(cur)
            cur = None
        elif cur is not None:
            cur.append((cid, payload))
    # pattern PENDs are not SEND so slots has one entry per SEND
    if len(slots) != len(project.modules):
        fail(f"{key}: slot count {len(slots)}")
        return
    for idx, (slot, module) in enumerate(zip(slots, project.modules)):
        if module is None:
            if slot is not None:
                fail(f"{key}: empty module slot {idx} has chunks")
            continue
        sids = [c for c, _ in slot]
        d = dict(slot)
        if len(d[b"SNAM"]) != 32:
            fail(f"{key}: SNAM len in module {idx}")
        if sids.count(b"SLNK") != 1:
            fail(f"{key}: SLNK count in module {idx}")
        links = list(struct.unpack(f"<{len(d[b'SLNK']) // 4}i", d[b"SLNK"]))
        if links != list(module.in_links):
            fail(f"{key}: SLNK content module {idx}: {links} != {module.in_links}")
        if b"SLnK" in d:
            lslots = list(struct.unpack(f"<{len(d[b'SLnK']) // 4}i", d[b"SLnK"]))
            if lslots != list(module.in_link_slots):
                fail(f"{key}: SLnK content module {idx}")
            if not any(s not in (-1, 0) for s in module.in_link_slots):
                fail(f"{key}: SLnK written without non-zero slots, module {idx}")
            if sids.index(b"SLnK") != sids.index(b"SLNK") + 1:
                fail(f"{key}: SLnK not directly after SLNK, module {idx}")
        elif any(s not in (-1, 0) for s in module.in_link_slots):
            fail(f"{key}: SLnK missing, module {idx}")
        attached = [n for n, c in module.controllers.items() if c.attached(module)]
        cvals = [struct.unpack("<i", p)[0] for c, p in slot if c == b"CVAL"]
        if cvals != [module.get_raw(n) for n in attached]:
            fail(f"{key}: CVAL values module {idx}")
        if attached:
            if sids.count(b"CMID") != 1 or len(d[b"CMID"]) != 8 * len(attached):
                fail(f"{key}: CMID size module {idx}")
            expect = b"".join(module.controller_midi_maps[n].cmid_data for n in attached)
            if d[b"CMID"] != expect:
                fail(f"{key}: CMID content module {idx}")
            last_cval = len(sids) - 1 - sids[::-1].index(b"CVAL")
            if sids.index(b"CMID") != last_cval + 1:
                fail(f"{key}: CMID not directly after last CVAL, module {idx}")
            if sids.index(b"CVAL") != sids.index(b"SLnK" if b"SLnK" in d else b"SLNK") + 1:
                fail(f"{key}: CVAL not directly after links, module {idx}")
        elif b"CMID" in d or cvals:
            fail(f"{key}: CVAL/CMID for module without controllers {idx}")
        if module.chnk:
            if struct.unpack("<I", d[b"CHNK"])[0] != module.chnk:
                fail(f"{key}: CHNK value module {idx}")
            for c, p in slot:
                if c == b"CHNM" and struct.unpack("<I", p)[0] >= module.chnk:
                    fail(f"{key}: CHNM {p!r} >= CHNK in module {idx}")
            after = sids[sids.index(b"CHNK") + 1 :]
            if any(c not in (b"CHNM", b"CHDT", b"CHFF", b"CHFR") for c in after):
                fail(f"{key}: unexpected chunk after CHNK in module {idx}: {after}")
        elif b"CHNK" in d:
            fail(f"{key}: CHNK for module with chnk == 0, {idx}")


def emit(key, obj):
    data = obj.read()
    f = BytesIO()
    obj.write_to(f)
    if f.getvalue() != data:
        fail(f"{key}: read() and write_to() differ")
    if b"".join(
        c[:4].ljust(4, b" ") + struct.pack("<I", len(p)) + p
        for c, p in obj.chunks()
        if c is not None
    ) != data:
        fail(f"{key}: chunks() does not match the written bytes")
    record(key, data)
    if isinstance(obj, Project):
        check_project_structure(key, obj, data)
    return data


def corpus():
    paths = []
    for base, _, names in os.walk(FILES):
        for n in names:
            if n.endswith((".sunvox", ".sunsynth")):
                paths.append(os.path.join(base, n))
    paths.sort()
    if len(paths) < 40:
        fail(f"corpus too small: {len(paths)} files under {FILES}")
    for path in paths:
        rel = os.path.relpath(path, FILES).replace(os.sep, "/")
        with open(path, "rb") as f:
            obj = read_sunvox_file(f)
        data = emit("file:" + rel, obj)
        # second generation is a fixed point
        again = read_sunvox_file(BytesIO(data))
        if again.read() != data:
            fail(f"{rel}: rewrite is not a fixed point")
        # every metamodule's embedded project obeys the same rules
        if isinstance(obj, Project):
            for mod in obj.modules:
                if isinstance(mod, m.MetaModule) and mod.project is not None:
                    emit(f"file:{rel}#meta{mod.index}", mod.project)


def built_projects():
    # 1. empty project
    p = Project()
    emit("built:empty", p)

    # 2. chain with multi-input links and non-zero link slots
    p = Project()
    p.name = "links"
    gens = [p.new_module(m.Generator, name=f"g{i}", x=i * 10, y=-i) for i in range(3)]
    amp = p.new_module(m.Amplifier)
    fil = p.new_module(m.Filter)
    for g in gens:
        p.connect(g, amp)
    p.connect(gens[0], fil)
    p.connect(amp, fil)
    p.connect(fil, p.output)
    p.connect(amp, p.output)
    emit("built:links", p)
    if not any(any(s not in (-1, 0) for s in mod.in_link_slots) for mod in p.modules):
        fail("built:links has no non-zero link slots (SLnK path untested)")

    # 3. disconnected link left as -1, plus an empty module slot
    p2 = read_sunvox_file(BytesIO(p.read()))
    p2.modules[4].in_links[0] = -1
    p2.modules.append(None)
    lfo = p2.new_module(m.Lfo)
    p2.connect(lfo, p2.output)
    emit("built:holes", p2)

    # 4. controllers and MIDI maps
    p = Project()
    g = p.new_module(m.Generator, volume=77, panning=-100, sustain=False)
    g.controller_midi_maps["volume"].channel = 3
    g.controller_midi_maps["volume"].message_type = MidiMessageType.control_change
    g.controller_midi_maps["volume"].message_parameter = 0x1234
    g.controller_midi_maps["volume"].slope = Slope.s_curve
    f = p.new_module(m.Filter, freq=14000, resonance=1530)
    f.controller_midi_maps["freq"].message_type = MidiMessageType.pitch_bend
    p.connect(g, f)
    p.connect(f, p.output)
    p.initial_bpm = 133
    p.timeline_position = -4
    p.restart_position = 8
    emit("built:controllers", p)

    # 5. patterns: holes, clone, names, notes
    p = Project()
    g = p.new_module(m.AnalogGenerator)
    p.connect(g, p.output)
    pat = Pattern(name="lead", tracks=3, lines=5, x=-32, y=64)
    p.attach_pattern(pat)
    pat.data[0][0].note = NOTE.C4
    pat.data[0][0].vel = 129
    pat.data[0][0].module = g.index + 1
    pat.data[4][2].ctl = 0x0102
    pat.data[4][2].val = 0x8001
    p.patterns.append(None)
    p.attach_pattern(PatternClone(source=0, x=64, y=-64))
    p.attach_pattern(Pattern(tracks=1, lines=1))
    data = emit("built:patterns", p)
    for cid, payload in parse(data):
        if cid == b"PDTA" and len(payload) not in (3 * 5 * 8, 1 * 1 * 8):
            fail("built:patterns: PDTA size")

    # 6. metamodule containing a project, attached user defined controllers
    inner = Project()
    ig = inner.new_module(m.Generator)
    inner.connect(ig, inner.output)
    outer = Project()
    meta = outer.new_module(m.MetaModule, project=inner)
    meta.user_defined_controllers = 3
    outer.connect(meta, outer.output)
    emit("built:meta", outer)
    emit("built:meta-synth", Synth(meta))

    # 7. every module type attached to one project, each linked to the output
    p = Project()
    for name in sorted(m.__all__ if hasattr(m, "__all__") else dir(m)):
        cls = getattr(m, name)
        if not isinstance(cls, type) or not issubclass(cls, m.Module):
            continue
        if cls in (m.Module, m.Output) or getattr(cls, "mtype", None) is None:
            continue
        mod = p.new_module(cls)
        p.connect(mod, p.output)
    if len(p.modules) < 30:
        fail(f"built:all-types only has {len(p.modules)} modules")
    emit("built:all-types", p)


def generator_laziness():
    """chunks() is a generator producing tuples, header first."""
    p = Project()
    p.new_module(m.Generator)
    it = p.chunks()
    if iter(it) is not it:
        fail("Project.chunks() is not an iterator")
    if next(it) != (b"SVOX", b""):
        fail("Project.chunks() does not start with the magic chunk")
    rest = list(it)
    if rest[-1] != (b"SEND", b""):
        fail("Project.chunks() does not end with SEND")
    if any(not isinstance(c, tuple) or len(c) != 2 for c in rest):
        fail("Project.chunks() yields non-pairs")


def main():
    corpus()
    built_projects()
    generator_laziness()
    if "--regen" in sys.argv:
        for k in sorted(digests):
            print(f'    "{k}": "{digests[k]}",')
        return 0
    if set(GOLDEN) != set(digests):
        fail(f"digest key sets differ: {sorted(set(GOLDEN) ^ set(digests))}")
    for k, v in digests.items():
        if GOLDEN.get(k) != v:
            fail(f"{k}: bytes differ from the recorded digest")
    if failures:
        print(f"{len(failures)} failure(s)")
        return 1
    print(f"PASS ({len(digests)} outputs checked)")
    return 0


if __name__ == "__main__":
    sys.exit(main())
