"""Behaviour check for the rv.option.Option descriptor and its use by Module.

Covers: dataclass shape of Option (fields, defaults, equality, repr), class
access returning the descriptor, logical vs stored values for inverted options,
bool coercion of 1-bit options, exact clamp results (including ties, floats and
bools, where the *type* of the result matters), mutual exclusion, change hooks
(order, arguments, non-callable hooks ignored), constructor keywords, and the
packed record / reload of every value of every option.
"""
import dataclasses
import itertools
import random
import struct
import sys

import rv.api  # noqa: F401
from rv.modules import MODULE_CLASSES
from rv.modules.module import Chunk
from rv.option import Option

failures = []


def expect(cond, msg):
    if not cond:
        failures.append(msg)


def ident(a, b):
    """Same value and same type (True is not 1 here)."""
    return type(a) is type(b) and (a == b or (a != a and b != b))


# ---- dataclass shape -------------------------------------------------------
names = [f.name for f in dataclasses.fields(Option)]
expect(
    names
    == ["name", "byte", "bit", "size", "default", "number", "min", "max", "inverted", "exclusive_of"],
    "Option fields changed: %r" % names,
)
o1 = Option("x", 1, 2, 3, 0)
o2 = Option(name="x", byte=1, bit=2, size=3, default=0)
expect(o1 == o2, "Option equality")
expect(o1.exclusive_of == [] and o1.exclusive_of is not o2.exclusive_of, "exclusive_of default")
expect((o1.number, o1.min, o1.max, o1.inverted) == (None, None, None, False), "defaults")
expect(
    repr(o1)
    == "Option(name='x', byte=1, bit=2, size=3, default=0, number=None, min=None, "
    "max=None, inverted=False, exclusive_of=[])",
    "Option repr: " + repr(o1),
)
expect(Option.__hash__ is None, "Option stays unhashable")
try:
    Option("x", 1, 2, 3)
except TypeError:
    pass
else:
    expect(False, "default is required")

classes = sorted({c for c in MODULE_CLASSES.values() if c.options}, key=lambda c: c.__name__)
expect(len(classes) == 5 and sum(len(c.options) for c in classes) == 49, "5 types / 49 options")


# ---- a tiny host that is not a Module: the descriptor only needs option_values
class Host:
    ranged = Option("ranged", 0, 0, 8, 0, min=0, max=96)
    ranged_inv = Option("ranged_inv", 1, 0, 8, 3, min=-5, max=5, inverted=True)
    half = Option("half", 2, 0, 8, 0, min=0)  # only one bound: no clamp
    flag = Option("flag", 3, 0, 1, False)
    inv = Option("inv", 3, 1, 1, True, inverted=True)
    wide = Option("wide", 3, 2, 3, 0)
    wide_inv = Option("wide_inv", 4, 0, 3, 0, inverted=True)
    a = Option("a", 5, 0, 1, False, exclusive_of=["b", "c"])
    b = Option("b", 5, 1, 1, False, exclusive_of=["a"])
    c = Option("c", 5, 2, 3, 0)

    def __init__(self):
        self.option_values = {}
        self.log = []

    def on_a_changed(self, v):
        self.log.append(("a", v, dict(self.option_values)))

    def on_b_changed(self, v):
        self.log.append(("b", v, dict(self.option_values)))

    on_c_changed = "not callable"

    def on_ranged_changed(self, v):
        self.log.append(("ranged", v, dict(self.option_values)))


expect(Host.ranged is Host.__dict__["ranged"], "class access returns the descriptor")
expect(isinstance(Host.flag, Option), "class access type")

h = Host()
try:
    h.flag
except KeyError:
    pass
else:
    expect(False, "reading an unset option is a KeyError")

# clamp: exact results, type included
clamp_cases = [
    (-1, 0), (0, 0), (1, 1), (95, 95), (96, 96), (97, 96), (10**9, 96), (-(10**9), 0),
    (0.0, 0), (96.0, 96), (95.5, 95.5), (-0.5, 0), (96.5, 96), (True, True), (False, 0),
    (float("inf"), 96), (float("-inf"), 0), (float("nan"), 96),
]
for given, want in clamp_cases:
    h.log.clear()
    h.ranged = given
    got = h.option_values["ranged"]
    expect(ident(got, want), "clamp %r -> %r (want %r)" % (given, got, want))
    expect(ident(h.ranged, want), "clamp read back %r" % (given,))
    expect(len(h.log) == 1 and h.log[0][0] == "ranged" and ident(h.log[0][1], want), "hook gets stored value")
    expect(ident(h.log[0][2]["ranged"], want), "hook runs after the store")
try:
    h.ranged = "text"
except TypeError:
    pass
else:
    expect(False, "clamping a str is a TypeError")
try:
    h.ranged = None
except TypeError:
    pass
else:
    expect(False, "clamping None is a TypeError")

# ranged + inverted: clamped, never bool-coerced on write, but negated on read
for given, stored, logical in [(9, 5, False), (-9, -5, False), (0, 0, True), (2, 2, False)]:
    h.ranged_inv = given
    expect(ident(h.option_values["ranged_inv"], stored), "ranged_inv store %r" % given)
    expect(ident(h.ranged_inv, logical), "ranged_inv read %r" % given)

# only one bound declared: value passes through untouched
for given in (-7, 300, 1.5, "s", None, True):
    h.half = given
    expect(h.option_values["half"] is given, "half-bounded option is not clamped")

# 1-bit options: bool coercion and inversion
for given in (0, 1, 2, -1, "", "x", None, [], [0], 0.0, 0.1, True, False):
    h.flag = given
    expect(ident(h.option_values["flag"], bool(given)), "flag store %r" % (given,))
    expect(ident(h.flag, bool(given)), "flag read %r" % (given,))
    h.inv = given
    expect(ident(h.option_values["inv"], not bool(given)), "inv store %r" % (given,))
    expect(ident(h.inv, bool(given)), "inv read %r" % (given,))

# wider options: stored as given (no coercion, no masking at this level)
for given in (0, 1, 7, 8, -1, True, 2.5, "s", None):
    h.wide = given
    expect(h.option_values["wide"] is given, "wide store %r" % (given,))
    expect(h.wide is given, "wide read %r" % (given,))
    h.wide_inv = given
    expect(h.option_values["wide_inv"] is given, "wide_inv store %r" % (given,))
    expect(ident(h.wide_inv, not given), "wide_inv read %r" % (given,))

# exclusivity and hook order
h = Host()
h.c = 5
expect(h.log == [] and h.option_values == {"c": 5}, "non-callable hook ignored")
h.b = True
expect([e[:2] for e in h.log] == [("b", True), ("a", False)], "b then a hooks: %r" % h.log)
expect(h.log[0][2] == {"c": 5, "b": True}, "b hook sees only its own store")
expect(h.log[1][2] == {"c": 5, "b": True, "a": False}, "a hook after a cleared")
h.log.clear()
h.a = 1
expect([e[:2] for e in h.log] == [("a", True), ("b", False)], "a then b hooks (c hook not callable)")
expect(h.option_values == {"c": False, "b": False, "a": True}, "exclusive_of clears with False: %r" % h.option_values)
expect(h.option_values["c"] is False, "cleared value is the bool False")
expect(list(h.option_values) == ["c", "b", "a"], "dict insertion order untouched")
h.log.clear()
h.a = 0  # switching off still clears the others
expect([e[:2] for e in h.log] == [("a", False), ("b", False)], "a off")
expect(h.a is False and h.b is False, "both off")

# ---- real modules ------------------------------------------------------------
rng = random.Random(2222)
for cls in classes:
    opts = cls.options
    for name, o in opts.items():
        expect(getattr(cls, name) is o, "%s.%s class access" % (cls.__name__, name))
        expect(o.name == name, "option knows its name")
    mod = cls()
    for name, o in opts.items():
        expect(ident(getattr(mod, name), o.default) or getattr(mod, name) == o.default,
               "%s.%s default" % (cls.__name__, name))
    # constructor keywords go through the descriptor
    kw = {n: (2**o.size - 1) for n, o in opts.items() if not o.exclusive_of}
    mod = cls(**kw)
    for n, v in kw.items():
        o = opts[n]
        if None not in (o.min, o.max):
            want = max(o.min, min(o.max, v))
        elif o.size == 1:
            want = True
        else:
            want = v
        expect(ident(getattr(mod, n), want), "%s(%s=%r) -> %r" % (cls.__name__, n, v, getattr(mod, n)))

    def record(m):
        chunks = list(m.options_chunks())
        expect(chunks[0] == (b"CHNM", struct.pack("<I", cls.options_chnm)), "CHNM")
        return chunks[1][1]

    def reload(data):
        m = cls()
        c = Chunk()
        c.chnm, c.chdt = cls.options_chnm, data
        m.load_options(c)
        return m

    def expected_record(m):
        cells = [0] * (max(o.byte for o in opts.values()) + 1)
        for n, o in opts.items():
            cells[o.byte] += (int(m.option_values[n]) % 2**o.size) * 2**o.bit
        return bytes(cells)

    for name, o in opts.items():
        for v in range(2**o.size):
            m = cls()
            setattr(m, name, v)
            if None not in (o.min, o.max):
                logical = max(o.min, min(o.max, v))
            elif o.size == 1:
                logical = bool(v)
            else:
                logical = v
            expect(ident(getattr(m, name), logical), "%s.%s=%d logical" % (cls.__name__, name, v))
            if o.inverted and o.size == 1:
                expect(m.option_values[name] is (not logical), "stored is inverted")
            for other in o.exclusive_of:
                expect(getattr(m, other) is False, "exclusive partner off")
            data = record(m)
            expect(data == expected_record(m), "%s.%s=%d record" % (cls.__name__, name, v))
            back = reload(data)
            for n in opts:
                expect(ident(getattr(back, n), getattr(m, n)) or getattr(back, n) == getattr(m, n),
                       "%s.%s=%d: %s differs after reload" % (cls.__name__, name, v, n))
            expect(ident(back.option_values[name], m.option_values[name]) or o.size > 1,
                   "stored type after reload")
    for a, b in itertools.permutations(opts, 2):
        m = cls()
        setattr(m, a, 2 ** opts[a].size - 1)
        setattr(m, b, 2 ** opts[b].size - 1)
        if a in opts[b].exclusive_of:
            expect(getattr(m, a) is False and getattr(m, b) is True, "exclusive pair %s/%s" % (a, b))
        back = reload(record(m))
        expect(all(getattr(back, n) == getattr(m, n) for n in opts), "pair %s,%s" % (a, b))
    for i in range(40):
        order = list(opts)
        rng.shuffle(order)
        m = cls()
        for n in order:
            setattr(m, n, rng.randrange(2 ** opts[n].size))
        for n, o in opts.items():
            for other in o.exclusive_of:
                expect(not (getattr(m, n) and getattr(m, other)), "never both on")
        data = record(m)
        expect(data == expected_record(m), "random record")
        back = reload(data)
        expect(all(getattr(back, n) == getattr(m, n) for n in opts), "random reload")
        expect(all(type(back.option_values[n]) is bool for n, o in opts.items() if o.size == 1),
               "1-bit options load as bool")
        expect(all(type(back.option_values[n]) is int for n, o in opts.items() if o.size > 1),
               "wider options load as int")

# MetaModule: the [0, 96] bound and its change hook
MM = MODULE_CLASSES["MetaModule"]
udc = MM.options["user_defined_controllers"]
expect((udc.min, udc.max, udc.size) == (0, 96, 8), "MetaModule bound declared")
mm = MM()
calls = []
mm.recompute_controller_attachment = lambda: calls.append(mm.user_defined_controllers)
for given, want in [(-3, 0), (0, 0), (40, 40), (96, 96), (97, 96), (255, 96), (4000, 96)]:
    mm.user_defined_controllers = given
    expect(ident(mm.user_defined_controllers, want), "udc clamp %r" % given)
    expect(calls[-1] == want, "udc hook ran after store")
expect(len(calls) == 7, "udc hook once per assignment")
mm.event_output = False
expect(mm.option_values["event_output"] is True and mm.event_output is False, "inverted event_output")
mm.receive_notes_from_keyboard = True
mm.do_not_receive_notes_from_keyboard = True
expect(mm.receive_notes_from_keyboard is False and mm.do_not_receive_notes_from_keyboard is True,
       "keyboard options exclusive")

if failures:
    print("FAIL (%d)" % len(failures))
    for f in failures[:20]:
        print("  ", f)
    sys.exit(1)
print("PASS")
