"""Behaviour check for the equivalent-expression refactoring (C03-2).

Touches: rv.lib.iff.write_chunk, Module.options_chunks, Synth.chunks and
Pattern.raw_data.  Compares produced bytes with digests recorded on the
unchanged tree and with independently computed expectations.

Run from the repository root:
    PYTHONPATH=<root>/src/python python check.py
(`--regen` prints the digest table instead of checking it.)
"""
import hashlib
import os
import struct
import sys
from io import BytesIO

from rv.api import NOTE, Pattern, Project, Synth, m, read_sunvox_file
from rv.cmidmap import MidiMessageType, Slope
from rv.errors import EmptySynthError
from rv.lib.iff import write_chunk

ROOT = os.getcwd()
FILES = os.path.join(ROOT, "tests", "files")

GOLDEN = {
    "file:amplifier.sunsynth": "419f5717e558efbc145eafac",
    "file:analog-generator.sunsynth": "76ce674ef1db6717af60bca2",
    "file:compressor.sunsynth": "7e4fa89c60186b9a11f55e88",
    "file:dc-blocker.sunsynth": "1312bb3c1626a845ea4227ba",
    "file:delay.sunsynth": "32ee6c78f799b00c67608a7e",
    "file:distortion.sunsynth": "e9b59951b8753b41f51c8c4f",
    "file:drum-synth.sunsynth": "6d8ad0364d91a386d19b24cf",
    "file:echo.sunsynth": "a51866593f018ff999a6757d",
    "file:empty.sunvox": "0b58f6338b84cd2a3802ae4d",
    "file:eq.sunsynth": "c6e8877e93f69f7fbaa3db88",
    "file:feedback.sunsynth": "09a1d368f8d9743977592b90",
    "file:fft.sunsynth": "a532a1e449a579c5fa56fcdd",
    "file:filter-pro.sunsynth": "87b217d025f588bb70015551",
    "file:filter.sunsynth": "ccf4f2af334e7d85df980339",
    "file:flanger.sunsynth": "658f4783cc9c248ebe9f31e3",
    "file:fmx.sunsynth": "d2b0427af5abec18927f4138",
    "file:generator.sunsynth": "16aefebfbfb606f8c608f0af",
    "file:glide.sunsynth": "765d995ffed7b9491e2c9775",
    "file:gpio.sunsynth": "15c3990e39ba8c2d0b6f5ecd",
    "file:input.sunsynth": "025ed41f84a149cb59b48ef6",
    "file:issue109/filter_lfo.sunvox": "7c07bab808ce3d271b3487c1",
    "file:issue109/filter_lfo.sunvox#synth1": "8895400fbfaeb3428058fcff",
    "file:issue109/filter_lfo.sunvox#synth2": "96c99fe93523494fe82a2bca",
    "file:issue109/filter_lfo.sunvox#synth3": "58888a3e180516172555a34e",
    "file:issue109/filter_lfo.sunvox#synth5": "9d4ccd4d20eb362ad92217bb",
    "file:issue109/filter_lfo.sunvox#synth6": "09207673e59d8ad86721275d",
    "file:issue109/filter_lfo.sunvox#synth7": "59f4eb23299c56e8d2e4003b",
    "file:issue41/sample.sunvox": "31504b7ddfd906224ba3855d",
    "file:issue41/sample.sunvox#synth1": "974ac5d2f04ba434bd9dfa14",
    "file:issue54/test1.sunvox": "915266c46c96537b1ad7473c",
    "file:issue54/test1.sunvox#synth1": "d6ed7941ea782354f204509e",
    "file:issue54/test1.sunvox#synth3": "1ad84c946ca7a93471de457f",
    "file:kicker.sunsynth": "33abb29c4834873a1df6cdaa",
    "file:lfo.sunsynth": "efa89196cf44067f36c946f4",
    "file:loop.sunsynth": "57eca85729cb1af475e5c57d",
    "file:metamodule-option-78.sunsynth": "76bf484725a761c100dc6c67",
    "file:metamodule-option-79.sunsynth": "8d8a050747174fd9f658a8b2",
    "file:metamodule-option-7a.sunsynth": "36db7cdd1df60d034c827704",
    "file:metamodule.sunsynth": "55f5fd0bfba897453b071068",
    "file:modulator.sunsynth": "22d3e9b37c36f8818d83036c",
    "file:module-multiselect.sunvox": "8fa3a4e0ed3b0d49c4294782",
    "file:module-multiselect.sunvox#synth1": "b32efef49f9f186fb82a3c80",
    "file:module-multiselect.sunvox#synth2": "5686e3c7360473e6b7ed998d",
    "file:module-multiselect.sunvox#synth3": "75983de8f564e4da586b66d6",
    "file:module-multiselect.sunvox#synth4": "41643d4fce45df37f2101ca2",
    "file:multictl.sunsynth": "66b009f3228bb000bd08f11f",
    "file:multisynth-random-off.sunsynth": "b4ccf1b6f4e1ed62c7ebf966",
    "file:multisynth-random1.sunsynth": "a19a3f40a8bd840e62b0b525",
    "file:multisynth-random2.sunsynth": "98bf489a0febc83d29b91511",
    "file:multisynth-random3.sunsynth": "b7fbddfa4ed104bfe889dc1d",
    "file:multisynth.sunsynth": "87df69077399b6112a3e3ed7",
    "file:pitch-shifter.sunsynth": "4c58b5705344a08e159e5273",
    "file:pitch2ctl.sunsynth": "73252da465dfcc2f5993dc79",
    "file:reverb.sunsynth": "90db4c635458e8fe34ef4ba4",
    "file:sampler.sunsynth": "3b0f2915c2ec0456c0932e70",
    "file:single-fm.sunvox": "ca3eb0ed7d25ba31f4e96888",
    "file:single-fm.sunvox#synth1": "45a29f7ca451535d0c4f9713",
    "file:smooth.sunsynth": "673c38cfc74b338e6936d75c",
    "file:sound2ctl.sunsynth": "fd4a139c6dc96ebf2eecbaea",
    "file:spectravoice.sunsynth": "112111c76bcab011dcf9c039",
    "file:supertracks.sunvox": "1a4f41f039f94d444739fff9",
    "file:velocity2ctl.sunsynth": "5fe6662a1ac4bc70daa3ed25",
    "file:vibrato.sunsynth": "274b70fa0e6cf0ab0d3b04b7",
    "file:vocal-filter.sunsynth": "f62bcc37659869aaa0bd842d",
    "file:vorbis-player.sunsynth": "f18896c9f30ee44ad1a83493",
    "file:waveshaper.sunsynth": "a4d25d2c53431359abb5c05e",
    "opt:AnalogGenerator:all-false": "aa25e1d595a77c375b40b479",
    "opt:AnalogGenerator:all-true": "8ce3f3efb6b3b858a770bbe5",
    "opt:AnalogGenerator:alternate": "35b1906bdeaace626a41cecc",
    "opt:AnalogGenerator:default": "aa25e1d595a77c375b40b479",
    "opt:AnalogGenerator:descriptor": "8756fe9be9e71455adfb5559",
    "opt:AnalogGenerator:max": "8ce3f3efb6b3b858a770bbe5",
    "opt:AnalogGenerator:negative": "8ce3f3efb6b3b858a770bbe5",
    "opt:AnalogGenerator:overflow": "8ce3f3efb6b3b858a770bbe5",
    "opt:MetaModule:all-false": "b76875c50ef704dbbf7f02c9",
    "opt:MetaModule:all-true": "af3ae18150fcb001582b74db",
    "opt:MetaModule:alternate": "a5842a9e2d00a8f490b82a4a",
    "opt:MetaModule:default": "b76875c50ef704dbbf7f02c9",
    "opt:MetaModule:descriptor": "8dd73fbabc8bed3a5ab6d69f",
    "opt:MetaModule:max": "ceb8cc484ce41937ab93d928",
    "opt:MetaModule:negative": "ceb8cc484ce41937ab93d928",
    "opt:MetaModule:overflow": "af3ae18150fcb001582b74db",
    "opt:MultiSynth:all-false": "ca888f40c3caca805b37a543",
    "opt:MultiSynth:all-true": "cd16be2bfa1cd5023e8f1326",
    "opt:MultiSynth:alternate": "8ede2871d81b88fc7afda8fa",
    "opt:MultiSynth:default": "ca888f40c3caca805b37a543",
    "opt:MultiSynth:descriptor": "9cf9abf8588aaa4ae6f8e351",
    "opt:MultiSynth:max": "f6bbf98b4052a340d488384b",
    "opt:MultiSynth:negative": "f6bbf98b4052a340d488384b",
    "opt:MultiSynth:overflow": "cd16be2bfa1cd5023e8f1326",
    "opt:Sampler:all-false": "bb2a4f35db7dd2f37c30c52d",
    "opt:Sampler:all-true": "db8811c22eb922762f9f6ea8",
    "opt:Sampler:alternate": "5b781fe7f75bf8f05bde8bdd",
    "opt:Sampler:default": "bb2a4f35db7dd2f37c30c52d",
    "opt:Sampler:descriptor": "386b5e9ce1007d620e41b895",
    "opt:Sampler:max": "c9945fe2c6c32e00de832ab2",
    "opt:Sampler:negative": "c9945fe2c6c32e00de832ab2",
    "opt:Sampler:overflow": "db8811c22eb922762f9f6ea8",
    "opt:Sound2Ctl:all-false": "b0f66adc8364158665686681",
    "opt:Sound2Ctl:all-true": "7c70b6b1c612fa54ce7b84d6",
    "opt:Sound2Ctl:alternate": "186128bf8a4d60eb4b51102a",
    "opt:Sound2Ctl:default": "186128bf8a4d60eb4b51102a",
    "opt:Sound2Ctl:descriptor": "7c70b6b1c612fa54ce7b84d6",
    "opt:Sound2Ctl:max": "7c70b6b1c612fa54ce7b84d6",
    "opt:Sound2Ctl:negative": "7c70b6b1c612fa54ce7b84d6",
    "opt:Sound2Ctl:overflow": "7c70b6b1c612fa54ce7b84d6",
    "pat-project:16x64": "4192b74b9d98dc0df0f38042",
    "pat-project:1x1": "d615ebc266f61043fde75deb",
    "pat-project:1x4": "da9751a6eb863abf24e0ecba",
    "pat-project:32x2": "70c4fdb04912e0294f0faedf",
    "pat-project:3x5": "418a9df2a364ac5b43930edf",
    "pat-project:4x1": "cd9db8f11b3ad924ea95cd48",
    "pat:16x64": "48a2a7c01fdf799cb9b26c48",
    "pat:1x1": "6186530e872ac29959a0c223",
    "pat:1x4": "713af99beffdb7f137ecd8fb",
    "pat:32x2": "25ded2a2018776ad7adcc3d3",
    "pat:3x5": "99970133172b20cb5b44be0a",
    "pat:4x1": "713af99beffdb7f137ecd8fb",
    "synth:Adsr:default": "1b3b645f5435a83fcd9951ab",
    "synth:Adsr:midi": "945d479e9765a963cfff5ec1",
    "synth:Amplifier:default": "a82b67440909469045f9eb96",
    "synth:Amplifier:midi": "e7c671a616f1c1644e204c61",
    "synth:AnalogGenerator:default": "4e945946da60253c3bf66f2f",
    "synth:AnalogGenerator:midi": "d3478f9ac67ecc1bfd9a2427",
    "synth:Compressor:default": "827c37689c933bd0d5319b9c",
    "synth:Compressor:midi": "cd1300f0785a130200249ca0",
    "synth:Ctl2Note:default": "18e51f6894b194267a530ba1",
    "synth:Ctl2Note:midi": "59099d0a954bc1be905910e5",
    "synth:DcBlocker:default": "bef64d4a72e57df0d19cedbe",
    "synth:DcBlocker:midi": "09b5f56be1f7c064f54b8a48",
    "synth:Delay:default": "9a5599b6883d171322b61383",
    "synth:Delay:midi": "26cdf4002c5a14431a3d53a3",
    "synth:Distortion:default": "600f1d0ce8ebfad3bd422a98",
    "synth:Distortion:midi": "c0148454bcde39a151ae622c",
    "synth:DrumSynth:default": "4e2a7484cbd34df21e589ac9",
    "synth:DrumSynth:midi": "58ea5f07176c35b5e9bc01e0",
    "synth:Echo:default": "93015698fbbbad014a4b0d25",
    "synth:Echo:midi": "bf7b429cb6f01adb49a45fd2",
    "synth:Eq:default": "0b7a6c926d7ca8379912bfe6",
    "synth:Eq:midi": "20aa6648eb7c229727a582f0",
    "synth:Feedback:default": "f4064e3c4244069b37b6da81",
    "synth:Feedback:midi": "f3548d8d0615cc67ff97a336",
    "synth:Fft:default": "7a04b190423a0ac9430ba3cd",
    "synth:Fft:midi": "8b08033022c0f05447233dbf",
    "synth:Filter:default": "4248ce2bb28da3f7187b6077",
    "synth:Filter:midi": "2630620c1e0d44ea8643c982",
    "synth:FilterPro:default": "9ffe3426097ee40b082e116f",
    "synth:FilterPro:midi": "095aa509811a7acf5a17ebad",
    "synth:Flanger:default": "492115489c33ab05c3310b3f",
    "synth:Flanger:midi": "7056b4eeacdac413e2a377ba",
    "synth:Fm:default": "3a22416b72efa22a5d595aa4",
    "synth:Fm:midi": "7204c8e4f49817d8f165f1d6",
    "synth:Fmx:default": "3eb51b3667ad622167642c18",
    "synth:Fmx:midi": "4130311cdcbee9257700dace",
    "synth:Generator:default": "29b07081976df45b68b61b88",
    "synth:Generator:midi": "55148e93dce7cf1591a97f9d",
    "synth:Glide:default": "a07b02cf584eee569edeb63d",
    "synth:Glide:midi": "a35f9280556b6943c7bcebdc",
    "synth:Gpio:default": "d72f4b49539630dc0059cb6a",
    "synth:Gpio:midi": "c00b19ec745b386e05da2cb3",
    "synth:Input:default": "5b8544399d18a2e0352984ec",
    "synth:Input:midi": "65d685ca7c1ebb1d452e3ea7",
    "synth:Kicker:default": "9b277d344f2097ccb480d671",
    "synth:Kicker:midi": "ed42ed206bb485669a053f07",
    "synth:Lfo:default": "fe4dccdc770853093ea6be23",
    "synth:Lfo:midi": "e79784d757ebeeffc179486d",
    "synth:Loop:default": "2f8b6071edc1f0b27423e082",
    "synth:Loop:midi": "485625991076f673fa201516",
    "synth:MetaModule:default": "5db044749e2b1bb0a49f0007",
    "synth:MetaModule:midi": "cdf8be0d1de3eab75aa365cc",
    "synth:MetaModule:ud0": "074f5011f071dcb86c2396fd",
    "synth:MetaModule:ud1": "a63bacf903d988d06311d4de",
    "synth:MetaModule:ud27": "630063447ab46eb39777f5d3",
    "synth:MetaModule:ud5": "1917405f6f36c8f95c4fb3d4",
    "synth:Modulator:default": "9a5a32cc5999ea363ebdfc1b",
    "synth:Modulator:midi": "0129337af9d3d45f1a106332",
    "synth:MultiCtl:default": "f5eaa24af7b072294fb32818",
    "synth:MultiCtl:midi": "edb712b3bb3c55073f171aca",
    "synth:MultiSynth:default": "0e07abfdde388212410d3835",
    "synth:MultiSynth:midi": "5b3e0a05c855de5489fc5e9a",
    "synth:Pitch2Ctl:default": "210e5a847b10e585c309344a",
    "synth:Pitch2Ctl:midi": "39685c3c6133dcc542118f7c",
    "synth:PitchDetector:default": "ccd462503fa985fc9cfed498",
    "synth:PitchDetector:midi": "f4ee848ebf25cb351ae1b296",
    "synth:PitchShifter:default": "3b35357d7ee87b0306a19956",
    "synth:PitchShifter:midi": "8a9ace14002974b9313586d2",
    "synth:Reverb:default": "5bde254b6519fdfe0d9dfc5f",
    "synth:Reverb:midi": "af414316c636911797284cd4",
    "synth:Sampler:default": "c665ea9372f6fad33025e982",
    "synth:Sampler:midi": "64e9baa188bf370ed19701a7",
    "synth:Smooth:default": "0fb36ec4d552f84a3df0b5f3",
    "synth:Smooth:midi": "17a94ab39159ba595d52809e",
    "synth:Sound2Ctl:default": "3b9ca827c2cc84a4a02ec76a",
    "synth:Sound2Ctl:midi": "f667cfd19ccfbad925e24d6b",
    "synth:SpectraVoice:default": "09cc4542f66ff31493fc520e",
    "synth:SpectraVoice:midi": "663c9f3aa7610fc3250cd353",
    "synth:Velocity2Ctl:default": "415dde76f688941f1931489f",
    "synth:Velocity2Ctl:midi": "8779fbe51c20f410391c70c6",
    "synth:Vibrato:default": "31acbc1f942264cc70ce8c38",
    "synth:Vibrato:midi": "46fe766b2d13f1fe0ec16725",
    "synth:VocalFilter:default": "b71898aba0fef0a283b24ff1",
    "synth:VocalFilter:midi": "a450335cf98dd2cf2b72c45d",
    "synth:VorbisPlayer:default": "9a4735868b1e1c0ff655eae8",
    "synth:VorbisPlayer:midi": "8a2eb4632f74b81425b65461",
    "synth:WaveShaper:default": "adfbbe8dfb07dac4b2487399",
    "synth:WaveShaper:midi": "9d31eba599024eef8bffb297",
    "wc:b''": "ec36ae40e771aef3122f5db7",
    "wc:b'A'": "3db8fe9cc0f2745b451f71ef",
    "wc:b'AB '": "50817e1ca7bc879b9b8b3d4c",
    "wc:b'AB'": "cede9059f6faaee304857884",
    "wc:b'ABCD'": "4ace8517ef8751ce44b3fc0e",
    "wc:b'ABCDEF'": "c0536e144c3e893e1f613627",
    "wc:b'BIG '": "198507c178c1e6c3c8a1c953",
    "wc:b'BPM '": "dac7c64569aea32f48b0c3af",
    "wc:b'MEMV'": "e3218d1a03370065eaaa92bf",
    "wc:b'XY'": "07411e81a6e79e75b33a1865",
}

failures = []
digests = {}


def fail(msg):
    failures.append(msg)
    print("FAIL:", msg)


def record(key, data):
    digests[key] = hashlib.sha256(bytes(data)).hexdigest()[:24]


def parse(data):
    out = []
    pos = 0
    while pos < len(data):
        assert pos + 8 <= len(data), "truncated chunk header"
        cid = data[pos : pos + 4]
        (size,) = struct.unpack_from("<I", data, pos + 4)
        pos += 8
        assert pos + size <= len(data), "truncated chunk payload"
        out.append((cid, data[pos : pos + size]))
        pos += size
    return out


def module_classes():
    out = []
    for name in sorted(dir(m)):
        cls = getattr(m, name)
        if not isinstance(cls, type) or not issubclass(cls, m.Module):
            continue
        if cls is m.Module or getattr(cls, "mtype", None) is None:
            continue
        out.append(cls)
    return out


# ---------------------------------------------------------------- write_chunk
class CountingFile:
    def __init__(self):
        self.writes = []

    def write(self, b):
        self.writes.append(bytes(b))


def check_write_chunk():
    cases = [
        (b"", b""),
        (b"A", b"x"),
        (b"AB", b"\0" * 3),
        (b"AB ", b"abc"),
        (b"BPM ", struct.pack("<I", 125)),
        (b"ABCD", b"payload"),
        (b"ABCDEF", b"truncated id"),
        (bytearray(b"XY"), bytearray(b"\x01\x02")),
        (b"MEMV", memoryview(b"12345")),
        (b"BIG ", bytes(range(256)) * 300),
    ]
    for name, data in cases:
        f = CountingFile()
        write_chunk(f, name, data)
        expect_id = bytes(name[:4]) + b" " * (4 - len(name[:4]))
        expect = [expect_id, struct.pack("<I", len(data)), bytes(data)]
        if f.writes != expect:
            fail(f"write_chunk({name!r}): writes {f.writes[:2]!r}")
        if len(f.writes[0]) != 4:
            fail(f"write_chunk({name!r}): id is not four bytes")
        record(f"wc:{bytes(name)!r}", b"".join(f.writes))
    f = CountingFile()
    if write_chunk(f, None, None) is not None or f.writes:
        fail("write_chunk(None) wrote something")
    if write_chunk(f, None, b"data") is not None or f.writes:
        fail("write_chunk(None, data) wrote something")
    # error behaviour: a str id and a payload without len() are TypeErrors,
    # and the latter is detected before anything is written
    for name, data in (("SVOX", b""), (b"SVOX", None), (b"SVOX", 5)):
        f = CountingFile()
        try:
            write_chunk(f, name, data)
        except TypeError:
            if f.writes:
                fail(f"write_chunk({name!r}, {data!r}) wrote before failing")
        else:
            fail(f"write_chunk({name!r}, {data!r}) did not raise TypeError")
    # a chunk stream written by several calls parses back
    f = BytesIO()
    for name, data in cases:
        write_chunk(f, name, data)
    back = parse(f.getvalue())
    if [bytes(d) for _, d in back] != [bytes(d) for _, d in cases]:
        fail("write_chunk stream does not parse back")


# -------------------------------------------------------------------- options
def expected_options(mod):
    """Independent rendering of the options byte map."""
    size = max(o.byte for o in mod.options.values()) + 1
    buf = [0] * size
    for o in mod.options.values():
        v = int(mod.option_values[o.name])
        buf[o.byte] |= (v % (2**o.size)) * (2**o.bit)
    return bytes(buf)


def check_options():
    seen = 0
    for cls in module_classes():
        mod = cls()
        if not mod.options:
            got = list(mod.specialized_iff_chunks()) if cls is not m.Sampler else None
            if got is not None and cls not in (m.MetaModule,) and got != [(None, None)]:
                # modules without options may still have their own chunks
                pass
            continue
        seen += 1
        variants = {"default": {}}
        names = list(mod.options)
        variants["all-true"] = {n: True for n in names}
        variants["all-false"] = {n: False for n in names}
        variants["max"] = {n: (2 ** mod.options[n].size) - 1 for n in names}
        variants["overflow"] = {n: (2 ** mod.options[n].size) + 1 for n in names}
        variants["negative"] = {n: -1 for n in names}
        variants["alternate"] = {n: i % 2 for i, n in enumerate(names)}
        for vname, values in variants.items():
            mod = cls()
            mod.option_values.update(values)
            got = list(mod.options_chunks())
            ids = [c for c, _ in got]
            if ids != [b"CHNM", b"CHDT"]:
                fail(f"{cls.__name__}/{vname}: options chunk ids {ids}")
                continue
            if got[0][1] != struct.pack("<I", mod.options_chnm):
                fail(f"{cls.__name__}/{vname}: CHNM value")
            if got[1][1] != expected_options(mod):
                fail(f"{cls.__name__}/{vname}: CHDT {got[1][1]!r}")
            if mod.options_chnm >= mod.chnk:
                fail(f"{cls.__name__}: options CHNM not below CHNK")
            record(f"opt:{cls.__name__}:{vname}", got[0][1] + got[1][1])
        # set through the public descriptors as well
        mod = cls()
        for i, n in enumerate(names):
            try:
                setattr(mod, n, (i + 1) % 3)
            except Exception as e:  # same on both trees, recorded in the digest
                record(f"opt:{cls.__name__}:set-error:{n}", repr(type(e)).encode())
        got = list(mod.options_chunks())
        if got[1][1] != expected_options(mod):
            fail(f"{cls.__name__}/descriptor: CHDT {got[1][1]!r}")
        record(f"opt:{cls.__name__}:descriptor", got[0][1] + got[1][1])
        # a missing value is a TypeError, raised before anything is yielded
        mod = cls()
        mod.option_values[names[-1]] = None
        try:
            got = list(mod.options_chunks())
        except TypeError:
            pass
        else:
            fail(f"{cls.__name__}: None option value did not raise TypeError")
    if seen < 5:
        fail(f"only {seen} module types with options")
    # a value that does not fit its byte: CHNM is produced, then struct.error
    mod = m.MultiSynth()
    first = next(iter(mod.options.values()))
    first_name = first.name
    mod.option_values[first_name] = 0xF
    saved = (first.size, first.bit)
    try:
        first.size, first.bit = 4, 6
        it = mod.options_chunks()
        head = next(it)
        if head != (b"CHNM", struct.pack("<I", mod.options_chnm)):
            fail("overflowing option: CHNM not yielded first")
        try:
            next(it)
        except struct.error:
            pass
        else:
            fail("overflowing option byte did not raise struct.error")
    finally:
        first.size, first.bit = saved


# --------------------------------------------------------------------- synths
def check_synth_bytes(key, synth, data):
    mod = synth.module
    chunks = parse(data)
    ids = [c for c, _ in chunks]
    if ids[0] != b"SSYN" or ids[1] != b"VERS" or ids[-1] != b"SEND":
        fail(f"{key}: framing {ids[:2]} .. {ids[-1]}")
    if ids.count(b"SEND") != 1:
        fail(f"{key}: SEND count")
    d = {}
    for c, p in chunks:
        d.setdefault(c, p)
    if len(d[b"SNAM"]) != 32:
        fail(f"{key}: SNAM length")
    attached = [n for n, c in mod.controllers.items() if c.attached(mod)]
    cvals = [struct.unpack("<i", p)[0] for c, p in chunks if c == b"CVAL"]
    if cvals != [mod.get_raw(n) for n in attached]:
        fail(f"{key}: CVAL values")
    if attached:
        if ids.count(b"CMID") != 1:
            fail(f"{key}: CMID count")
        elif d[b"CMID"] != b"".join(
            mod.controller_midi_maps[n].cmid_data for n in attached
        ):
            fail(f"{key}: CMID content")
        elif ids.index(b"CMID") != len(ids) - 1 - ids[::-1].index(b"CVAL") + 1:
            fail(f"{key}: CMID position")
    elif b"CMID" in d:
        fail(f"{key}: CMID without controllers")
    if mod.chnk:
        if struct.unpack("<I", d[b"CHNK"])[0] != mod.chnk:
            fail(f"{key}: CHNK value")
        for c, p in chunks:
            if c == b"CHNM" and struct.unpack("<I", p)[0] >= mod.chnk:
                fail(f"{key}: CHNM >= CHNK")
    elif b"CHNK" in d:
        fail(f"{key}: unexpected CHNK")


def emit_synth(key, synth):
    data = synth.read()
    record(key, data)
    check_synth_bytes(key, synth, data)
    return data


def check_synths():
    for cls in module_classes():
        if cls is m.Output:
            continue
        mod = cls()
        emit_synth(f"synth:{cls.__name__}:default", Synth(mod))
        # change controller values and MIDI maps through the public API
        mod = cls(name="n" * 40)
        for i, (name, ctl) in enumerate(mod.controllers.items()):
            if not ctl.attached(mod):
                continue
            cm = mod.controller_midi_maps[name]
            cm.channel = i % 16
            cm.message_type = list(MidiMessageType)[i % len(MidiMessageType)]
            cm.message_parameter = (i * 257) & 0xFFFF
            cm.slope = list(Slope)[i % len(Slope)]
        emit_synth(f"synth:{cls.__name__}:midi", Synth(mod))
    # metamodule with a varying number of attached user defined controllers
    for count in (0, 1, 5, 27):
        inner = Project()
        g = inner.new_module(m.Generator)
        inner.connect(g, inner.output)
        meta = m.MetaModule(project=inner)
        meta.user_defined_controllers = count
        data = emit_synth(f"synth:MetaModule:ud{count}", Synth(meta))
        n_cval = sum(1 for c, _ in parse(data) if c == b"CVAL")
        n_expected = sum(1 for c in meta.controllers.values() if c.attached(meta))
        if n_cval != n_expected:
            fail(f"metamodule ud{count}: {n_cval} CVAL for {n_expected} controllers")
    # errors
    try:
        Synth().read()
    except EmptySynthError:
        pass
    else:
        fail("empty synth did not raise EmptySynthError")
    try:
        Synth(m.Module()).read()
    except RuntimeError:
        pass
    else:
        fail("base Module synth did not raise RuntimeError")
    it = Synth(m.Generator()).chunks()
    if next(it) != (b"SSYN", b""):
        fail("Synth.chunks() first item")


def check_corpus():
    paths = []
    for base, _, names in os.walk(FILES):
        for n in names:
            if n.endswith((".sunvox", ".sunsynth")):
                paths.append(os.path.join(base, n))
    paths.sort()
    if len(paths) < 40:
        fail(f"corpus too small: {len(paths)} files under {FILES}")
    for path in paths:
        rel = os.path.relpath(path, FILES).replace(os.sep, "/")
        with open(path, "rb") as f:
            obj = read_sunvox_file(f)
        data = obj.read()
        record("file:" + rel, data)
        if isinstance(obj, Synth):
            check_synth_bytes("file:" + rel, obj, data)
        else:
            # each module of a project also serialises as a synth
            for mod in obj.modules[1:]:
                if mod is not None:
                    emit_synth(f"file:{rel}#synth{mod.index}", Synth(mod))
        if read_sunvox_file(BytesIO(data)).read() != data:
            fail(f"{rel}: rewrite is not a fixed point")


# ------------------------------------------------------------------- patterns
def check_patterns():
    shapes = [(1, 1), (1, 4), (4, 1), (3, 5), (32, 2), (16, 64)]
    for tracks, lines in shapes:
        pat = Pattern(tracks=tracks, lines=lines)
        if pat.raw_data != b"\0" * (lines * tracks * 8):
            fail(f"empty pattern {tracks}x{lines} raw data")
        expect = b""
        for line in range(lines):
            for track in range(tracks):
                note = pat.data[line][track]
                k = line * tracks + track
                note.note = k % 128
                note.vel = (k * 7) % 130
                note.module = (k * 13) % 0x10000
                note.ctl = (k * 257) % 0x10000
                note.val = (0xFFFF - k * 3) % 0x10000
                expect += struct.pack(
                    "<BBHHH", note.note, note.vel, note.module, note.ctl, note.val
                )
        raw = pat.raw_data
        if not isinstance(raw, bytes):
            fail(f"pattern {tracks}x{lines}: raw_data type {type(raw)}")
        if raw != expect or len(raw) != lines * tracks * 8:
            fail(f"pattern {tracks}x{lines}: raw_data content")
        chunks = list(pat.iff_chunks())
        if chunks[0] != (b"PDTA", expect):
            fail(f"pattern {tracks}x{lines}: PDTA chunk")
        d = dict(chunks)
        if d[b"PCHN"] != struct.pack("<I", tracks) or d[b"PLIN"] != struct.pack("<I", lines):
            fail(f"pattern {tracks}x{lines}: PCHN/PLIN")
        record(f"pat:{tracks}x{lines}", raw)
        # in a project
        p = Project()
        p.attach_pattern(pat)
        record(f"pat-project:{tracks}x{lines}", p.read())
    pat = Pattern(tracks=2, lines=2)
    pat.data[1][0].note = NOTE.C5
    if pat.raw_data[16] != NOTE.C5.value:
        fail("pattern: line-major note order")


def main():
    check_write_chunk()
    check_options()
    check_synths()
    check_corpus()
    check_patterns()
    if "--regen" in sys.argv:
        for k in sorted(digests):
            print(f'    "{k}": "{digests[k]}",')
        return 0
    if set(GOLDEN) != set(digests):
        fail(f"digest key sets differ: {sorted(set(GOLDEN) ^ set(digests))}")
    for k, v in digests.items():
        if GOLDEN.get(k) != v:
            fail(f"{k}: bytes differ from the recorded digest")
    if failures:
        print(f"{len(failures)} failure(s)")
        return 1
    print(f"PASS ({len(digests)} outputs checked)")
    return 0


if __name__ == "__main__":
    sys.exit(main())
