"""Behaviour check for Note byte sub-fields, Note.raw_data and Pattern.raw_data."""
import random
import struct
import sys

import rv.api  # noqa: F401  (resolves the package import cycle first)
from rv.note import NOTE, NOTECMD, Note
from rv.pattern import Pattern

failures = []


def check(cond, msg):
    if not cond:
        failures.append(msg)
        if len(failures) < 20:
            print("FAIL:", msg)


# --- 1. byte sub-field getters / setters -----------------------------------
SUBFIELDS = [
    ("controller", "ctl", True),
    ("effect", "ctl", False),
    ("val_xx", "val", True),
    ("val_yy", "val", False),
]


def expect_get(word, high):
    return word >> 8 if high else word & 0xFF


def expect_set(word, high, value):
    if high:
        return (word & 0x00FF) | ((value & 0xFF) << 8)
    return (word & 0xFF00) | (value & 0xFF)


for prop, word_name, high in SUBFIELDS:
    check(isinstance(getattr(Note, prop), property), "%s is a property" % prop)
    other_word = "val" if word_name == "ctl" else "ctl"
    sample_values = [0, 1, 0x7F, 0x80, 0xFE, 0xFF, 0x100, 0x1FF, 0x1234, -1, -256, True]
    n = Note()
    # every 16-bit old word, a handful of new values
    for old in range(0x10000):
        setattr(n, word_name, old)
        check(getattr(n, prop) == expect_get(old, high), "get %s %x" % (prop, old))
        v = sample_values[old % len(sample_values)]
        setattr(n, prop, v)
        got = getattr(n, word_name)
        check(got == expect_set(old, high, v), "set %s old=%x v=%r" % (prop, old, v))
        check(type(got) is int, "type of word after set")
        check(getattr(n, prop) == (v & 0xFF), "readback %s old=%x v=%r" % (prop, old, v))
    # every byte value, several old words (incl. out-of-domain ones)
    for old in [0, 0xFFFF, 0xFF00, 0x00FF, 0xA55A, 0x1234, 0x12345, 0xFFFFFF, -1, -0x1234]:
        for v in range(-2, 0x102):
            n = Note()
            n.note, n.vel, n.module = 5, 77, 0x4321
            setattr(n, other_word, 0xBEEF)
            setattr(n, word_name, old)
            check(getattr(n, prop) == expect_get(old, high), "get %s %x" % (prop, old))
            setattr(n, prop, v)
            check(
                getattr(n, word_name) == expect_set(old, high, v),
                "set %s old=%x v=%r" % (prop, old, v),
            )
            check(
                (n.note, n.vel, n.module, getattr(n, other_word)) == (5, 77, 0x4321, 0xBEEF),
                "other fields untouched by %s" % prop,
            )
    # setting one half leaves the sibling half alone, also when overwriting
    for old in [0x0000, 0xFFFF, 0x12CD, 0xAB34]:
        n = Note()
        setattr(n, word_name, old)
        sibling = [p for p, w, h in SUBFIELDS if w == word_name and h != high][0]
        before = getattr(n, sibling)
        for v in (0xFF, 0x00, 0x5A, 0xA5):
            setattr(n, prop, v)
            check(getattr(n, prop) == v, "overwrite %s" % prop)
            check(getattr(n, sibling) == before, "sibling of %s kept" % prop)
    # wrong types raise TypeError and leave the word alone
    for bad in (1.5, "x", None):
        n = Note(ctl=0x1234, val=0x5678)
        try:
            setattr(n, prop, bad)
        except TypeError:
            pass
        else:
            check(False, "%s accepted %r" % (prop, bad))
        check((n.ctl, n.val) == (0x1234, 0x5678), "word kept after TypeError")
    n = Note()
    setattr(n, word_name, 2.5)
    try:
        getattr(n, prop)
    except TypeError:
        pass
    else:
        check(False, "getter on float word")

# --- 2. Note.raw_data -------------------------------------------------------
rng = random.Random(12)
words = [0, 1, 0xFF, 0x100, 0x1234, 0xFFFE, 0xFFFF]
for cmd in list(NOTECMD) + [0, 1, 127, 200, 255]:
    for vel in list(range(0, 130)) if int(cmd) % 16 == 0 else [0, 1, 64, 129]:
        module, ctl, val = rng.choice(words), rng.choice(words), rng.randrange(0x10000)
        n = Note(note=cmd if isinstance(cmd, NOTECMD) else NOTECMD.EMPTY, vel=vel,
                 module=module, ctl=ctl, val=val)
        n.note = cmd
        raw = n.raw_data
        check(type(raw) is bytes and len(raw) == 8, "8 bytes")
        check(raw == struct.pack("<BBHHH", int(cmd), vel, module, ctl, val), "layout")
        m = Note()
        m.raw_data = raw
        check((m.note, m.vel, m.module, m.ctl, m.val) == (int(cmd), vel, module, ctl, val), "decode")
        check(all(type(getattr(m, f)) is int for f in ("note", "vel", "module", "ctl", "val")), "int types")
        check(m.raw_data == raw, "re-encode")
        check(m.pattern is None, "pattern untouched")
        c = n.clone()
        check(c is not n and c.raw_data == raw and c.pattern is None, "clone")
for raw in (bytes(8), bytes(range(8)), b"\xff" * 8, bytearray(b"\x01\x02\x03\x04\x05\x06\x07\x08"),
            memoryview(b"\x10\x20\x30\x40\x50\x60\x70\x80")):
    m = Note()
    m.raw_data = raw
    check(m.raw_data == bytes(raw), "roundtrip %r" % bytes(raw))
# bad input leaves the note unchanged
for bad in (b"", b"\0" * 7, b"\0" * 9, b"\0" * 16):
    m = Note(note=NOTECMD.C4, vel=3, module=4, ctl=5, val=6)
    try:
        m.raw_data = bad
    except struct.error:
        pass
    else:
        check(False, "accepted %d bytes" % len(bad))
    check((m.note, m.vel, m.module, m.ctl, m.val) == (NOTECMD.C4, 3, 4, 5, 6), "unchanged after error")
try:
    Note().raw_data = "12345678"
except TypeError:
    pass
else:
    check(False, "str accepted")
# out-of-range fields cannot be packed
for field, value in (("vel", 256), ("module", 0x10000), ("ctl", -1), ("val", 0x10000), ("note", 256)):
    m = Note()
    setattr(m, field, value)
    try:
        m.raw_data
    except struct.error:
        pass
    else:
        check(False, "packed %s=%r" % (field, value))

# --- 3. Pattern.raw_data ----------------------------------------------------
for tracks, lines in [(1, 1), (1, 5), (4, 32), (3, 7), (32, 2), (16, 9), (5, 64)]:
    image = bytes(rng.randrange(256) for _ in range(tracks * lines * 8))
    p = Pattern(tracks=tracks, lines=lines)
    check(p.raw_data == bytes(tracks * lines * 8), "empty pattern image")
    p.raw_data = image
    check(p.raw_data == image, "pattern roundtrip %dx%d" % (tracks, lines))
    for line in range(lines):
        for track in range(tracks):
            off = (line * tracks + track) * 8
            cell = p.data[line][track]
            check(cell.raw_data == image[off : off + 8], "cell position")
            check(cell.pattern is p, "cell owner")
    # extra trailing bytes are ignored
    q = Pattern(tracks=tracks, lines=lines)
    q.raw_data = image + b"\xAA" * 11
    check(q.raw_data == image, "trailing bytes ignored")
    # bytearray / memoryview inputs
    q = Pattern(tracks=tracks, lines=lines)
    q.raw_data = bytearray(image)
    check(q.raw_data == image, "bytearray image")
    q = Pattern(tracks=tracks, lines=lines)
    q.raw_data = memoryview(image)
    check(q.raw_data == image, "memoryview image")
    # short data: cells before the cut are loaded, then struct.error
    for cut in sorted({0, 3, 8, len(image) - 8, len(image) - 1, (len(image) // 16) * 8 + 5}):
        if cut < 0 or cut >= len(image):
            continue
        q = Pattern(tracks=tracks, lines=lines)
        try:
            q.raw_data = image[:cut]
        except struct.error:
            pass
        else:
            check(False, "short image accepted")
        whole = cut // 8
        expected = image[: whole * 8] + bytes(len(image) - whole * 8)
        check(q.raw_data == expected, "partial load cut=%d" % cut)

# data shape larger/smaller than lines x tracks
p = Pattern(tracks=2, lines=3)
p.data  # materialise 3x2
p.lines = 2
p.raw_data = bytes(range(1, 33))
check(p.raw_data == bytes(range(1, 33)) + bytes(16), "extra data rows kept, untouched")
p = Pattern(tracks=2, lines=2)
p.data
p.lines = 3
try:
    p.raw_data = bytes(range(48))
except IndexError:
    pass
else:
    check(False, "IndexError expected for missing rows")
check(p.raw_data == bytes(range(32)), "rows before the IndexError loaded")
p = Pattern(tracks=2, lines=2)
p.data
p.tracks = 3
try:
    p.raw_data = bytes(range(48))
except IndexError:
    pass
else:
    check(False, "IndexError expected for missing tracks")
check(p.raw_data == bytes(range(16)) + bytes(16), "cells before the IndexError loaded")

# chunk output uses the same image
p = Pattern(tracks=3, lines=4)
img = bytes(rng.randrange(256) for _ in range(96))
p.raw_data = img
chunks = dict(p.iff_chunks())
check(chunks[b"PDTA"] == img, "PDTA chunk")
check(chunks[b"PCHN"] == struct.pack("<I", 3) and chunks[b"PLIN"] == struct.pack("<I", 4), "shape chunks")

if failures:
    print("FAILED (%d)" % len(failures))
    sys.exit(1)
print("PASS")
