"""Behaviour check for C03 refactoring 1 (precompiled struct encoders).

Run from the repository root:
    PYTHONPATH=$PWD/src/python python check.py

Exercises write_chunk, Note.raw_data, Pattern.raw_data / iff_chunks,
PatternClone.iff_chunks, ControllerMidiMap.cmid_data, Module.iff_chunks,
Module.options_chunks and the module Chunk record, comparing each of them with
an encoding computed here independently (int.to_bytes, no struct), and then
serializes a corpus of projects/synths, parses every output with a small
independent chunk decoder and compares the bytes with recorded digests.
"""

import hashlib
import io
import struct
import sys
from pathlib import Path

import rv.api as rv
from rv.cmidmap import ControllerMidiMap, MidiMessageType, Slope
from rv.lib.iff import write_chunk
from rv.modules import MODULE_CLASSES
from rv.modules.module import Chunk as ModuleChunk
from rv.modules.module import Module

FAILURES = []


def check(cond, msg):
    if not cond:
        FAILURES.append(msg)


def u32(v):
    return int(v).to_bytes(4, "little", signed=False)


def i32(v):
    return int(v).to_bytes(4, "little", signed=True)


def u16(v):
    return int(v).to_bytes(2, "little", signed=False)


# ---------------------------------------------------------------- write_chunk


class Recorder:
    def __init__(self):
        self.parts = []

    def write(self, b):
        if not isinstance(b, (bytes, bytearray)):
            raise TypeError("bytes-like object required")
        self.parts.append(bytes(b))

    @property
    def value(self):
        return b"".join(self.parts)


def check_write_chunk():
    names = [b"", b"A", b"AB", b"ABC", b"ABCD", b"ABCDE", b"ABCDEFGH", b"BPM "]
    datas = [b"", b"\0", b"xyz", bytes(range(256)) * 3, bytearray(b"abc")]
    for name in names:
        for data in datas:
            for nm in (name, bytearray(name)):
                f = io.BytesIO()
                write_chunk(f, nm, data)
                want = bytes(name[:4]).ljust(4, b" ") + u32(len(data)) + bytes(data)
                check(f.getvalue() == want, f"write_chunk({nm!r}, len {len(data)})")
                r = Recorder()
                write_chunk(r, nm, data)
                check(r.value == want, f"write_chunk recorder {nm!r}")
    f = io.BytesIO()
    check(write_chunk(f, None, None) is None, "None name returns None")
    check(write_chunk(f, None, b"abc") is None, "None name returns None")
    check(f.getvalue() == b"", "None name writes nothing")
    # data without a length: TypeError before anything is written
    r = Recorder()
    try:
        write_chunk(r, b"CHDT", None)
    except TypeError:
        check(r.parts == [], "nothing written for data=None")
    else:
        check(False, "data=None must raise TypeError")
    # str ids are rejected with TypeError, whatever their length
    for bad in ("ABCD", "AB", "ABCDEF"):
        r = Recorder()
        try:
            write_chunk(r, bad, b"")
        except TypeError:
            check(r.parts == [], "nothing written for str id")
        else:
            check(False, f"str id {bad!r} must raise TypeError")
    # str payload: header is emitted, then the payload write fails
    r = Recorder()
    try:
        write_chunk(r, b"NAME", "text")
    except TypeError:
        check(r.value == b"NAME" + u32(4), "header written before bad payload")
    else:
        check(False, "str payload must raise TypeError")
    # object without write()
    try:
        write_chunk(object(), b"NAME", b"")
    except AttributeError:
        pass
    else:
        check(False, "object without write must raise AttributeError")


# ----------------------------------------------------------------------- Note


def note_bytes(note, vel, module, ctl, val):
    return bytes([int(note), int(vel)]) + u16(module) + u16(ctl) + u16(val)


NOTE_SAMPLES = [
    (0, 0, 0, 0, 0),
    (1, 1, 1, 1, 1),
    (120, 129, 0xFFFF, 0xFFFF, 0xFFFF),
    (128, 0, 2, 0x0100, 0x8000),
    (133, 64, 300, 0x1F, 0x7800),
    (140, 129, 0x0102, 0x0304, 0x0506),
    (61, 100, 7, 0x0605, 0x00FF),
]


def check_note():
    for fields in NOTE_SAMPLES:
        n = rv.Note(*fields)
        want = note_bytes(*fields)
        check(n.raw_data == want, f"Note{fields}.raw_data")
        check(len(n.raw_data) == 8, "note record is 8 bytes")
        m = rv.Note()
        m.raw_data = want
        got = (int(m.note), m.vel, m.module, m.ctl, m.val)
        check(got == fields, f"Note.raw_data setter {fields} -> {got}")
        check(m.note == fields[0], "note value stored")
        m.raw_data = bytearray(want)
        check(m.raw_data == want, "bytearray accepted")
    for bad in (b"", b"\0" * 7, b"\0" * 9, b"\0" * 16):
        m = rv.Note(5, 6, 7, 8, 9)
        try:
            m.raw_data = bad
        except struct.error:
            check(m.raw_data == note_bytes(5, 6, 7, 8, 9), "note untouched on error")
        else:
            check(False, f"Note.raw_data = {len(bad)} bytes must raise struct.error")
    n2 = rv.Note()
    n2.val = 0x10000  # attrs validators only run in __init__
    try:
        n2.raw_data
    except struct.error:
        pass
    else:
        check(False, "out of range val must raise struct.error on pack")
    # unknown note byte -> ValueError from the NOTECMD converter (on_setattr?)
    m = rv.Note()
    m.raw_data = bytes([200, 0, 0, 0, 0, 0, 0, 0])
    check(m.note == 200, "raw note value stored")


# -------------------------------------------------------------------- Pattern


def fill(pattern, seed=1):
    k = seed
    for line in pattern.data:
        for note in line:
            k = (k * 1103515245 + 12345) & 0x7FFFFFFF
            note.note = rv.NOTECMD((k >> 3) % 121)
            note.vel = (k >> 5) % 130
            note.module = (k >> 7) % 0x10000
            note.ctl = (k >> 9) % 0x10000
            note.val = (k >> 11) % 0x10000
    return pattern


def expected_pattern_chunks(p):
    raw = b"".join(
        note_bytes(n.note, n.vel, n.module, n.ctl, n.val)
        for line in p.data
        for n in line
    )
    out = [(b"PDTA", raw)]
    if p.name is not None:
        out.append((b"PNME", p.name.encode(rv.ENCODING) + b"\0"))
    out += [
        (b"PCHN", u32(p.tracks)),
        (b"PLIN", u32(p.lines)),
        (b"PYSZ", u32(p.y_size)),
        (b"PFLG", u32(p.flags_PFLG)),
        (b"PICO", p.icon),
        (b"PFGC", bytes(p.fg_color)),
        (b"PBGC", bytes(p.bg_color)),
        (b"PFFF", u32(p.flags_PFFF)),
        (b"PXXX", i32(p.x)),
        (b"PYYY", i32(p.y)),
    ]
    return out


def check_pattern():
    shapes = [(1, 1), (1, 32), (2, 3), (32, 4), (5, 1), (64, 16), (7, 32)]
    for seed, (lines, tracks) in enumerate(shapes, 3):
        p = fill(rv.Pattern(lines=lines, tracks=tracks), seed)
        raw = p.raw_data
        check(len(raw) == lines * tracks * 8, f"PDTA size {lines}x{tracks}")
        want = b"".join(
            note_bytes(n.note, n.vel, n.module, n.ctl, n.val)
            for line in p.data
            for n in line
        )
        check(raw == want, f"Pattern.raw_data {lines}x{tracks}")
        q = rv.Pattern(lines=lines, tracks=tracks)
        q.raw_data = raw
        check(q.raw_data == raw, f"Pattern.raw_data setter {lines}x{tracks}")
        for ln in range(lines):
            for tr in range(tracks):
                a, b = p.data[ln][tr], q.data[ln][tr]
                check(
                    (a.note, a.vel, a.module, a.ctl, a.val)
                    == (b.note, b.vel, b.module, b.ctl, b.val),
                    f"cell {ln},{tr} of {lines}x{tracks}",
                )
                check(b.pattern is q, "note keeps its pattern")
        # trailing bytes are ignored
        q2 = rv.Pattern(lines=lines, tracks=tracks)
        q2.raw_data = raw + b"\xff" * 11
        check(q2.raw_data == raw, "trailing data ignored")
        # bytearray source
        q3 = rv.Pattern(lines=lines, tracks=tracks)
        q3.raw_data = bytearray(raw)
        check(q3.raw_data == raw, "bytearray source")
        # short data: struct.error, cells before the cut are already assigned
        if lines * tracks > 1:
            cut = (lines * tracks // 2) * 8 + 3
            q4 = rv.Pattern(lines=lines, tracks=tracks)
            try:
                q4.raw_data = raw[:cut]
            except struct.error:
                flat = [n for line in q4.data for n in line]
                done = cut // 8
                got = b"".join(n.raw_data for n in flat[:done])
                check(got == raw[: done * 8], "cells before the cut assigned")
                rest = b"".join(n.raw_data for n in flat[done:])
                check(rest == b"\0" * len(rest), "cells after the cut untouched")
            else:
                check(False, "short PDTA must raise struct.error")
        q5 = rv.Pattern(lines=lines, tracks=tracks)
        try:
            q5.raw_data = b""
        except struct.error:
            pass
        else:
            check(False, "empty PDTA must raise struct.error")

    variants = [
        rv.Pattern(),
        rv.Pattern(name="intro", tracks=2, lines=3, x=-32, y=64),
        rv.Pattern(name="", tracks=1, lines=1, x=2**31 - 1, y=-(2**31)),
        rv.Pattern(
            name="xéy",
            tracks=3,
            lines=2,
            y_size=8,
            flags_PFLG=3,
            icon=bytes(range(32)),
            fg_color=(1, 2, 3),
            bg_color=(255, 0, 128),
            flags_PFFF=0x1A,
        ),
    ]
    for seed, p in enumerate(variants, 11):
        fill(p, seed)
        got = list(p.iff_chunks())
        check(got == expected_pattern_chunks(p), f"Pattern.iff_chunks {p.name!r}")
        check([k for k, _ in got][0] == b"PDTA", "PDTA first")
    # iff_chunks is lazy: attributes are read when the chunk is produced
    p = rv.Pattern(tracks=1, lines=1)
    it = p.iff_chunks()
    next(it)
    p.tracks = 1
    p.y = -5
    rest = dict(it)
    check(rest[b"PYYY"] == i32(-5), "lazy evaluation of later chunks")
    # errors keep their type
    for attr_name, value in [
        ("x", 2**31),
        ("flags_PFFF", -1),
        ("fg_color", (1, 2)),
        ("bg_color", (1, 2, 256)),
    ]:
        p = rv.Pattern(tracks=1, lines=1)
        setattr(p, attr_name, value)
        try:
            list(p.iff_chunks())
        except struct.error:
            pass
        else:
            check(False, f"Pattern {attr_name}={value!r} must raise struct.error")

    for src, flags, x, y in [(0, 1, 0, 0), (7, 0x1B, -4, 96), (2**32 - 1, 1, 1, -1)]:
        c = rv.PatternClone(source=src, flags_PFFF=flags, x=x, y=y)
        want = [
            (b"PPAR", u32(src)),
            (b"PFFF", u32(flags)),
            (b"PXXX", i32(x)),
            (b"PYYY", i32(y)),
        ]
        check(list(c.iff_chunks()) == want, f"PatternClone.iff_chunks {src}")
    c = rv.PatternClone(source=-1)
    try:
        list(c.iff_chunks())
    except struct.error:
        pass
    else:
        check(False, "negative PPAR must raise struct.error")


# ----------------------------------------------------------------------- CMID


def check_cmid():
    for mt in MidiMessageType:
        for sl in Slope:
            for ch, par in [(0, 0), (15, 127), (255, 0xFFFF), (3, 0x1234)]:
                m = ControllerMidiMap()
                m.message_type, m.slope, m.channel, m.message_parameter = mt, sl, ch, par
                want = (
                    bytes([mt.value, ch, sl.value, 0])
                    + u16(par)
                    + bytes([0, 0xFF if mt is MidiMessageType.unset else 0xC8])
                )
                check(m.cmid_data == want, f"cmid_data {mt} {sl} {ch} {par}")
                check(len(m.cmid_data) == 8, "8 binding bytes")
                m2 = ControllerMidiMap()
                m2.cmid_data = want
                check(
                    (m2.message_type, m2.slope, m2.channel, m2.message_parameter)
                    == (mt, sl, ch, par),
                    "cmid_data setter",
                )
    m = ControllerMidiMap()
    check(m.cmid_data == b"\0\0\0\0\0\0\0\xff", "default binding")
    # reserved bytes are ignored on load
    m.cmid_data = bytes([3, 2, 1, 0x55, 0x34, 0x12, 0x66, 0x77])
    check(m.cmid_data == bytes([3, 2, 1, 0, 0x34, 0x12, 0, 0xC8]), "reserved ignored")
    for bad in (b"", b"\0" * 7, b"\0" * 9):
        try:
            m.cmid_data = bad
        except struct.error:
            pass
        else:
            check(False, "wrong size binding must raise struct.error")
    before = m.cmid_data
    for bad in (bytes([9, 0, 0, 0, 0, 0, 0, 0]), bytes([1, 0, 6, 0, 0, 0, 0, 0])):
        try:
            m.cmid_data = bad
        except ValueError:
            pass
        else:
            check(False, "unknown enum value must raise ValueError")
    m = ControllerMidiMap()
    m.channel = 256
    try:
        m.cmid_data
    except struct.error:
        pass
    else:
        check(False, "channel 256 must raise struct.error")
    del before


# --------------------------------------------------------------------- Module


def expected_module_chunks(mod, in_project):
    out = [(b"SFFF", u32(mod.flags))]
    raw = mod.name.encode(rv.ENCODING)[:32]
    name = raw.decode(rv.ENCODING, "ignore").encode(rv.ENCODING)
    out.append((b"SNAM", name + b"\0" * (32 - len(name))))
    if mod.mtype is not None and mod.mtype != "Output":
        out.append((b"STYP", mod.mtype.encode(rv.ENCODING) + b"\0"))
    out.append((b"SFIN", i32(mod.mod_finetune)))
    out.append((b"SREL", i32(mod.mod_relative_note)))
    if in_project:
        out += [(b"SXXX", i32(mod.x)), (b"SYYY", i32(mod.y)), (b"SZZZ", i32(mod.layer))]
    out.append((b"SSCL", u32(mod.mod_scale)))
    if in_project:
        out.append((b"SVPR", u32(int(mod.visualization))))
    out.append((b"SCOL", bytes(mod.color)))
    out.append((b"SMII", u32(int(mod.midi_in_always) + (mod.midi_in_channel << 1))))
    if mod.midi_out_name:
        out.append((b"SMIN", mod.midi_out_name.encode(rv.ENCODING) + b"\0"))
    out += [
        (b"SMIC", u32(mod.midi_out_channel)),
        (b"SMIB", i32(mod.midi_out_bank)),
        (b"SMIP", i32(mod.midi_out_program)),
    ]
    return out


def expected_options_chunks(mod):
    bytemap = [0] * 64
    used = 0
    for option in mod.options.values():
        v = int(mod.option_values.get(option.name))
        v &= (2**option.size) - 1
        bytemap[option.byte] |= v << option.bit
        used = max(used, option.byte + 1)
    return [(b"CHNM", u32(mod.options_chnm)), (b"CHDT", bytes(bytemap[:used]))]


MODULE_KW = [
    {},
    dict(
        name="A name that is definitely longer than thirty-two bytes",
        x=-100,
        y=2000,
        layer=3,
        mod_scale=300,
        color=(1, 2, 3),
        midi_in_always=True,
        midi_in_channel=5,
        midi_out_name="dev",
        midi_out_channel=9,
        midi_out_bank=7,
        midi_out_program=100,
        finetune=-12,
        relative_note=4,
        visualization=0x0F1F0304,
    ),
    # multi-byte characters cut in the middle by the 32 byte limit
    dict(name="é" * 20 + "z", midi_out_name="", color=(0, 0, 0)),
    dict(name="a" + "世界" * 8, midi_in_channel=16),
    dict(name="", midi_out_name=None, midi_out_bank=-1, midi_out_program=-1),
    dict(name="x" * 32),
    dict(name="x" * 31 + "é"),
]


def check_module():
    base_err = None
    try:
        list(Module().iff_chunks())
    except RuntimeError as e:
        base_err = e
    check(base_err is not None, "base Module cannot be serialized")
    for mtype, cls in sorted(MODULE_CLASSES.items()):
        for kw in MODULE_KW:
            mod = cls(**kw)
            for in_project in (False, True, None):
                got = list(mod.iff_chunks(in_project=in_project))
                eff = bool(in_project) if in_project is not None else False
                want = expected_module_chunks(mod, eff)
                check(got == want, f"{mtype}.iff_chunks({in_project}) {kw.get('name')!r}")
                snam = dict(got)[b"SNAM"]
                check(len(snam) == 32, f"{mtype} SNAM is 32 bytes")
            if mod.options:
                # flip a few options so that the byte map is not all defaults
                for i, (oname, option) in enumerate(sorted(mod.options.items())):
                    if option.size == 1 and i % 2 == 0:
                        mod.option_values[oname] = not mod.option_values[oname]
                    elif option.size > 1:
                        mod.option_values[oname] = (1 << option.size) - 1 - (i % 2)
                got = list(mod.options_chunks())
                check(got == expected_options_chunks(mod), f"{mtype}.options_chunks")
                if type(mod).specialized_iff_chunks is Module.specialized_iff_chunks:
                    check(
                        list(mod.specialized_iff_chunks()) == got,
                        f"{mtype}.specialized_iff_chunks == options_chunks",
                    )
            elif type(mod).specialized_iff_chunks is Module.specialized_iff_chunks:
                check(
                    list(mod.specialized_iff_chunks()) == [(None, None)],
                    f"{mtype} placeholder chunk",
                )
    # attached to a project: in_project defaults to True
    proj = rv.Project()
    amp = proj.new_module(rv.m.Amplifier, name="amp", x=1, y=2, layer=1)
    check(
        list(amp.iff_chunks()) == expected_module_chunks(amp, True),
        "in_project defaults from parent",
    )
    check(
        list(proj.output.iff_chunks()) == expected_module_chunks(proj.output, True),
        "Output has no STYP",
    )
    check(b"STYP" not in dict(proj.output.iff_chunks()), "Output has no STYP")
    # error types
    amp2 = rv.m.Amplifier()
    amp2.mod_scale = -1
    try:
        list(amp2.iff_chunks())
    except struct.error:
        pass
    else:
        check(False, "negative scale must raise struct.error")
    amp3 = rv.m.Amplifier(color=(1, 2))
    try:
        list(amp3.iff_chunks())
    except struct.error:
        pass
    else:
        check(False, "2-tuple colour must raise struct.error")
    # option value missing -> TypeError (None & mask)
    ms = rv.m.MultiSynth()
    ms.option_values.pop(next(iter(ms.options)))
    try:
        list(ms.options_chunks())
    except TypeError:
        pass
    else:
        check(False, "missing option value must raise TypeError")
    # oversized option value is masked, not an error
    ms = rv.m.MultiSynth()
    for oname, option in ms.options.items():
        ms.option_values[oname] = 0xFFFF
    check(list(ms.options_chunks()) == expected_options_chunks(ms), "masked options")

    for chnm, chdt, chff, chfr in [
        (0, b"", 0, 44100),
        (5, b"abc", None, None),
        (0x10A, bytes(300), 9, None),
        (2**32 - 1, b"\0", None, 8000),
    ]:
        c = ModuleChunk()
        c.chnm, c.chdt, c.chff, c.chfr = chnm, chdt, chff, chfr
        want = [(b"CHNM", u32(chnm)), (b"CHDT", chdt)]
        if chff is not None:
            want.append((b"CHFF", u32(chff)))
        if chfr is not None:
            want.append((b"CHFR", u32(chfr)))
        check(list(c.chunks()) == want, f"module Chunk {chnm}")
    c = ModuleChunk()
    try:
        list(c.chunks())
    except struct.error:
        pass
    else:
        check(False, "chnm None must raise struct.error")


# ---------------------------------------------------- independent decoder


def decode(blob):
    """Parse a chunk stream; must consume every byte."""
    pos, out = 0, []
    while pos < len(blob):
        assert pos + 8 <= len(blob), "truncated chunk header"
        cid = blob[pos : pos + 4]
        size = int.from_bytes(blob[pos + 4 : pos + 8], "little")
        pos += 8
        assert pos + size <= len(blob), "truncated chunk payload"
        out.append((cid, blob[pos : pos + size]))
        pos += size
    assert pos == len(blob)
    return out


def verify_stream(blob, label):
    chunks = decode(blob)
    check(chunks[0][0] in (b"SVOX", b"SSYN") and chunks[0][1] == b"", f"{label}: magic")
    is_project = chunks[0][0] == b"SVOX"
    pat = {}
    mod = None
    chnk = None
    for cid, data in chunks[1:]:
        if cid == b"PDTA":
            pat = {"PDTA": data}
        elif cid in (b"PCHN", b"PLIN"):
            pat[cid.decode()] = int.from_bytes(data, "little")
            check(len(data) == 4, f"{label}: {cid} width")
        elif cid == b"PEND":
            if "PDTA" in pat:
                check(
                    len(pat["PDTA"]) == pat["PCHN"] * pat["PLIN"] * 8,
                    f"{label}: PDTA is lines x tracks x 8",
                )
            pat = {}
        elif cid == b"SFFF":
            mod = {"cval": 0, "cmid": None}
            chnk = None
        elif cid == b"SNAM":
            check(len(data) == 32, f"{label}: SNAM is 32 bytes")
        elif cid == b"CVAL":
            check(len(data) == 4, f"{label}: CVAL width")
            mod["cval"] += 1
        elif cid == b"CMID":
            mod["cmid"] = data
        elif cid == b"CHNK":
            chnk = int.from_bytes(data, "little")
        elif cid == b"CHNM":
            num = int.from_bytes(data, "little")
            check(chnk is not None and num < chnk, f"{label}: CHNM {num:#x} < CHNK")
        elif cid == b"CHDT" and data[:4] in (b"SVOX", b"SSYN"):
            verify_stream(data, label + "/embedded")
        elif cid == b"SEND":
            if mod is not None:
                if mod["cmid"] is not None:
                    check(
                        len(mod["cmid"]) == 8 * mod["cval"],
                        f"{label}: 8 binding bytes per controller value",
                    )
                else:
                    check(mod["cval"] == 0, f"{label}: CMID present with CVALs")
            mod = None
    check(chunks[-1][0] == b"SEND", f"{label}: ends with SEND")
    if is_project:
        check(pat == {}, f"{label}: every pattern slot closed by PEND")
    return chunks


# ------------------------------------------------------------------- corpus


def build_corpus():
    corpus = {}
    root = Path("tests/files")
    for path in sorted(root.rglob("*.sun*")):
        with path.open("rb") as f:
            obj = rv.read_sunvox_file(f)
        corpus["file:" + path.relative_to(root).as_posix()] = obj.read()

    for mtype, cls in sorted(MODULE_CLASSES.items()):
        if mtype == "Output":
            continue
        corpus["synth:" + mtype] = rv.Synth(cls()).read()
        corpus["synth-kw:" + mtype] = rv.Synth(cls(**MODULE_KW[1])).read()

    p = rv.Project()
    p.name = "Corpus é"
    p.initial_bpm = 140
    p.modules_x_offset = -77
    p.timeline_position = 12
    p.restart_position = -3
    p.receive_sync_other = 5
    mods = []
    for i, (mtype, cls) in enumerate(sorted(MODULE_CLASSES.items())):
        if mtype == "Output":
            continue
        kw = dict(MODULE_KW[i % len(MODULE_KW)])
        kw.update(x=10 * i, y=-5 * i)
        mods.append(p.new_module(cls, **kw))
    for a, b in zip(mods, mods[1:]):
        a >> b
    mods[-1] >> p.output
    mods[0] >> p.output
    mods[3] >> mods[1]
    p.connect(~mods[0], mods[1])
    p.attach_module(None)
    mods[2].controller_midi_maps[next(iter(mods[2].controllers))].cmid_data = bytes(
        [3, 1, 2, 0, 7, 0, 0, 0]
    )
    for seed, (lines, tracks) in enumerate([(4, 2), (32, 4), (1, 1), (16, 32)], 21):
        p.attach_pattern(fill(rv.Pattern(lines=lines, tracks=tracks, x=seed, y=-seed), seed))
    p.attach_pattern(None)
    p.attach_pattern(rv.PatternClone(source=1, x=64, y=32))
    p.attach_pattern(rv.Pattern(name="named", lines=3, tracks=3, fg_color=(9, 8, 7)))
    corpus["project:all-modules"] = p.read()

    mm = rv.m.MetaModule(name="meta")
    inner = mm.project
    g = inner.new_module(rv.m.Generator)
    g >> inner.output
    inner.attach_pattern(fill(rv.Pattern(lines=2, tracks=2), 5))
    mm.user_defined_controllers = 2
    mm.mappings.values[0].module, mm.mappings.values[0].controller = g.index, 0
    mm.mappings.values[1].module, mm.mappings.values[1].controller = g.index, 2
    mm.user_defined[0].label = "Vol"
    mm.user_defined[1].label = "Pan é"
    corpus["synth:metamodule-mapped"] = rv.Synth(mm).read()
    outer = rv.Project()
    outer.attach_module(mm)
    mm >> outer.output
    corpus["project:metamodule"] = outer.read()

    s = rv.m.Sampler(name="smp")
    for slot, (fmt, ch, n) in enumerate(
        [
            (rv.m.Sampler.Format.int8, rv.m.Sampler.Channels.mono, 16),
            (rv.m.Sampler.Format.int16, rv.m.Sampler.Channels.stereo, 32),
            (rv.m.Sampler.Format.float32, rv.m.Sampler.Channels.stereo, 64),
        ]
    ):
        smp = s.Sample()
        smp.format, smp.channels = fmt, ch
        smp.data = bytes((i * 7 + slot) & 0xFF for i in range(n))
        smp.loop_start, smp.loop_len, smp.rate = slot, n // 8, 22050 * (slot + 1)
        smp.name = b"s%d" % slot
        s.samples[slot * 3] = smp
    s.volume_envelope.points.append((0x200, 0x1000))
    s.effect = rv.Synth(rv.m.Echo())
    corpus["synth:sampler-samples"] = rv.Synth(s).read()
    return corpus


GOLDEN = {
    # GOLDEN-BEGIN
    "file:amplifier.sunsynth": "419f5717e558efbc145eafac3343bdf2d35c15e315096084645b2d1a33a6287f",
    "file:analog-generator.sunsynth": "76ce674ef1db6717af60bca262c48e2ae32ec83a7636dccb853bc1ad85227188",
    "file:compressor.sunsynth": "7e4fa89c60186b9a11f55e88daeb6b5d2bac23323ca45ee82f245f052a5f553a",
    "file:dc-blocker.sunsynth": "1312bb3c1626a845ea4227ba12efa0f311059f1fbb6ab3bfbd1ee98843fc8389",
    "file:delay.sunsynth": "32ee6c78f799b00c67608a7e318eb790d8d380f1368cbf2170a804ed43bf2701",
    "file:distortion.sunsynth": "e9b59951b8753b41f51c8c4fd81b0277d157e96ebcd7c22862a9b19b3a21c7c2",
    "file:drum-synth.sunsynth": "6d8ad0364d91a386d19b24cf6aac3e52ce1123beb5afa13f12e918675b14a330",
    "file:echo.sunsynth": "a51866593f018ff999a6757dea5cebf5abc6b35964f3c933afa6a5af91c2d1ae",
    "file:empty.sunvox": "0b58f6338b84cd2a3802ae4d4498957e41279625a5de1be6d0a06cbcba69d362",
    "file:eq.sunsynth": "c6e8877e93f69f7fbaa3db881782d717aaf87f2184bd1da507a877cf1426428f",
    "file:feedback.sunsynth": "09a1d368f8d9743977592b9070f4767440720ff0c8a599f1f1723a6691648e62",
    "file:fft.sunsynth": "a532a1e449a579c5fa56fcddf849dcb0ce32022dc019781a6139530a435e84c4",
    "file:filter-pro.sunsynth": "87b217d025f588bb700155518020aa2579a2938edd6ed9a28b8ee57622439e78",
    "file:filter.sunsynth": "ccf4f2af334e7d85df9803397477e097fd2d69fc8a830015b515cc84da59bbcb",
    "file:flanger.sunsynth": "658f4783cc9c248ebe9f31e3b65a0d34a97fbae3ec7358b87a4b0c46cc2d8544",
    "file:fmx.sunsynth": "d2b0427af5abec18927f4138664f41c293a8ee7b143802efbea3f76275b8d364",
    "file:generator.sunsynth": "16aefebfbfb606f8c608f0afc7288b9d3b1925389cb52f43a9bc1227465a9a8b",
    "file:glide.sunsynth": "765d995ffed7b9491e2c97758fca4e459ed7d39c14b351bfff0ccf47726816dc",
    "file:gpio.sunsynth": "15c3990e39ba8c2d0b6f5ecd8d5da5d0e9714f2d675ce4bd040658257c08f0b3",
    "file:input.sunsynth": "025ed41f84a149cb59b48ef6bc4efb31fe36af6383bbe9397ca83be9a0f40967",
    "file:issue109/filter_lfo.sunvox": "7c07bab808ce3d271b3487c168f306806aa4cc6fbd6d311d1dd5fc4dfa6c5186",
    "file:issue41/sample.sunvox": "31504b7ddfd906224ba3855da45df53d8c0c7e08a652e0979fa629fe578259ad",
    "file:issue54/test1.sunvox": "915266c46c96537b1ad7473ccf800be6bc4bf06024664c3862b97cb13cb3f38b",
    "file:kicker.sunsynth": "33abb29c4834873a1df6cdaa6f888dd53bdeb8bcfeb1397168d1a49d5945383a",
    "file:lfo.sunsynth": "efa89196cf44067f36c946f4a558b6d1614affdc3f7af5ec72e2293a34dec9e6",
    "file:loop.sunsynth": "57eca85729cb1af475e5c57d2cb92872e462df01b2b4a92517f19f8e2617f35d",
    "file:metamodule-option-78.sunsynth": "76bf484725a761c100dc6c67f19bcdbf4ce8bf2c17b54729ae61641755f87383",
    "file:metamodule-option-79.sunsynth": "8d8a050747174fd9f658a8b2acf5f67536839f214be62974bb16473150b0dc67",
    "file:metamodule-option-7a.sunsynth": "36db7cdd1df60d034c827704d21b4449d0c82c082882bb122a291c788692c586",
    "file:metamodule.sunsynth": "55f5fd0bfba897453b071068bb34950f29667e951e5553cfba958d9cd2cf5f2c",
    "file:modulator.sunsynth": "22d3e9b37c36f8818d83036c33631c945ab62376447cf807be439354a787fd41",
    "file:module-multiselect.sunvox": "8fa3a4e0ed3b0d49c42947823b271d6c73563a18e471d5ef68a4f8326c196d35",
    "file:multictl.sunsynth": "66b009f3228bb000bd08f11fb27cd069d41206978fcb90f95d1dddb22a0ca699",
    "file:multisynth-random-off.sunsynth": "b4ccf1b6f4e1ed62c7ebf9664f9d1c061c8a2477b29e423b1bfe4b176b73c1b7",
    "file:multisynth-random1.sunsynth": "a19a3f40a8bd840e62b0b5259b46667adb93fd7a687706e603b4466e7cc2ab1f",
    "file:multisynth-random2.sunsynth": "98bf489a0febc83d29b915118afc88bcd2cd25b45773c7f7d0a99adba0cf14f0",
    "file:multisynth-random3.sunsynth": "b7fbddfa4ed104bfe889dc1d26cd01874ac5fc3ce10348fafe9ea891b4697964",
    "file:multisynth.sunsynth": "87df69077399b6112a3e3ed7adcb70ef406f593cfa546e8ad5310c89b347b125",
    "file:pitch-shifter.sunsynth": "4c58b5705344a08e159e52737b3aa4c90e8e7cb3c4089d4d817ac763ffd2069a",
    "file:pitch2ctl.sunsynth": "73252da465dfcc2f5993dc791c31052078656f5fccb6338f4a868ca3b46019ac",
    "file:reverb.sunsynth": "90db4c635458e8fe34ef4ba42321ea0df8ba4273fc15413608f0a8938e19bc54",
    "file:sampler.sunsynth": "3b0f2915c2ec0456c0932e701153dc1fe981399cffe9631e080af6bc8b9736a0",
    "file:single-fm.sunvox": "ca3eb0ed7d25ba31f4e96888699bf1006de9b262c460da5671fca92f5cfa12c3",
    "file:smooth.sunsynth": "673c38cfc74b338e6936d75c9292d2f2e6e735c6bf4921cb9c65afa7e2aaa7a6",
    "file:sound2ctl.sunsynth": "fd4a139c6dc96ebf2eecbaea691f7f39f218c278fe8286f28fb5ec5462429b24",
    "file:spectravoice.sunsynth": "112111c76bcab011dcf9c0396628ecb1e27d6f0241430855793ffe54d423f1af",
    "file:supertracks.sunvox": "1a4f41f039f94d444739fff95eaf10d53a94d0d0dd44e85d154f02043dc61de2",
    "file:velocity2ctl.sunsynth": "5fe6662a1ac4bc70daa3ed2531f12cb06c93da5080a5d77c23488d6fd72f6ca6",
    "file:vibrato.sunsynth": "274b70fa0e6cf0ab0d3b04b710e8e3a36c74b90c0581420abcd9e545d6c5f660",
    "file:vocal-filter.sunsynth": "f62bcc37659869aaa0bd842d6ccadbe08de52c7614c3216ddfe77d44da54ffdd",
    "file:vorbis-player.sunsynth": "f18896c9f30ee44ad1a83493693bbea98efece662aed18942d6044b3ee9a60ac",
    "file:waveshaper.sunsynth": "a4d25d2c53431359abb5c05e50c80389578a5a39f5fd6076116a02a6db1b1a00",
    "synth:ADSR": "1b3b645f5435a83fcd9951abe4b67184a70c36739474449f32a1a9670a190578",
    "synth-kw:ADSR": "a8a568f785e209461361808826ccb70c24e61a4dfac220c495a46e5fe94ccbcb",
    "synth:Amplifier": "a82b67440909469045f9eb962d801d757ee6a1985dc839317405eefa0519f6d9",
    "synth-kw:Amplifier": "3dbe5aa0a78b3adff0d8f1be2bf8a048956db88a744ce46ea2a301e75bc4cdc7",
    "synth:Analog generator": "4e945946da60253c3bf66f2fe678f86183c5ff99167c114dfb26d7c467739850",
    "synth-kw:Analog generator": "8370130c613f544dc4963003c3ee4371f18e8d45aa7190122da8de90ce923820",
    "synth:Compressor": "827c37689c933bd0d5319b9cc1a7a8d3894dca6986a030c1cc7c8fd156faa02f",
    "synth-kw:Compressor": "bdae545e727f742f34100105325e3ae795048609897c1aa790bc294dd738b04f",
    "synth:Ctl2Note": "18e51f6894b194267a530ba14ed12d771876fb8234b63d34e13638eb1b067788",
    "synth-kw:Ctl2Note": "868ca268874d80356fbd0d7e250a0855c84bf7ffb3181dc4d536cc55522a5194",
    "synth:DC Blocker": "bef64d4a72e57df0d19cedbeae7fca2ea50c876220b0dfac98d998ee1da8ba68",
    "synth-kw:DC Blocker": "fb16ae68a5069eedb4b95e430cea8ccd8c0f46c56e8970e89697fb286067c4a1",
    "synth:Delay": "9a5599b6883d171322b6138317f9357433680a188f182a49153fe38a2021c405",
    "synth-kw:Delay": "71b65bae33dbf5fac1fcb8e3dfa0f7dbba45d3aa318e40894c53a0b01034684c",
    "synth:Distortion": "600f1d0ce8ebfad3bd422a987fc515b6d1f7baa6530dedf3de4478c4dc483446",
    "synth-kw:Distortion": "04d4ea609e5430adf77e1fe8052f31814f7e57f4cb13a33a70155d4d33193bfd",
    "synth:DrumSynth": "4e2a7484cbd34df21e589ac9f198a556406d2355840e434948b49aea50dbe791",
    "synth-kw:DrumSynth": "6b1f4cedf53d2db65219c9c56e7e4b064b6163ea657b546be272910e317a0b74",
    "synth:EQ": "0b7a6c926d7ca8379912bfe6325e1445c3d0732025f6751bd1b61b6a002ca25e",
    "synth-kw:EQ": "97667f0c72c13fb238cc0d69a18f27bcede1428c3aabbfaeff6050f832603416",
    "synth:Echo": "93015698fbbbad014a4b0d2586748178b1cc2cc3fd2041526862c073791db950",
    "synth-kw:Echo": "bd3eb36a4201ef51a9d1aa9962f161bd2ebc4eb03f5cf2ed2bdbd9d1a6cc3462",
    "synth:FFT": "7a04b190423a0ac9430ba3cd3c27bd72f235a45c2fff80042fedc827670ef414",
    "synth-kw:FFT": "0f2d5b14a20912bac87afafac115bd99cba32ab4ee8402cd692dc4c04753a81e",
    "synth:FM": "3a22416b72efa22a5d595aa41d843a47b04e7885d5bf9c53ea8e2f0650aa0eab",
    "synth-kw:FM": "7a052eceeaf517e27c80d09e240ac6d2c7b6649da4b94138a28e203a21856107",
    "synth:FMX": "3eb51b3667ad622167642c183e995b2241b25fd43bde8a081aa1392189f1a2dc",
    "synth-kw:FMX": "a615883e7f2091b2281a6edf9476d78044d3c3cb09ce329b6c57d0ef3837e926",
    "synth:Feedback": "f4064e3c4244069b37b6da811538d79245882a58503eed9fe2ba201f0ab176b7",
    "synth-kw:Feedback": "174b6a64b74be7819dbc6cdff1d8cc65eea09d8600c729d72a00aeceb43fcf8f",
    "synth:Filter": "4248ce2bb28da3f7187b60774daa292a505ca44555985142d5285bc2e89127b7",
    "synth-kw:Filter": "e07b5ef8d32b00ce0031a6b1baba916080da5b0a4f9e6ef2c3513113d7d388c1",
    "synth:Filter Pro": "9ffe3426097ee40b082e116f05c3dc2f9e18ab2ef0d9a6d2f0886bd4111e0e61",
    "synth-kw:Filter Pro": "3d0822d5cc25689ea6e0bd307f79894709dec3eccb5febf69bc260c342e7f100",
    "synth:Flanger": "492115489c33ab05c3310b3fb788ceba8f9017ec9b89313151c840bae5173b9d",
    "synth-kw:Flanger": "1e2b2a7a146d8a60311dd1fdb25157a6bcd029a08841cff4084582956fdf0149",
    "synth:GPIO": "d72f4b49539630dc0059cb6a22edee97898248daae2007d813c6a4834e89322c",
    "synth-kw:GPIO": "8d6e8f7b02c705114fb4fd774e9c145db6e1d5bdd6130f7a1cf7bc6532f76b2f",
    "synth:Generator": "29b07081976df45b68b61b88d0a7eb5ee02e394ae8ef965389ab35efd1b19541",
    "synth-kw:Generator": "f046245f08e5b4267a575438e54932386f155a705ef3d7c853af03674ab5ae95",
    "synth:Glide": "a07b02cf584eee569edeb63de96ed035d4c83af4c5d8b97d0dd16c3685002f16",
    "synth-kw:Glide": "6a299db16a873bf7835a675fd2ef687dabcdf71cccc961bb18ad4ae148966a13",
    "synth:Input": "5b8544399d18a2e0352984ec1b8bc77e9dcd5a0b469f6734b5fa14c0d3763313",
    "synth-kw:Input": "e9caa8b45a58a7fa3091795dab7344a1004507d9d45909e1f7aadaa3dcfae421",
    "synth:Kicker": "9b277d344f2097ccb480d67127d9ac781717c9df13b3c2b15697ebeb5f0d98b3",
    "synth-kw:Kicker": "6ea2fdadc3c840d3527bf87f863e50fd1ec9bfe14dcc9dbdacce6e7209ef7162",
    "synth:LFO": "fe4dccdc770853093ea6be236ed8432b1f54dd6f6db949ecfb3cc8a7364831a1",
    "synth-kw:LFO": "8c67a0a2f88a19029ac0eb981ad189e0711862149bfb870464c4d0f63d5f0324",
    "synth:Loop": "2f8b6071edc1f0b27423e082d6281fadd6a2e110e2cba0b7715e8a5b2e46bf4f",
    "synth-kw:Loop": "fb5f63ead0863f7af321aaa769bdd3a98e6f7b6ff0e40b1a77096656816a028a",
    "synth:MetaModule": "5db044749e2b1bb0a49f0007da12bbfa468948c2b76e8346887f5f9f81a54c16",
    "synth-kw:MetaModule": "9449974413ba13cb9dfe5afe21ae3b9d1fce0fa46dbf6098196c7538c79c8b50",
    "synth:Modulator": "9a5a32cc5999ea363ebdfc1b0e48a92cd56a2c5792f1313f8b2bfa095a1d184a",
    "synth-kw:Modulator": "16f679177bcb72013194e655b29f31b8d9171e4220c17b27f6b4a0bb6a34c907",
    "synth:MultiCtl": "f5eaa24af7b072294fb328181fe8ea1610330a40f0cfda80103ae675f923e87d",
    "synth-kw:MultiCtl": "0ead63c3a33da4512636cd80044f03238fc3d9efcc4ec37a2d95172eb86465e0",
    "synth:MultiSynth": "0e07abfdde388212410d38351b44536fe92ccf7b456ad9e274799bb64856c3d4",
    "synth-kw:MultiSynth": "2cdb3f2247d149937726bad10db8c60cd69abdb348af5b5a8a079eaa1be438ef",
    "synth:Pitch Detector": "ccd462503fa985fc9cfed498e6705eca452459662a9ce5644d08f7a8cccbfb98",
    "synth-kw:Pitch Detector": "fdb73d58d44b4128f342624a6bc6193ac394af141b2887227c9af5310e42fefb",
    "synth:Pitch shifter": "3b35357d7ee87b0306a1995691f0675a23359458dd763651604c3bca7286deb8",
    "synth-kw:Pitch shifter": "e47f7540656dc925536195d0fbeb4114f887e23ab73df0bc01ac0ad768c4d898",
    "synth:Pitch2Ctl": "210e5a847b10e585c309344a0236657d14d20742e005eee9ec3299307846ad6e",
    "synth-kw:Pitch2Ctl": "9f1770b7c3ffaed18b0a4d32a820635596c010408caa65f274441d78990a527a",
    "synth:Reverb": "5bde254b6519fdfe0d9dfc5fece22f06e9ca595653a0f97b2e9305b6ae48c4f3",
    "synth-kw:Reverb": "bcad4c6441dfafd2296cb5faa6a984f0b37f2d69bb7908b34ca0926e1cefc7ce",
    "synth:Sampler": "c665ea9372f6fad33025e98226fec67d4f928acad9d40a7a0fa087e2e9016d17",
    "synth-kw:Sampler": "cb3943fdd7a3df3df1c461813db232080671812924c28fe364a0650e1648c638",
    "synth:Smooth": "0fb36ec4d552f84a3df0b5f328475d4605400d925961b2c7b3bdf4060656f844",
    "synth-kw:Smooth": "84611ace5b43a4322c1dd344b447ca6c2b113bb157c54ed822a3f260b7593885",
    "synth:Sound2Ctl": "3b9ca827c2cc84a4a02ec76a35f3bcb0f756d6ecbb0b9cee4f17161869540b13",
    "synth-kw:Sound2Ctl": "c60d5919d6565a5ae09ba01dd91f69ebc1f5a7792775d4a6ab9ebc309abe7551",
    "synth:SpectraVoice": "09cc4542f66ff31493fc520e3412d17e0ef3b850a14ba31ee355942cd9604f23",
    "synth-kw:SpectraVoice": "35dac3f724b8bf5c6c88120c3a3d43ce4726bdf5398d4a6f994bedb4eead55d9",
    "synth:Velocity2Ctl": "415dde76f688941f1931489fbc32dd4b958829209b834d272770f4b88328c1ca",
    "synth-kw:Velocity2Ctl": "b9be3c6eff5ca8ecda040b93496f3400ffc8611fb8146c76ced46e479297d60a",
    "synth:Vibrato": "31acbc1f942264cc70ce8c380618ced8aca91d34521d360d71b6106bcfa80e90",
    "synth-kw:Vibrato": "cdff27a0f036d770e07b3ed95f2aee96abfa159c0ccf445f6ca5948682914c63",
    "synth:Vocal filter": "b71898aba0fef0a283b24ff127932376e99c636811fbc9eb05f4273b761ad8c7",
    "synth-kw:Vocal filter": "7a243bb2af517a525b785d0cea4b82ea5b1a7ee98f36607f61a09067eaf5c7fa",
    "synth:Vorbis player": "9a4735868b1e1c0ff655eae8f2ca697a5b8e6769e1511ff6a3fcbb1191aea418",
    "synth-kw:Vorbis player": "191c24a8f3bcadff532cb0c4024a1c5f0af98037018543ff8ed3d1fe864346d1",
    "synth:WaveShaper": "adfbbe8dfb07dac4b248739990b9e32269fab9e61a840925fc696c18cca0b99a",
    "synth-kw:WaveShaper": "ee80fd157a34027a41b76fd10d77493ba5e3d6d1b47eb5f5310319783cfbc77b",
    "project:all-modules": "b6882a9a4671ce2429030d0e330ee65b7d2cfd1142436dccde0f73904cc4e0c7",
    "synth:metamodule-mapped": "bcdbe2d3f75c6f979defde1751cb947e6fbd13abd53109e13f2c8dd0959ea2ca",
    "project:metamodule": "4e1534118d058bd45615d48f63df3a414a2dfaf6d4bcde20f04de69e2178bbfd",
    "synth:sampler-samples": "f31ffc6fad45db7d961d571113f756dcefe4a7fa0c334ce466ef7a4d47c864b8",
    # GOLDEN-END
}


def check_corpus():
    corpus = build_corpus()
    again = build_corpus()
    if "--print-golden" in sys.argv:
        for label, blob in corpus.items():
            print(f'    "{label}": "{hashlib.sha256(blob).hexdigest()}",')
        return
    check(set(corpus) == set(GOLDEN), "corpus labels match recorded digests")
    for label, blob in corpus.items():
        check(blob == again[label], f"{label}: deterministic output")
        verify_stream(blob, label)
        digest = hashlib.sha256(blob).hexdigest()
        check(GOLDEN.get(label) == digest, f"{label}: bytes differ from recorded digest")
        # the library's own reader agrees as well, and rewriting is stable
        obj = rv.read_sunvox_file(io.BytesIO(blob))
        if not label.startswith("project:all-modules"):
            check(obj.read() == blob, f"{label}: write/read/write is stable")


def main():
    check_write_chunk()
    check_note()
    check_pattern()
    check_cmid()
    check_module()
    check_corpus()
    if FAILURES:
        for msg in FAILURES[:40]:
            print("FAIL:", msg)
        print(f"{len(FAILURES)} failure(s)")
        sys.exit(1)
    print("PASS")


if __name__ == "__main__":
    main()
