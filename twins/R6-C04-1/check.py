import hashlib
import io
import logging
import os
import struct
import sys
import tempfile
from enum import Enum
from pathlib import Path

import rv.api
from rv.readers.reader import read_sunvox_file

ROOT = Path(os.getcwd())
FILES = ROOT / "tests" / "files"
FAILURES = []
N_FIXTURES = 52
logging.getLogger("rv").addHandler(logging.NullHandler())


def check(cond, msg):
    if not cond:
        FAILURES.append(msg)
        print("FAIL:", msg)


# ---------------------------------------------------------------- byte level
def split(raw):
    """Independent flat chunk splitter: [(id, payload), ...]."""
    out, pos = [], 0
    while pos + 8 <= len(raw):
        cid = raw[pos : pos + 4]
        (size,) = struct.unpack_from("<I", raw, pos + 4)
        out.append((cid, raw[pos + 8 : pos + 8 + size]))
        pos += 8 + size
    return out


def join(chunks):
    return b"".join(c + struct.pack("<I", len(d)) + d for c, d in chunks)


# ---------------------------------------------------------------- snapshot
def snap(obj, seen=None, depth=0):
    seen = set() if seen is None else seen
    if obj is None or isinstance(obj, (bool, int, float, str)):
        return obj
    if isinstance(obj, (bytes, bytearray)):
        return ("bytes", hashlib.sha1(bytes(obj)).hexdigest(), len(obj))
    if isinstance(obj, Enum):
        return ("enum", type(obj).__name__, obj.name)
    if isinstance(obj, (list, tuple)):
        return (type(obj).__name__, [snap(x, seen, depth + 1) for x in obj])
    if isinstance(obj, (set, frozenset)):
        return ("set", sorted(repr(snap(x, seen, depth + 1)) for x in obj))
    if isinstance(obj, dict):
        return (
            "dict",
            sorted(
                (repr(snap(k, seen, depth + 1)), snap(v, seen, depth + 1))
                for k, v in obj.items()
            ),
        )
    tname = type(obj).__name__
    if type(obj).__module__.startswith("numpy"):
        return ("numpy", tname, snap(obj.tolist(), seen, depth + 1))
    if id(obj) in seen:
        return ("ref", tname, getattr(obj, "index", None))
    if depth > 12:
        return ("deep", tname)
    seen.add(id(obj))
    try:
        d = vars(obj)
    except TypeError:
        d = {s: getattr(obj, s, None) for s in getattr(type(obj), "__slots__", ())}
    items = []
    for extra in ("name", "mtype", "visualization", "chnk", "data", "source"):
        if extra not in d and hasattr(obj, extra):
            try:
                items.append((extra, snap(getattr(obj, extra), seen, depth + 1)))
            except Exception as e:  # noqa
                items.append((extra, "EXC:" + type(e).__name__))
    for k in sorted(d):
        if k.startswith("_") and k != "_reader_chnk":
            continue
        items.append((k, snap(d[k], seen, depth + 1)))
    seen.discard(id(obj))
    return ("obj", tname, items)


def load(raw):
    return read_sunvox_file(io.BytesIO(raw))


def digest(raw):
    return hashlib.sha256(repr(snap(load(raw))).encode()).hexdigest()


def outcome(raw):
    """Digest of the loaded object, or the exception type name."""
    try:
        return digest(raw)
    except Exception as e:  # noqa
        return "EXC:" + type(e).__name__


def fixtures():
    return sorted(p for p in FILES.rglob("*") if p.suffix in (".sunvox", ".sunsynth"))


class Capture(logging.Handler):
    def __init__(self):
        super().__init__(level=logging.DEBUG)
        self.records = []

    def emit(self, record):
        self.records.append((record.name, record.levelname, record.getMessage()))


def captured(raw, level=logging.DEBUG):
    """(outcome, log records) for loading raw with logging captured on 'rv'."""
    logger = logging.getLogger("rv")
    h = Capture()
    old = logger.level
    logger.addHandler(h)
    logger.setLevel(level)
    try:
        res = outcome(raw)
    finally:
        logger.removeHandler(h)
        logger.setLevel(old)
    return res, h.records


# ---------------------------------------------------------------- generic suite
UNKNOWN = (b"ZzQ9", b"\x01\x02\x03\x04\x05")
HEADER_IDS = {
    b"VERS", b"BVER", b"FLGS", b"SFGS", b"BPM ", b"SPED", b"TGRD", b"TGD2",
    b"GVOL", b"NAME", b"MSCL", b"MZOO", b"MXOF", b"MYOF", b"LMSK", b"CURL",
    b"TIME", b"REPS", b"SELS", b"LGEN", b"PATN", b"PATT", b"PATL",
}
STRUCTURAL = {b"SVOX", b"SSYN", b"SFFF", b"SEND", b"PDTA", b"PEND", b"PPAR",
              b"STYP", b"CHNM", b"PCHN", b"PLIN"}


def generic_suite():
    """Return {section: sha256} over outcomes of all structure-preserving edits."""
    agg = {k: hashlib.sha256() for k in ("base", "drop", "cval", "swap")}
    for p in fixtures():
        raw = p.read_bytes()
        ch = split(raw)
        check(join(ch) == raw, f"{p.name}: splitter round trip")
        base = outcome(raw)
        check(not base.startswith("EXC"), f"{p.name}: loads")
        agg["base"].update((p.name + base).encode())
        # loading by path, by str and by file object agree
        check(
            hashlib.sha256(repr(snap(read_sunvox_file(p))).encode()).hexdigest() == base
            and hashlib.sha256(repr(snap(rv.api.read_sunvox_file(str(p)))).encode()).hexdigest() == base,
            f"{p.name}: path/str/file agree",
        )
        # unknown chunk at every position changes nothing
        for i in range(len(ch) + 1):
            edited = join(ch[:i] + [UNKNOWN] + ch[i:])
            check(outcome(edited) == base, f"{p.name}: unknown chunk at {i}")
        # two unknown chunks (one empty payload) around every section start
        for i, (cid, _) in enumerate(ch):
            if cid in (b"SFFF", b"PDTA", b"PPAR", b"SEND", b"PEND"):
                edited = join(ch[:i] + [(b"Qq  ", b"")] + ch[i : i + 1] + [UNKNOWN] + ch[i + 1 :])
                check(outcome(edited) == base, f"{p.name}: unknown chunks around {i}")
        # drop every non-structural chunk, one at a time
        for i, (cid, _) in enumerate(ch):
            if cid in STRUCTURAL:
                continue
            agg["drop"].update(outcome(join(ch[:i] + ch[i + 1 :])).encode())
        # truncate each run of CVALs from the end
        i = 0
        while i < len(ch):
            if ch[i][0] != b"CVAL":
                i += 1
                continue
            j = i
            while j < len(ch) and ch[j][0] == b"CVAL":
                j += 1
            for keep in range(j - i):
                agg["cval"].update(outcome(join(ch[: i + keep] + ch[j:])).encode())
            i = j
        # swap adjacent independent header chunks
        for i in range(len(ch) - 1):
            if ch[i][0] in HEADER_IDS and ch[i + 1][0] in HEADER_IDS:
                if ch[i][0] == b"VERS" or ch[i + 1][0] == b"VERS":
                    continue
                sw = ch[:i] + [ch[i + 1], ch[i]] + ch[i + 2 :]
                check(outcome(join(sw)) == base, f"{p.name}: header swap at {i}")
                agg["swap"].update(outcome(join(sw)).encode())
    return {k: v.hexdigest() for k, v in agg.items()}


# ---------------------------------------------------------------- tiny independent encoder
def u32(v):
    return struct.pack("<I", v)


def i32(v):
    return struct.pack("<i", v)


def ints(vals):
    return b"".join(i32(v) for v in vals)


def mod_chunks(name=b"m\0", mtype=b"Amplifier\0", flags=0x51, pre=(), cvals=(), post=()):
    """Chunks of one module section; pre/post are extra (id, payload) pairs."""
    ch = [(b"SFFF", u32(flags)), (b"SNAM", name)]
    if mtype is not None:
        ch.append((b"STYP", mtype))
    ch += [(b"SFIN", i32(0)), (b"SREL", i32(0)), (b"SXXX", i32(100)), (b"SYYY", i32(-7))]
    ch += list(pre)
    ch += [(b"CVAL", i32(v)) for v in cvals]
    ch += list(post)
    ch.append((b"SEND", b""))
    return ch


def project(modules, head=(), vers=(2, 0, 0, 0), bver=(2, 0, 0, 0), tail=()):
    ch = [(b"SVOX", b"")]
    if vers is not None:
        ch.append((b"VERS", bytes(reversed(vers))))
    if bver is not None:
        ch.append((b"BVER", bytes(reversed(bver))))
    ch += list(head)
    for m in modules:
        ch += [(b"SEND", b"")] if m is None else m
    ch += list(tail)
    return join(ch)


OUT = mod_chunks(name=b"Output\0", mtype=None, flags=0x43, pre=[(b"SLNK", ints([1]))])
OUT0 = mod_chunks(name=b"Output\0", mtype=None, flags=0x43)


# ---------------------------------------------------------------- patch-specific checks
def strip_trailing(vals):
    vals = list(vals)
    while vals and vals[-1] == -1:
        vals.pop()
    return vals


def specific():
    agg = hashlib.sha256()

    # --- SLNK / SLnK decoding -------------------------------------------------
    link_cases = [
        [(b"SLNK", b"")],
        [(b"SLNK", ints([2]))],
        [(b"SLNK", ints([2, -1]))],
        [(b"SLNK", ints([-1, -1]))],
        [(b"SLNK", ints([-1, 2, -1, -1]))],
        [(b"SLNK", ints([2, -1])), (b"SLNK", ints([-1]))],
        [(b"SLNK", ints([2])), (b"SLNK", ints([-1, 0]))],
        [(b"SLNK", ints([2, -1])), (b"SLNK", b"")],
        [(b"SLNK", ints([2, 0])), (b"SLnK", ints([0, 1]))],
        [(b"SLNK", ints([2, 0])), (b"SLnK", ints([0, 1, -1, -1]))],
        [(b"SLNK", ints([2])), (b"SLnK", ints([-1]))],
        [(b"SLNK", ints([2])), (b"SLnK", b"")],
        [(b"SLNK", ints([2])), (b"SLnK", ints([0, -1])), (b"SLnK", ints([-1, -1]))],
    ]
    for case in link_cases:
        raw = project([OUT, mod_chunks(pre=case), mod_chunks(name=b"src\0")])
        res = outcome(raw)
        agg.update(res.encode())
        check(not res.startswith("EXC"), f"link case loads: {case}")
        if res.startswith("EXC"):
            continue
        proj = load(raw)
        links = [v for c, d in case if c == b"SLNK" for v in struct.unpack(f"<{len(d)//4}i", d)]
        # trailing -1s are stripped after every chunk, over the whole list
        exp = []
        for c, d in case:
            if c == b"SLNK" and d:
                exp = strip_trailing(exp + [struct.unpack_from("<i", d, o)[0] for o in range(0, len(d), 4)])
        check(proj.modules[1].in_links == exp, f"in_links {case}: {proj.modules[1].in_links} != {exp}")
        check(isinstance(proj.modules[1].in_links, list), "in_links stays a list")
        check(len(proj.modules) == 3 and proj.modules[2].name == "src", "positions kept")
        has_slots = any(c == b"SLnK" and d for c, d in case)
        if has_slots:
            exp_s = []
            for c, d in case:
                if c == b"SLnK" and d:
                    exp_s = strip_trailing(exp_s + [struct.unpack_from("<i", d, o)[0] for o in range(0, len(d), 4)])
            if exp_s:
                check(proj.modules[1].in_link_slots == exp_s, f"in_link_slots {case}")
    for bad in (b"\x02", b"\x02\0\0", ints([2]) + b"\0", ints([2, -1]) + b"\xff\xff", b"\xff" * 7):
        for cid in (b"SLNK", b"SLnK"):
            raw = project([OUT, mod_chunks(pre=[(cid, bad)]), mod_chunks()])
            check(outcome(raw) == "EXC:error", f"{cid} with {len(bad)} bytes raises struct.error")

    # --- NUL-terminated strings ----------------------------------------------
    names = [b"abc\0\0\0", b"abc", b"\0abc", b"", b"a\0b\0c", b"caf\xc3\xa9\0\xff\xfe", b" x \0", b"\0"]
    for nm in names:
        exp = nm.split(b"\0")[0].decode("utf8")
        raw = project([OUT, mod_chunks(name=nm, post=[(b"SMIN", nm)])])
        proj = load(raw)
        check(proj.modules[1].name == exp, f"SNAM {nm!r}")
        check(proj.modules[1].midi_out_name == exp, f"SMIN {nm!r}")
        agg.update(outcome(raw).encode())
        # SNAM before STYP is carried over, SNAM after STYP overrides
        raw = project([OUT, mod_chunks(post=[(b"SNAM", nm)])])
        check(load(raw).modules[1].name == exp, f"late SNAM {nm!r}")
    check(outcome(project([OUT, mod_chunks(name=b"\xff\0")])) == "EXC:UnicodeDecodeError", "bad utf8 name")
    check(outcome(project([OUT, mod_chunks(post=[(b"SMIN", b"\xc3")])])) == "EXC:UnicodeDecodeError", "bad utf8 SMIN")
    for mt, exp in [(b"Amplifier\0junk\xff", "Amplifier"), (b"Amplifier", "Amplifier"), (b"Echo\0\0\0\0", "Echo")]:
        proj = load(project([OUT, mod_chunks(mtype=mt)]))
        check(proj.modules[1].mtype == exp and type(proj.modules[1]).__name__ == exp, f"STYP {mt!r}")
    check(outcome(project([OUT, mod_chunks(mtype=b"NoSuchModule\0")])) == "EXC:KeyError", "unknown STYP")
    check(outcome(project([OUT, mod_chunks(mtype=b"\0Amplifier")])) == "EXC:KeyError", "empty STYP")

    # --- fixed-size numeric fields -------------------------------------------
    num_ids = [b"SFIN", b"SREL", b"SXXX", b"SYYY", b"SZZZ", b"SSCL", b"SVPR", b"SMII",
               b"SMIC", b"SMIB", b"SMIP", b"CVAL", b"CHNK", b"SFFF"]
    for cid in num_ids:
        for bad in (b"", b"\x01\x02\x03", b"\x01\x02\x03\x04\x05", b"\0" * 8):
            post = [(cid, bad)] if cid != b"SFFF" else []
            m = mod_chunks(post=post)
            if cid == b"SFFF":
                m[0] = (b"SFFF", bad)
            check(outcome(project([OUT, m])) == "EXC:error", f"{cid} {len(bad)} bytes -> struct.error")
    for bad in (b"", b"\x01\x02", b"\x01\x02\x03\x04"):
        check(outcome(project([OUT, mod_chunks(post=[(b"SCOL", bad)])])) == "EXC:error", "SCOL size")
    for cid in (b"CHFF", b"CHFR"):
        # no CHNM seen yet: value decodes, then there is no chunk to attach it to
        check(outcome(project([OUT, mod_chunks(post=[(cid, u32(1))])])) == "EXC:AttributeError", f"{cid} w/o CHNM")
        check(outcome(project([OUT, mod_chunks(post=[(cid, b"\x01")])])) == "EXC:error", f"{cid} short")
    vals = [0, 1, -1, 2**31 - 1, -(2**31), 0x12345678, -2]
    for v in vals:
        post = [(b"SFIN", i32(v)), (b"SREL", i32(v)), (b"SXXX", i32(v)), (b"SYYY", i32(v)),
                (b"SZZZ", i32(v)), (b"SSCL", i32(v)), (b"SVPR", i32(v)), (b"SMII", i32(v)),
                (b"SMIC", i32(v)), (b"SMIB", i32(v)), (b"SMIP", i32(v)),
                (b"SCOL", i32(v)[:3]), (b"CHNK", i32(v))]
        m = load(project([OUT, mod_chunks(post=post)])).modules[1]
        u = v & 0xFFFFFFFF
        got = (m.mod_finetune, m.mod_relative_note, m.x, m.y, m.layer, m.mod_scale, int(m.visualization),
               m.midi_in_always, m.midi_in_channel, m.midi_out_channel, m.midi_out_bank,
               m.midi_out_program, m.color, m._reader_chnk)
        exp = (v, v, v, v, u, u, u, bool(u & 1), u >> 1, v, v, v, tuple(i32(v)[:3]), u)
        check(got == exp, f"numeric fields for {v}: {got} != {exp}")
        check(type(m.midi_in_always) is bool and type(m.color) is tuple, "field types")
        m2 = load(project([OUT, mod_chunks(flags=u)])).modules[1]
        check(m2.flags == u | type(m2)().default_flags, "flags are or-ed with the type's defaults")
        agg.update(repr(m2.flags).encode())

    # --- CVAL handling, MetaModule user-defined controllers ------------------
    meta = split((FILES / "metamodule.sunsynth").read_bytes())
    last_cval = max(i for i, (c, _) in enumerate(meta) if c == b"CVAL")
    for k in range(0, 36):
        extra = [(b"CVAL", i32(v + 1)) for v in range(k)]
        res, recs = captured(join(meta[: last_cval + 1] + extra + meta[last_cval + 1 :]), logging.WARNING)
        agg.update(res.encode())
        agg.update(repr(recs).encode())
    amp = [OUT, mod_chunks(cvals=[300, 64, 1, 0, 1000, 200, 1, 1, 1, 1, 1, 1])]
    res, recs = captured(project(amp), logging.WARNING)
    agg.update((res + repr(recs)).encode())
    check(any("Unsupported controller at index" in r[2] for r in recs), "surplus CVALs only warn")

    # --- dispatch: ids, logging ----------------------------------------------
    head_cases = [
        ([(b" BPM", u32(201))], 201),   # ids are stripped on both sides
        ([(b"BPM ", u32(202))], 202),
        ([(b"BPM\0", u32(203))], 125),  # NUL is not whitespace: unknown id, default stays
        ([(b"bpm ", u32(204))], 125),
        ([(b"    ", u32(205))], 125),
    ]
    for head, exp in head_cases:
        res, recs = captured(project([OUT0], head=head), logging.DEBUG)
        check(load(project([OUT0], head=head)).initial_bpm == exp, f"dispatch {head}")
        agg.update((res + repr(recs)).encode())
    for _ in range(2):  # second time goes through any memoisation
        check(outcome(project([OUT0], head=[(b"\xff\xfe\xfd\xfc", b"")])) == "EXC:UnicodeDecodeError", "bad id")
        res, recs = captured(project([OUT, mod_chunks(post=[UNKNOWN])], head=[UNKNOWN, (b"Qq  ", b"")], tail=[UNKNOWN]), logging.DEBUG)
        msgs = [r[2] for r in recs if r[1] == "WARNING"]
        check(msgs == ["no SunVoxReader.process_ZzQ9 method", "no SunVoxReader.process_Qq method",
                       "no ModuleReader.process_ZzQ9 method", "no SunVoxReader.process_ZzQ9 method"],
              f"warnings for unknown ids: {msgs}")
        dbg = [r[2] for r in recs if r[1] == "DEBUG"]
        check(dbg[:3] == ["-> InitialReader.process_SVOX", "-> SunVoxReader.process_VERS", "-> SunVoxReader.process_BVER"], "debug trail")
        check(all(r[0] == "rv.readers.reader" for r in recs), "logger name")
        agg.update(repr(recs).encode())
    for name in ("single-fm.sunvox", "issue109/filter_lfo.sunvox", "fmx.sunsynth", "metamodule.sunsynth"):
        res, recs = captured((FILES / name).read_bytes(), logging.DEBUG)
        agg.update((res + repr(recs)).encode())

    # --- low level chunk reader ----------------------------------------------
    from rv._vendor.chunk import Chunk
    from rv.lib.iff import chunks as iff_chunks

    f = io.BytesIO(b"ABCD" + struct.pack("<L", 5) + b"helloX")
    c = Chunk(f, align=False, bigendian=False)
    check((c.getname(), c.getsize(), c.tell()) == (b"ABCD", 5, 0), "chunk header LE")
    check(c.read(0) == b"" and c.read(2) == b"he" and c.tell() == 2, "partial read")
    check(c.read(100) == b"llo" and c.read() == b"" and c.read(3) == b"", "read clamps to chunk")
    c.seek(1)
    check(c.read(-1) == b"ello" and c.read(-5) == b"", "negative size reads rest")
    c.seek(0)
    check(c.read(5) == b"hello", "exact size")
    c.skip()
    check(f.read() == b"X", "skip leaves file after chunk")
    f = io.BytesIO(b"ABCD" + struct.pack(">L", 3) + b"abc\0NEXT")
    c = Chunk(f)
    check(c.getsize() == 3 and c.read() == b"abc" and f.tell() == 12 and c.tell() == 4, "BE aligned read eats pad")
    f = io.BytesIO(b"ABCD" + struct.pack(">L", 3) + b"abc\0NEXT")
    c = Chunk(f, bigendian=1, align=0)
    check(c.read(2) == b"ab" and c.read() == b"c" and f.tell() == 11, "BE unaligned")
    c = Chunk(io.BytesIO(b"ABCD" + struct.pack("<L", 13) + b"hello"), bigendian=0, inclheader=True)
    check(c.getsize() == 5 and c.read() == b"hello", "inclheader")
    for short in (b"", b"A", b"ABC", b"ABCD", b"ABCD\x01", b"ABCD\x01\x02\x03"):
        for be in (True, False):
            try:
                Chunk(io.BytesIO(short), bigendian=be)
                check(False, f"short header {short!r} must raise")
            except EOFError as e:
                check(e.__cause__ is None, "EOFError raised bare")
    c = Chunk(io.BytesIO(b"ABCD" + struct.pack("<L", 10) + b"hel"), bigendian=False, align=False)
    check(c.read() == b"hel" and c.tell() == 3 and c.read() == b"", "truncated payload")

    class Pipe:  # no tell/seek
        def __init__(self, b):
            self.b = io.BytesIO(b)

        def read(self, n=-1):
            return self.b.read(n)

    two = join([(b"AAAA", b"12345"), (b"BBBB", b""), (b"CCCC", b"xyz")])
    check(list(iff_chunks(Pipe(two))) == split(two), "iff.chunks on unseekable stream")
    check(list(iff_chunks(io.BytesIO(two))) == split(two), "iff.chunks on BytesIO")
    check(list(iff_chunks(Pipe(two[:-1]))) == split(two)[:2] + [(b"CCCC", b"xy")], "truncated tail, pipe")
    check(list(iff_chunks(io.BytesIO(two[:-1]))) == split(two)[:2] + [(b"CCCC", b"xy")], "truncated tail, file")
    check(list(iff_chunks(io.BytesIO(two + b"DDDD\x01"))) == split(two), "partial header ignored")
    p = Pipe(b"ABCD" + struct.pack("<L", 9) + b"abc")
    c = Chunk(p, bigendian=False, align=False)
    check(c.seekable is False and c.read(2) == b"ab", "pipe read")
    try:
        c.skip()
        check(False, "skip on truncated pipe raises EOFError")
    except EOFError:
        pass

    # --- every truncation point of two whole files ---------------------------
    for name in ("empty.sunvox", "amplifier.sunsynth"):
        raw = (FILES / name).read_bytes()
        for n in range(len(raw)):
            agg.update(outcome(raw[:n]).encode())
    return agg.hexdigest()


EXPECTED_GENERIC = {
    "base": "722889d4d528ad64c73a6796e7f8e60a81723a7ca28605403938d3b56e5d4284",
    "drop": "9a27b83c1eddabebda828b8ad5338ccf7fcc981d9c624fff568ae9ca17581c5d",
    "cval": "c3e85d1dee22d94515979173144161be08e0f6e28d6f2daacd649227465a80f6",
    "swap": "6e552cea7b9b21a13264c0c12c4ec1780199707b58c47c43c8a4ea4202c68023",
}
EXPECTED_SPECIFIC = "950ff1ce16feb94fe328bdaa9db9017e9a2c697520eaf2e6e9af25d40bcdabfc"


def main():
    check(len(fixtures()) == N_FIXTURES, f"{N_FIXTURES} fixture files found (run from the repository root)")
    got = specific()
    if "--print" in sys.argv:
        print("specific:", got)
    check(got == EXPECTED_SPECIFIC, f"specific digest {got}")
    got = generic_suite()
    if "--print" in sys.argv:
        print("generic:", got)
    for k, v in EXPECTED_GENERIC.items():
        check(got[k] == v, f"generic digest {k}: {got[k]}")
    if FAILURES:
        print(f"FAIL ({len(FAILURES)} problems)")
        sys.exit(1)
    print("PASS")


if __name__ == "__main__":
    main()
