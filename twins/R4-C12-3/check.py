"""Behaviour check for the SMII (MIDI-in mode/channel) and SFGS (sync flags) words."""
import struct
import sys
from io import BytesIO

import rv.api
from rv.modules.module import Module
from rv.project import Project
from rv.readers.module import ModuleReader
from rv.readers.sunvox import SunVoxReader

failures = []


def check(cond, msg):
    if not cond:
        failures.append(msg)
        if len(failures) < 20:
            print("FAIL:", msg)


def chunk(gen, name):
    found = [data for n, data in gen if n == name]
    check(len(found) == 1, "exactly one %r chunk" % name)
    return found[0]


def raises(exc, fn, msg):
    try:
        fn()
    except exc:
        return
    except Exception as e:  # noqa: BLE001
        check(False, "%s: raised %r instead of %s" % (msg, e, exc.__name__))
    else:
        check(False, "%s: nothing raised" % msg)


# --- SMII writer ------------------------------------------------------------
mod = rv.api.m.Generator()
for always in (False, True, 0, 1, 2, 3):
    for channel in list(range(0, 18)) + [127, 0x7FFF, 0x7FFFFFFF]:
        mod.midi_in_always, mod.midi_in_channel = always, channel
        expect = int(always) + (channel << 1)
        if expect > 0xFFFFFFFF:
            raises(struct.error, lambda: list(mod.iff_chunks()), "SMII overflow")
            continue
        for in_project in (True, False):
            payload = chunk(mod.iff_chunks(in_project=in_project), b"SMII")
            check(payload == struct.pack("<I", expect), "SMII %r/%r" % (always, channel))
for always, channel, exc in [
    (True, 0x80000000, struct.error),
    (False, -1, struct.error),
    (True, -1, struct.error),
    (None, 3, TypeError),
    (True, 1.0, TypeError),
    (True, None, TypeError),
    ("x", 1, ValueError),
]:
    mod.midi_in_always, mod.midi_in_channel = always, channel
    raises(exc, lambda: list(mod.iff_chunks()), "SMII %r/%r" % (always, channel))
# chunks before SMII are still produced before the failure
mod.midi_in_always, mod.midi_in_channel = True, -1
seen = []
try:
    for name, _ in mod.iff_chunks(in_project=True):
        seen.append(name)
except struct.error:
    pass
check(seen[-1] == b"SCOL" and b"SMII" not in seen, "SMII failure position")

# --- SMII reader ------------------------------------------------------------
words = list(range(0, 70)) + [0xFF, 0x100, 0x101, 0xFFFE, 0xFFFF, 0x10000, 0x7FFFFFFF,
                              0x80000000, 0xFFFFFFFE, 0xFFFFFFFF, 0xA5A5A5A5]
for word in words:
    reader = ModuleReader(None, 1)
    reader._object = Module()
    reader.process_SMII(struct.pack("<I", word))
    m = reader.object
    check(m.midi_in_always is bool(word & 1), "always of %x" % word)
    check(m.midi_in_channel == word >> 1 and type(m.midi_in_channel) is int, "channel of %x" % word)
    # written back identically
    gen = rv.api.m.Generator()
    gen.midi_in_always, gen.midi_in_channel = m.midi_in_always, m.midi_in_channel
    check(chunk(gen.iff_chunks(), b"SMII") == struct.pack("<I", word), "SMII rewrite %x" % word)
for bad in (b"", b"\1", b"\1\0\0", b"\1\0\0\0\0"):
    reader = ModuleReader(None, 1)
    reader._object = Module()
    reader.object.midi_in_always, reader.object.midi_in_channel = True, 9
    raises(struct.error, lambda: reader.process_SMII(bad), "SMII length %d" % len(bad))
    check((reader.object.midi_in_always, reader.object.midi_in_channel) == (True, 9),
          "module kept after bad SMII")

# --- SFGS writer ------------------------------------------------------------
proj = Project()
check(chunk(proj.chunks(), b"SFGS") == struct.pack("<I", 1 | 1 << 3), "default SFGS")
S = Project.SyncCommand
for midi in list(range(0, 10)) + [S.start_stop, S.tempo, S.position, S.tempo | S.position, 0x40, 0x1234]:
    for other in list(range(0, 10)) + [S.start_stop, S.tempo, S.position, 0x1FFFFFFF]:
        proj.receive_sync_midi, proj.receive_sync_other = midi, other
        payload = chunk(proj.chunks(), b"SFGS")
        check(payload == struct.pack("<I", midi | (other << 3)), "SFGS %r/%r" % (midi, other))
for midi, other, exc in [
    (1, 0x20000000, struct.error),
    (-1, 1, struct.error),
    (1, -1, struct.error),
    (0x100000000, 0, struct.error),
    (1.0, 1, TypeError),
    (1, 1.0, TypeError),
    (None, 1, TypeError),
    (1, None, TypeError),
]:
    proj.receive_sync_midi, proj.receive_sync_other = midi, other
    raises(exc, lambda: list(proj.chunks()), "SFGS %r/%r" % (midi, other))
seen = []
try:
    for name, _ in proj.chunks():
        seen.append(name)
except TypeError:
    pass
check(seen[-1] == b"FLGS", "SFGS failure position")

# --- SFGS reader ------------------------------------------------------------
for word in list(range(0, 1024)) + [0xFFFF, 0x12345, 0x7FFFFFFF, 0x80000000, 0xFFFFFFFF, 0xDEADBEEF]:
    reader = SunVoxReader(None)
    reader._object = Project()
    reader.process_SFGS(struct.pack("<I", word))
    p = reader.object
    check(p.receive_sync_midi == word & 7 and type(p.receive_sync_midi) is int, "midi of %x" % word)
    check(p.receive_sync_other == (word >> 3) & 7 and type(p.receive_sync_other) is int,
          "other of %x" % word)
    if word < 64:
        check(chunk(p.chunks(), b"SFGS") == struct.pack("<I", word), "SFGS rewrite %x" % word)
for bad in (b"", b"\1\0", b"\1\0\0\0\0\0"):
    reader = SunVoxReader(None)
    reader._object = Project()
    reader.object.receive_sync_midi, reader.object.receive_sync_other = 5, 6
    raises(struct.error, lambda: reader.process_SFGS(bad), "SFGS length %d" % len(bad))
    check((reader.object.receive_sync_midi, reader.object.receive_sync_other) == (5, 6),
          "project kept after bad SFGS")

# --- sub-field independence at the object level, through a file -------------
def save(project):
    f = BytesIO()
    project.write_to(f)
    return f.getvalue()


for midi in range(8):
    for other in range(8):
        for always in (False, True):
            channel = (midi * 8 + other) % 17
            project = Project()
            gen = project.new_module(rv.api.m.Generator)
            project.receive_sync_midi, project.receive_sync_other = 7 - midi, 7 - other
            gen.midi_in_always, gen.midi_in_channel = not always, 16 - channel
            # overwrite one sub-field at a time; the others keep their values
            project.receive_sync_midi = midi
            check(project.receive_sync_other == 7 - other, "other kept")
            project.receive_sync_other = other
            check(project.receive_sync_midi == midi, "midi kept")
            gen.midi_in_always = always
            check(gen.midi_in_channel == 16 - channel, "channel kept")
            gen.midi_in_channel = channel
            check(gen.midi_in_always is always, "always kept")
            image = save(project)
            loaded = rv.api.read_sunvox_file(BytesIO(image))
            check((loaded.receive_sync_midi, loaded.receive_sync_other) == (midi, other), "SFGS via file")
            lg = loaded.modules[1]
            check((lg.midi_in_always, lg.midi_in_channel) == (always, channel), "SMII via file")
            check(loaded.output.midi_in_always is False and loaded.output.midi_in_channel == 0, "output SMII")
            check(save(loaded) == image, "file image stable")

# a standalone synth carries SMII too
synth = rv.api.Synth(rv.api.m.Generator())
synth.module.midi_in_always, synth.module.midi_in_channel = True, 11
f = BytesIO()
synth.write_to(f)
back = rv.api.read_sunvox_file(BytesIO(f.getvalue()))
check((back.module.midi_in_always, back.module.midi_in_channel) == (True, 11), "synth SMII")

if failures:
    print("FAILED (%d)" % len(failures))
    sys.exit(1)
print("PASS")
