"""Behaviour check for MultiCtl.on_value_changed fan-out (property C20).

Builds projects with a MultiCtl linked to several kinds of target controller
(plain range, negative-min range, CompactRange, min==1 range, enum, bool,
unset mapping), in normal and reversed windows, with several gains,
quantizations and curves, sets MultiCtl.value and compares what each target
received with an independent computation.  Also covers the "do nothing"
paths: detached module, propagate(down=False), controller 0.
"""
import random
import sys

import rv.api as rv
from rv.controller import CompactRange, Range
from rv.modules.base.multictl import BaseMultiCtl
from rv.modules.multictl import MultiCtl

FAILS = []


def expect(cond, msg):
    if not cond:
        FAILS.append(msg)


def ref_convert(gain, qsteps, smin, smax, dmin, dmax, vmax, value, curve=None):
    v = (value * gain) / 256
    v = min(v, 32768)
    if curve is not None:
        k = int(v / 128)
        off = v - 128 * k
        lo = curve[k]
        hi = curve[k + 1] if k < 256 else lo
        w = min(off / 128, 1.0)
        v = int((w * hi) + ((1.0 - w) * lo))
    span = smax - smin
    if qsteps < 32768:
        q = max(qsteps - 1, 1)
        st = 32768 / q
        v = int(v / st)
        v = (v * st) / 32768
        v = smin + int(span * v)
    else:
        v = smin + (span * v) // 32768
    if vmax is not None:
        v /= 32768 / vmax
    if dmax - dmin > 0:
        v += dmin
    else:
        v = dmin - v
    return int(v)


def expected_delivery(gain, quant, wmin, wmax, vt, value, curve):
    """What a ranged target with value type `vt` should end up holding."""
    span = vt.max - vt.min
    vmax = None if isinstance(vt, CompactRange) else span
    if wmin > wmax:
        args = (wmax, wmin, span, 0)
    else:
        args = (wmin, wmax, 0, span)
    return ref_convert(gain, quant, *args, vmax, value, curve) + vt.min


DEFAULT_CURVE = list(BaseMultiCtl.curve_chunk.default)
rng = random.Random(2020)
STEPPY = sorted(rng.randrange(0, 32769) for _ in range(257))
STEPPY[0], STEPPY[-1] = 0, 32768
SQUARE = [min(32768, (i * i) // 2) for i in range(257)]

VALUES = sorted(set([0, 1, 127, 128, 129, 4095, 16383, 16384, 16385, 32640, 32767, 32768] + list(range(0, 32769, 331))))

# (module class, controller name, 1-based controller number is looked up)
TARGETS = [
    (rv.m.Amplifier, "volume"),  # Range 0..1024
    (rv.m.Amplifier, "balance"),  # Range -128..128
    (rv.m.MultiSynth, "transpose"),  # CompactRange -128..128
    (rv.m.Generator, "polyphony"),  # Range 1..16
    (rv.m.Filter, "freq"),  # Range 0..14000
    (rv.m.Distortion, "bit_depth"),  # Range 1..16
    (rv.m.Compressor, "release"),  # Range 1..1000
    (rv.m.Glide, "sample_rate"),  # Range 1..32768
]
WINDOWS = [(0, 32768), (32768, 0), (0, 0), (32768, 32768), (1000, 20000), (20000, 1000), (0, 256), (256, 0), (7, 8)]
GAINS = [0, 1, 100, 256, 257, 512, 1024]
QUANTS = [0, 1, 2, 3, 17, 1000, 32767, 32768]


def ctl_number(mod, name):
    return list(mod.controllers).index(name) + 1


def build(windows, gain, quant, curve):
    p = rv.Project()
    mods = [cls() for cls, _ in TARGETS]
    for m in mods:
        p.attach_module(m)
    mappings = []
    for i, ((cls, cname), m, (wmin, wmax)) in enumerate(zip(TARGETS, mods, windows)):
        vt = m.controllers[cname].value_type
        if isinstance(vt, CompactRange):
            # a compact target's window is expressed in target units
            wmin, wmax = min(wmin, vt.max - vt.min), min(wmax, vt.max - vt.min)
            windows[i] = (wmin, wmax)
        mappings.append((wmin, wmax, ctl_number(m, cname), 0, 0, 0, 0, 0))
    kw = {} if curve is None else {"curve": list(curve)}
    mc = p.new_module(MultiCtl, gain=gain, quantization=quant, mappings=mappings, **kw)
    mc >> mods
    return p, mc, mods


combo = 0
for gain in GAINS:
    for quant in QUANTS:
        curve = (None, STEPPY, SQUARE)[combo % 3]
        windows = [WINDOWS[(combo + i) % len(WINDOWS)] for i in range(len(TARGETS))]
        combo += 1
        p, mc, mods = build(windows, gain, quant, curve)
        eff_curve = DEFAULT_CURVE if curve is None else curve
        expect(list(mc.curve.values) == list(eff_curve), "curve stored")
        prev = None
        for v in VALUES:
            mc.value = v
            got = []
            for (cls, cname), m, (wmin, wmax) in zip(TARGETS, mods, windows):
                vt = m.controllers[cname].value_type
                expect(isinstance(vt, Range), f"{cname} is ranged")
                want = expected_delivery(gain, quant, wmin, wmax, vt, v, eff_curve)
                have = getattr(m, cname)
                expect(have == want, f"g={gain} q={quant} w={wmin, wmax} {cls.__name__}.{cname} v={v}: {have} != {want}")
                expect(type(have) is int, f"{cname} delivered non-int {have!r}")
                expect(vt.min <= have <= vt.max, f"{cname} out of range {have}")
                got.append(have)
            if prev is not None:
                for (a, b, (wmin, wmax), (cls, cname)) in zip(prev, got, windows, TARGETS):
                    if wmin <= wmax:
                        expect(a <= b, f"not non-decreasing {cname} g={gain} q={quant} v={v}: {a}->{b}")
                    else:
                        expect(a >= b, f"not non-increasing {cname} g={gain} q={quant} v={v}: {a}->{b}")
            prev = got
        if FAILS:
            break
    if FAILS:
        break

# full value axis for one configuration, normal + reversed window
p = rv.Project()
amp = p.new_module(rv.m.Amplifier)
ms = p.new_module(rv.m.MultiSynth)
mc = p.new_module(
    MultiCtl,
    mappings=[(0, 32768, ctl_number(amp, "balance"), 0, 0, 0, 0, 0), (256, 0, ctl_number(ms, "transpose"), 0, 0, 0, 0, 0)],
)
mc >> [amp, ms]
bal_t = amp.controllers["balance"].value_type
tr_t = ms.controllers["transpose"].value_type
for v in range(0, 32769):
    mc.value = v
    e1 = expected_delivery(256, 32768, 0, 32768, bal_t, v, DEFAULT_CURVE)
    e2 = expected_delivery(256, 32768, 256, 0, tr_t, v, DEFAULT_CURVE)
    if (amp.balance, ms.transpose) != (e1, e2):
        expect(False, f"full axis v={v}: {(amp.balance, ms.transpose)} != {(e1, e2)}")
        break
mc.value = 0
expect((amp.balance, ms.transpose) == (-128, 128), f"ends at 0: {(amp.balance, ms.transpose)}")
mc.value = 32768
expect((amp.balance, ms.transpose) == (128, -128), f"ends at 32768: {(amp.balance, ms.transpose)}")

# a compact target with a window wider than its span overflows: same error, same point
from rv.errors import ControllerValueError

p = rv.Project()
ms = p.new_module(rv.m.MultiSynth)
mc = p.new_module(MultiCtl, mappings=[(0, 32768, ctl_number(ms, "transpose"), 0, 0, 0, 0, 0)])
mc >> ms
first_bad = None
for v in range(0, 600):
    try:
        mc.value = v
    except ControllerValueError:
        first_bad = v
        break
    expect(ms.transpose == v - 128, f"wide compact window v={v}: {ms.transpose}")
expect(first_bad == 257, f"wide compact window first overflow at {first_bad}")

# unset mapping (controller 0) leaves its target untouched, later links still served
p = rv.Project()
a1 = p.new_module(rv.m.Amplifier, volume=77, balance=5)
a2 = p.new_module(rv.m.Amplifier, volume=78)
a3 = p.new_module(rv.m.Amplifier, volume=79)
mc = p.new_module(MultiCtl, mappings=[(0, 32768, 0, 0, 0, 0, 0, 0), (0, 32768, 1, 0, 0, 0, 0, 0)])
mc >> [a1, a2, a3]  # third link uses the default mapping (controller 0)
before1 = dict(a1.controller_values)
before3 = dict(a3.controller_values)
for v in (0, 12345, 32768):
    mc.value = v
    expect(dict(a1.controller_values) == before1, "unset mapping touched a1")
    expect(dict(a3.controller_values) == before3, "default mapping touched a3")
    expect(a2.volume == expected_delivery(256, 32768, 0, 32768, Range(0, 1024), v, DEFAULT_CURVE), "a2 served")

# non-range targets (enum, bool) are left alone by on_value_changed
p = rv.Project()
flt = p.new_module(rv.m.Filter)
amp = p.new_module(rv.m.Amplifier)
mc = p.new_module(
    MultiCtl,
    mappings=[
        (0, 3, ctl_number(flt, "type"), 0, 0, 0, 0, 0),
        (0, 1, ctl_number(amp, "inverse"), 0, 0, 0, 0, 0),
    ],
)
mc >> [flt, amp]
t0, i0 = flt.type, amp.inverse
mc.value = 32768
expect(flt.type is t0 and amp.inverse is i0, "non-range target modified")

# detached MultiCtl: setting value is harmless and stores the value
lone = MultiCtl(mappings=[(0, 32768, 1, 0, 0, 0, 0, 0)])
lone.out_links.append(0)
lone.value = 4321
expect(lone.value == 4321, "detached value stored")

# propagate with down=False stores but does not fan out
p = rv.Project()
amp = p.new_module(rv.m.Amplifier, volume=11)
mc = p.new_module(MultiCtl, mappings=[(0, 32768, 1, 0, 0, 0, 0, 0)])
mc >> amp
MultiCtl.value.propagate(mc, 32768, down=False, up=True)
expect(mc.value == 32768 and amp.volume == 11, "down=False fanned out")
MultiCtl.value.propagate(mc, 16384, down=True, up=False)
expect(amp.volume == 512, f"down=True did not fan out: {amp.volume}")
mc.on_value_changed(0, True, False)  # uses the stored value, positional flags
expect(amp.volume == 512, "direct call uses stored value")

# out-of-range controller number -> IndexError, as before
p = rv.Project()
amp = p.new_module(rv.m.Amplifier)
mc = p.new_module(MultiCtl, mappings=[(0, 32768, 99, 0, 0, 0, 0, 0)])
mc >> amp
try:
    mc.value = 5
    expect(False, "expected IndexError for controller 99")
except IndexError:
    pass

# more than 16 out links -> IndexError on the 17th mapping lookup, first 16 served
p = rv.Project()
amps = [p.new_module(rv.m.Amplifier) for _ in range(17)]
mc = p.new_module(MultiCtl, mappings=[(0, 32768, 1, 0, 0, 0, 0, 0)] * 16)
mc >> amps
try:
    mc.value = 32768
    expect(False, "expected IndexError for 17th link")
except IndexError:
    pass
expect([a.volume for a in amps] == [1024] * 16 + [256], "first 16 links served before the error")

# changing gain/quantization afterwards is picked up at the next value set
p = rv.Project()
amp = p.new_module(rv.m.Amplifier)
mc = MultiCtl.macro(p, (amp, "volume"), initial=16384)
expect(amp.volume == 512, "macro initial")
mc.gain = 512
expect(amp.volume == 512, "gain change alone does not fan out")
mc.value = 16384
expect(amp.volume == 1024, "gain applied")
mc.gain = 256
mc.quantization = 3
mc.value = 20000
expect(amp.volume == expected_delivery(256, 3, 0, 32768, Range(0, 1024), 20000, DEFAULT_CURVE), "quantized")

if FAILS:
    print("FAIL")
    for f in FAILS[:20]:
        print("  ", f)
    sys.exit(1)
print("PASS")
