"""Behaviour check for Note byte-half accessors, raw_data and clone."""
import random
import struct
import sys

import rv.api  # noqa: F401  (resolves the package import cycle first)
from rv.note import NOTECMD, Note
from rv.pattern import Pattern

failures = []


def check(cond, msg):
    if not cond:
        failures.append(msg)


# --- sub-field getters/setters: exhaustive over new byte, sampled old words ---
rng = random.Random(12)
old_words = [0, 0xFFFF, 0x00FF, 0xFF00, 0x1234, 0x8001, 0x0100, 0x0001] + [
    rng.randrange(0x10000) for _ in range(40)
]
for old in old_words:
    for new in list(range(256)) + [256, 257, 0x1FF, 0xABCD, -1, -256, True]:
        for word_attr, hi_attr, lo_attr in (
            ("ctl", "controller", "effect"),
            ("val", "val_xx", "val_yy"),
        ):
            other_attr = "val" if word_attr == "ctl" else "ctl"
            n = Note(ctl=0x5AA5, val=0x5AA5)
            setattr(n, word_attr, old)
            other_before = getattr(n, other_attr)
            setattr(n, hi_attr, new)
            check(getattr(n, hi_attr) == (new & 0xFF), f"{hi_attr} set {old:x} {new}")
            check(getattr(n, lo_attr) == (old & 0xFF), f"{lo_attr} kept {old:x} {new}")
            check(
                getattr(n, word_attr) == ((old & 0xFF) | ((new & 0xFF) << 8)),
                f"{word_attr} after {hi_attr} {old:x} {new}",
            )
            check(getattr(n, other_attr) == other_before, "other word untouched")
            check(type(getattr(n, word_attr)) is int, "word stays int")

            n = Note(ctl=0x5AA5, val=0x5AA5)
            setattr(n, word_attr, old)
            setattr(n, lo_attr, new)
            check(getattr(n, lo_attr) == (new & 0xFF), f"{lo_attr} set {old:x} {new}")
            check(getattr(n, hi_attr) == (old >> 8), f"{hi_attr} kept {old:x} {new}")
            check(
                getattr(n, word_attr) == ((old & 0xFF00) | (new & 0xFF)),
                f"{word_attr} after {lo_attr} {old:x} {new}",
            )
            check(getattr(n, other_attr) == other_before, "other word untouched")

# getters are not masked to 16 bits (documented current behaviour)
n = Note()
n.ctl = 0x12345
check(n.controller == 0x123 and n.effect == 0x45, "wide ctl getters")
n.controller = 0x77
check(n.ctl == 0x7745, "setter drops bits above 16 via low-byte mask")
n.val = 0x12345
n.val_yy = 0x01
check(n.val == 0x2301, "val_yy setter keeps only bits 8..15 of the old word")

# non-int values raise TypeError
for bad in (None, "1", 1.5):
    for name in ("controller", "effect", "val_xx", "val_yy"):
        n = Note(ctl=0x0102, val=0x0304)
        try:
            setattr(n, name, bad)
        except TypeError:
            pass
        else:
            check(False, f"{name}={bad!r} should raise TypeError")
        check((n.ctl, n.val) == (0x0102, 0x0304), "failed set leaves note intact")

# --- raw_data: every NOTECMD, all velocities, assorted words ---
words = [0, 1, 0xFF, 0x100, 0x1234, 0xFFFF, 0x8000]
for cmd in NOTECMD:
    for vel in (0, 1, 64, 128, 129):
        for w in words:
            n = Note(note=cmd, vel=vel, module=w, ctl=0xFFFF - w, val=w ^ 0x0F0F)
            raw = n.raw_data
            check(type(raw) is bytes and len(raw) == 8, "8 bytes")
            check(
                raw == struct.pack("<BBHHH", cmd, vel, w, 0xFFFF - w, w ^ 0x0F0F),
                "layout",
            )
            m = Note()
            m.raw_data = raw
            check(m == n, "decode equals")
            check(m.raw_data == raw, "re-encode identical")
            check(type(m.note) is int, "decoded note is a plain int")
            c = n.clone()
            check(c == n and c is not n, "clone equal, distinct")
            check(c.pattern is None, "clone has no pattern")
            check(c.note is n.note, "clone keeps the same note object")

for vel in range(130):
    n = Note(vel=vel)
    m = Note()
    m.raw_data = n.raw_data
    check(m.vel == vel, "vel roundtrip")

# decoding arbitrary bytes (also out-of-domain) is lossless
for _ in range(500):
    raw = bytes(rng.randrange(256) for _ in range(8))
    m = Note()
    m.raw_data = raw
    check(m.raw_data == raw, "arbitrary cell roundtrip")
    check(
        (m.note, m.vel, m.module, m.ctl, m.val) == struct.unpack("<BBHHH", raw),
        "fields",
    )
# bytearray / memoryview accepted
m = Note()
m.raw_data = bytearray(b"\x01\x02\x03\x04\x05\x06\x07\x08")
check(m.raw_data == b"\x01\x02\x03\x04\x05\x06\x07\x08", "bytearray input")
m.raw_data = memoryview(b"\x08\x07\x06\x05\x04\x03\x02\x01")
check(m.raw_data == b"\x08\x07\x06\x05\x04\x03\x02\x01", "memoryview input")

# wrong sizes / out of range raise struct.error and leave note unchanged
for bad in (b"", b"\0" * 7, b"\0" * 9, b"\0" * 16):
    m = Note(vel=5, ctl=0x0102)
    try:
        m.raw_data = bad
    except struct.error:
        pass
    else:
        check(False, f"len {len(bad)} should raise struct.error")
    check((m.vel, m.ctl) == (5, 0x0102), "unchanged after failed decode")
for attr_name, bad in (("vel", 256), ("module", 0x10000), ("ctl", -1), ("val", 70000)):
    m = Note()
    setattr(m, attr_name, bad)
    try:
        m.raw_data
    except struct.error:
        pass
    else:
        check(False, f"{attr_name}={bad} should raise struct.error")

# clone keeps pattern-less copy but equal fields, inside a pattern too
p = Pattern(tracks=2, lines=2)
p.data[1][0].raw_data = b"\x10\x20\x30\x00\x40\x50\x60\x70"
c = p.data[1][0].clone()
check(c.pattern is None and p.data[1][0].pattern is p, "clone drops pattern")
check(c.raw_data == p.data[1][0].raw_data, "clone bytes")
check(p.raw_data[16:24] == b"\x10\x20\x30\x00\x40\x50\x60\x70", "pattern offset")

if failures:
    print("FAIL", len(failures), failures[:10])
    sys.exit(1)
print("PASS")
