"""Behaviour check for the MultiCtl value fan-out (property C20).

Runs against whatever ``rv`` is on PYTHONPATH.  Prints PASS and exits 0 when
the observable behaviour matches the reference behaviour of the library.
"""
import hashlib
import random
import sys

from rv.api import Project, m
from rv.controller import CompactRange, Range
from rv.errors import MappingError
from rv.modules.multictl import MultiCtl, convert_value, invert_value

failures = []
digest = hashlib.sha256()


def record(*items):
    digest.update(repr(items).encode())


def expect(cond, msg):
    if not cond:
        failures.append(msg)


# ---------------------------------------------------------------- convert_value
PINNED = [
    # gain qsteps smin smax dmin dmax value expected
    (256, 2, 0, 32768, 0, 256, 0, 0),
    (128, 32768, 0, 32768, 0, 256, 8192, 32),
    (384, 32768, 0, 32768, 0, 256, 24576, 256),
    (1024, 32768, 0, 32768, 0, 256, 4096, 128),
    (256, 32768, 5000, 25000, 0, 256, 16384, 117),
    (256, 32768, 25000, 5000, 0, 256, 8192, 156),
    (1024, 32768, 32768, 0, 0, 256, 4096, 128),
    (256, 3, 0, 32768, 0, 256, 16384, 128),
    (256, 7, 32768, 0, 0, 256, 8192, 213),
    (256, 20, 0, 32768, 0, 256, 24576, 188),
    (256, 61, 0, 32768, 0, 256, 8192, 64),
]
for gain, qsteps, smin, smax, dmin, dmax, value, expected in PINNED:
    vmax = dmax - dmin if dmax > dmin else dmin - dmax
    got = convert_value(gain, qsteps, smin, smax, dmin, dmax, vmax, value)
    expect(got == expected, f"pinned convert_value{(gain, qsteps, smin, smax, dmin, dmax, value)} -> {got} != {expected}")
    got_kw = convert_value(
        gain=gain, qsteps=qsteps, smin=smin, smax=smax, dmin=dmin, dmax=dmax,
        vmax=vmax, value=value, curve=None,
    )
    expect(got_kw == expected, "keyword call differs from positional call")

LINEAR = [128 * i for i in range(257)]
rng = random.Random(20)


def random_monotone_curve():
    pts = sorted(rng.randint(0, 32768) for _ in range(257))
    return pts


CURVES = [None, LINEAR, [0] * 257, [32768] * 257,
          [min(32768, (i * i) // 2) for i in range(257)],
          random_monotone_curve(), random_monotone_curve()]

VALUES = sorted(set(list(range(0, 32769, 97)) + [0, 1, 127, 128, 129, 16383, 16384, 16385, 32639, 32640, 32641, 32767, 32768]))


def sweep(gain, qsteps, lo, hi, span, compact, curve, values=VALUES):
    """Mimic what on_value_changed hands to convert_value."""
    smin, smax, dmin, dmax = lo, hi, 0, span
    reverse = smin > smax
    if reverse:
        smin, smax, dmin, dmax = smax, smin, dmax, dmin
    vmax = None if compact else span
    out = [convert_value(gain, qsteps, smin, smax, dmin, dmax, vmax, v, curve) for v in values]
    for o in out:
        expect(type(o) is int, "convert_value must return int")
    return reverse, out


def check_monotone(reverse, out, what):
    pairs = list(zip(out, out[1:]))
    if reverse:
        expect(all(a >= b for a, b in pairs), f"not non-increasing: {what}")
    else:
        expect(all(a <= b for a, b in pairs), f"not non-decreasing: {what}")


# full value axis for a handful of tuples
FULL = list(range(32769))
for gain, qsteps, lo, hi, span, compact in [
    (256, 32768, 0, 32768, 256, False),
    (256, 32768, 32768, 0, 1024, False),
    (1024, 5, 1000, 30000, 32768, False),
    (77, 32767, 30000, 1000, 7, False),
    (256, 32768, 0, 256, 256, True),
    (271, 32768, 144, 128, 256, True),
    (512, 2, 0, 32768, 1, False),
    (0, 32768, 0, 32768, 100, False),
]:
    for curve in (None, LINEAR, CURVES[4]):
        reverse, out = sweep(gain, qsteps, lo, hi, span, compact, curve, FULL)
        record(gain, qsteps, lo, hi, span, compact, out)
        if not compact:
            expect(min(out) >= 0 and max(out) <= span, f"out of range {(gain, qsteps, lo, hi, span)}")
        check_monotone(reverse, out, (gain, qsteps, lo, hi, span, compact))

# sampled tuples, sampled values
for _ in range(1500):
    gain = rng.choice([0, 1, 128, 255, 256, 257, 300, 512, 1024, rng.randint(0, 1024)])
    qsteps = rng.choice([0, 1, 2, 3, 7, 100, 32767, 32768, rng.randint(0, 32768)])
    lo = rng.choice([0, 32768, rng.randint(0, 32768)])
    hi = rng.choice([0, 32768, lo, rng.randint(0, 32768)])
    span = rng.choice([1, 2, 7, 255, 256, 1000, 1024, 32768, rng.randint(1, 40000)])
    compact = rng.random() < 0.3
    curve = rng.choice(CURVES)
    if compact:
        lo, hi = min(lo, span), min(hi, span)
    reverse, out = sweep(gain, qsteps, lo, hi, span, compact, curve)
    record(gain, qsteps, lo, hi, span, compact, out)
    if not compact:
        expect(min(out) >= 0 and max(out) <= span, f"out of range {(gain, qsteps, lo, hi, span)}")
    check_monotone(reverse, out, (gain, qsteps, lo, hi, span, compact))

# direct calls with unusual argument combinations (float results, vmax None)
for args in [
    (256, 32768, 0, 32768, 0, 100, None, 12345),
    (256, 10, 0, 32768, 100, 0, None, 12345),
    (256, 32768, 10, 20, 5, 5, 3, 32768),
    (300, 32768, 0, 32768, 0, 0, 1, 40000),
    (1, 1, 0, 1, 0, 1, 1, 1),
]:
    record(args, convert_value(*args), convert_value(*args, LINEAR))

# ---------------------------------------------------------------- invert_value
for args in [
    (256, 0, 32768, 0, 1024, 1024, 512),
    (256, 32768, 0, 0, 1024, 1024, 0),
    (0, 0, 32768, 0, 1024, 1024, 512),
    (256, 100, 100, 0, 1024, 1024, 512),
    (512, 1000, 30000, -128, 128, 256, 5),
]:
    record(args, invert_value(*args))


# ---------------------------------------------------------------- in a project
def project_with_targets():
    p = Project()
    amp = p.new_module(m.Amplifier)
    ms = p.new_module(m.MultiSynth)
    gen = p.new_module(m.AnalogGenerator)
    flt = p.new_module(m.Filter)
    return p, amp, ms, gen, flt


p, amp, ms, gen, flt = project_with_targets()
mc = MultiCtl.macro(p, (amp, "volume"), (ms, "transpose"), (gen, "waveform"), (flt, flt.controllers["freq"]), name="fan", layer=2, x=10, y=20)
expect(isinstance(mc, MultiCtl), "macro returns a MultiCtl")
expect(mc.parent is p and p.modules[mc.index] is mc, "macro attaches the module")
expect(mc.name == "fan" and mc.layer == 2 and (mc.x, mc.y) == (10, 20), "macro placement")
expect(mc.out_links == [amp.index, ms.index, gen.index, flt.index], "macro links targets in order")
for t in (amp, ms, gen, flt):
    expect(mc.index in t.in_links, "target has in-link")
record([v.__dict__ for v in mc.mappings.values], mc.gain, mc.value)
expect(len(mc.mappings.values) == 16, "16 mapping slots")
expect(mc.mappings.values[0].__dict__ == dict(min=0, max=0x8000, controller=amp.controllers["volume"].number, flags=0, future_use2=0, future_use3=0, future_use4=0, future_use5=0), "mapping fields")
expect(list(mc.mappings.values[0].__dict__) == ["min", "max", "controller", "flags", "future_use2", "future_use3", "future_use4", "future_use5"], "mapping field order")
raw = mc.mappings.bytes
expect(len(raw) == 16 * 32, "mapping chunk size")
record(raw)
clone = MultiCtl()
clone.mappings.bytes = raw
expect([v.__dict__ for v in clone.mappings.values] == [v.__dict__ for v in mc.mappings.values], "mappings round trip")
chunks = list(mc.specialized_iff_chunks())
expect(chunks[:2] == [(b"CHNM", b"\0\0\0\0"), (b"CHDT", raw)], "mappings chunk is written first")
record(chunks)
loaded = MultiCtl()
for chunk_bytes, chnm in ((raw, 0), (mc.curve.bytes, 1)):
    loaded.load_chunk(type("C", (), {"chnm": chnm, "chdt": chunk_bytes}))
expect(loaded.mappings.bytes == raw and loaded.curve.values == mc.curve.values, "load_chunk restores mappings and curve")

for v in [0, 1, 100, 8192, 16384, 20000, 32767, 32768]:
    mc.value = v
    record(v, amp.volume, ms.transpose, repr(gen.waveform), flt.freq)
    for mod, name in ((amp, "volume"), (ms, "transpose"), (flt, "freq")):
        vt = mod.controllers[name].value_type
        got = getattr(mod, name)
        expect(vt.min <= got <= vt.max, f"{name}={got} outside {vt}")

# monotone delivery inside a project, normal and reversed windows, with gain/quantisation
p = Project()
amp1 = p.new_module(m.Amplifier)
amp2 = p.new_module(m.Amplifier)
ms1 = p.new_module(m.MultiSynth)
idle = p.new_module(m.Amplifier)
mc = p.new_module(m.MultiCtl)
mc >> amp1
mc >> amp2
mc >> ms1
mc >> idle
mp = mc.mappings.values
mp[0].min, mp[0].max, mp[0].controller = 32768, 0, amp1.controllers["volume"].number
mp[1].min, mp[1].max, mp[1].controller = 3000, 29000, amp2.controllers["balance"].number
mp[2].min, mp[2].max, mp[2].controller = 256, 0, ms1.controllers["transpose"].number
expect(mp[3].controller == 0, "default mapping names no controller")
idle.volume = 333
for gain, q, curve in [(256, 32768, None), (100, 32768, None), (1024, 9, None), (256, 32768, [32768 - 128 * i for i in range(257)][::-1]), (300, 1000, CURVES[4])]:
    mc.gain = gain
    mc.quantization = q
    if curve is not None:
        mc.curve.values = list(curve)
    seen = []
    for v in range(0, 32769, 251):
        mc.value = v
        seen.append((amp1.volume, amp2.balance, ms1.transpose))
        expect(0 <= amp1.volume <= 1024, "amp1.volume range")
        expect(-128 <= amp2.balance <= 128, "amp2.balance range")
        expect(-128 <= ms1.transpose <= 128, "ms1.transpose range")
        expect(idle.volume == 333, "unmapped link must leave its target untouched")
    record(gain, q, seen)
    a, b, c = zip(*seen)
    check_monotone(True, list(a), "amp1.volume reversed")
    check_monotone(False, list(b), "amp2.balance normal")
    check_monotone(True, list(c), "ms1.transpose reversed")

# a detached MultiCtl, or a non-propagating set, does nothing
loose = MultiCtl()
loose.value = 100
expect(loose.value == 100, "detached MultiCtl keeps its value")
before = (amp1.volume, amp2.balance)
mc.on_value_changed(5, down=False, up=True)
expect((amp1.volume, amp2.balance) == before, "down=False must not fan out")

# reflect
mc.gain = 256
mc.quantization = 32768
mc.curve.values = list(LINEAR)
for vol in (0, 1, 256, 1000, 1024):
    amp1.volume = vol
    mc.reflect(0)
    record(vol, mc.value, amp2.balance, ms1.transpose)
amp2.balance = 17
mc.reflect(1, propagate=False)
record(mc.value, amp1.volume)
for bad in (3, 4, 99):
    try:
        mc.reflect(bad)
    except IndexError as e:
        record(bad, str(e))
    else:
        expect(False, f"reflect({bad}) must raise IndexError")

# macro: typed gains, initial, and the two refusals
p, amp, ms, gen, flt = project_with_targets()
one = MultiCtl.macro(p, (gen, "waveform"))
record(one.gain, one.mappings.values[0].__dict__, one.name)
two = MultiCtl.macro(p, (amp, "inverse"), initial=32768)
record(two.gain, two.mappings.values[0].__dict__, amp.inverse)
three = MultiCtl.macro(p, (ms, "transpose"), (flt, "freq"), initial=16384)
record(three.gain, [v.__dict__ for v in three.mappings.values[:2]], ms.transpose, flt.freq)
four = MultiCtl.macro(p, (gen, "polyphony"), (amp, "volume"))
record(four.gain, [v.__dict__ for v in four.mappings.values[:2]])
five = MultiCtl.macro(p, (gen, "polyphony"))
record(five.gain, five.mappings.values[0].__dict__)
none = MultiCtl.macro(p)
record(none.gain, none.out_links)
for mod in p.modules[1:]:
    for name, ctl in mod.controllers.items():
        if mod.mtype == "MultiCtl":
            continue
        q = Project()
        target = q.new_module(type(mod))
        try:
            b = MultiCtl.macro(q, (target, name), initial=20000)
        except Exception as e:  # same failure is part of the behaviour
            record(mod.mtype, name, type(e).__name__)
            continue
        got = getattr(target, name)
        record(mod.mtype, name, b.gain, b.mappings.values[0].__dict__, repr(got))
        vt = ctl.instance_value_type(target)
        if isinstance(vt, Range):
            expect(vt.min <= got <= vt.max, f"{mod.mtype}.{name}={got} outside {vt}")

q = Project()
amps = [q.new_module(m.Amplifier) for _ in range(17)]
n_before = len(q.modules)
try:
    MultiCtl.macro(q, *[(a, "volume") for a in amps])
except MappingError as e:
    record(str(e))
    expect(isinstance(e, ValueError), "MappingError is a ValueError")
else:
    expect(False, "17 targets must be refused")
expect(len(q.modules) == n_before, "refused macro must not add a module")
sixteen = MultiCtl.macro(q, *[(a, "volume") for a in amps[:16]], initial=8192)
expect(all(a.volume == 256 for a in amps[:16]) and amps[16].volume == 256, "16 targets driven")
expect(len(sixteen.out_links) == 16, "16 links")
n_before = len(q.modules)
try:
    MultiCtl.macro(q, (amps[0], "volume"), (amps[1], "volume"), (amps[0], "balance"))
except MappingError as e:
    record(str(e))
else:
    expect(False, "two targets on one module must be refused")
expect(len(q.modules) == n_before, "refused macro must not add a module")

# reflect from enum / bool / compact destinations, and fan-out to them (no-op)
p = Project()
gen = p.new_module(m.AnalogGenerator)
amp = p.new_module(m.Amplifier)
ms = p.new_module(m.MultiSynth)
rmc = p.new_module(m.MultiCtl)
rmc >> gen
rmc >> amp
rmc >> ms
rmp = rmc.mappings.values
rmp[0].controller = gen.controllers["waveform"].number
rmp[1].controller = amp.controllers["inverse"].number
rmp[1].min, rmp[1].max = 20000, 100
rmp[2].controller = ms.controllers["transpose"].number
rmp[2].min, rmp[2].max = 0, 256
for wf in list(type(gen.waveform)):
    gen.waveform = wf
    for inv in (False, True):
        amp.inverse = inv
        for tr in (-128, -1, 0, 77, 128):
            ms.transpose = tr
            row = []
            for index in (0, 1, 2):
                rmc.reflect(index, propagate=False)
                row.append(rmc.value)
            rmc.reflect(2)
            row.append((rmc.value, ms.transpose, repr(gen.waveform), amp.inverse))
            expect(gen.waveform is wf and amp.inverse is inv, "non-range targets are left alone by fan-out")
            record(repr(wf), inv, tr, row)
rmc.gain = 0
rmc.reflect(2)
record(rmc.value)
rmp[2].min = rmp[2].max = 5
rmc.gain = 256
rmc.reflect(2)
record(rmc.value)
rmp[2].controller = 0
try:
    rmc.reflect(2)
except IndexError as e:
    record(str(e))
else:
    expect(False, "reflect of an unmapped link must raise IndexError")
rmp[0].controller = 99
for action in (lambda: rmc.reflect(0), lambda: setattr(rmc, "value", 5)):
    try:
        action()
    except IndexError as e:
        record("bad controller number", str(e))
    else:
        expect(False, "a controller number past the end must raise IndexError")

GOLDEN = "3c500e20eec64ac3d2ceed09af1a9bbf997d3dbda9adac4bb5f2c39be3692480"
got = digest.hexdigest()
if "--print-digest" in sys.argv:
    print(got)
    sys.exit(0)
expect(got == GOLDEN, f"behaviour digest changed: {got}")

if failures:
    print("FAIL")
    for f in failures[:20]:
        print("  ", f)
    sys.exit(1)
print("PASS")
