"""C20-1: behaviour of MultiCtl.macro (window/gain selection, linking, errors).

Runs against whichever rv is on PYTHONPATH; must PASS before and after the patch.
"""
import inspect
import sys
from enum import Enum

import rv.modules as rvm
from rv.api import Project
from rv.controller import CompactRange, Controller, Range
from rv.errors import MappingError
from rv.modules import Module, MultiCtl

failures = []


def check(cond, msg):
    if not cond:
        failures.append(msg)


def module_classes():
    out = []
    for name in sorted(dir(rvm)):
        obj = getattr(rvm, name)
        if inspect.isclass(obj) and issubclass(obj, Module) and obj is not Module:
            if obj.__name__ == "Output":
                continue
            out.append(obj)
    return out


def expected_window(t):
    """Independent statement of the documented selection rule."""
    if isinstance(t, type) and issubclass(t, Enum):
        return (0, len(t) - 1, 256 + int(256 / (len(t) - 1)))
    if t is bool:
        return (0, 1, 512)
    if t.min == 1:
        return (1, t.max, 256 + int(256 / t.max))
    if isinstance(t, CompactRange):
        return (0, t.max - t.min, 256)
    return (0, 32768, 256)


def fields(mp):
    return (
        mp.min,
        mp.max,
        mp.controller,
        mp.flags,
        mp.future_use2,
        mp.future_use3,
        mp.future_use4,
        mp.future_use5,
    )


DEFAULT_FIELDS = (0, 0x8000, 0, 0, 0, 0, 0, 0)
SWEEP = sorted(set(list(range(0, 32769, 257)) + [0, 1, 127, 128, 129, 16383, 16384, 32767, 32768]))

n_single = 0
classes = module_classes()
check(len(classes) > 30, "too few module classes found")

# --- 1. one target: every controller of every module type, by name and by object
for cls in classes:
    for cname, cobj in cls.controllers.items():
        for by_object in (False, True):
            p = Project()
            filler = p.new_module(rvm.Amplifier)
            mod = p.new_module(cls)
            t = cobj.instance_value_type(mod)
            label = f"{cls.__name__}.{cname} by_object={by_object}"
            try:
                exp = expected_window(t)
                exp_exc = None
            except Exception as e:  # e.g. value type None / single-member enum
                exp, exp_exc = None, type(e)
            n_before = len(p.modules)
            try:
                mc = MultiCtl.macro(
                    p, (mod, cobj if by_object else cname), name="mc", layer=3, x=11, y=22
                )
            except Exception as e:
                check(exp_exc is type(e), f"{label}: unexpected {type(e).__name__}: {e}")
                check(len(p.modules) == n_before, f"{label}: module leaked after failure")
                continue
            check(exp_exc is None, f"{label}: expected {exp_exc}")
            if exp_exc is not None:
                continue
            n_single += 1
            check(isinstance(mc, MultiCtl), f"{label}: type")
            check(mc.parent is p and p.modules[mc.index] is mc, f"{label}: not attached")
            check(len(p.modules) == n_before + 1, f"{label}: module count")
            check((mc.name, mc.layer, mc.x, mc.y) == ("mc", 3, 11, 22), f"{label}: placement")
            check(mc.gain == exp[2], f"{label}: gain {mc.gain} != {exp[2]}")
            check(mc.value == 0 and mc.quantization == 32768, f"{label}: defaults")
            check(
                fields(mc.mappings.values[0]) == (exp[0], exp[1], cobj.number, 0, 0, 0, 0, 0),
                f"{label}: mapping {fields(mc.mappings.values[0])}",
            )
            check(len(mc.mappings.values) == 16, f"{label}: mapping count")
            for other in mc.mappings.values[1:]:
                check(fields(other) == DEFAULT_FIELDS, f"{label}: non-default trailing mapping")
            check(mc.out_links == [mod.index], f"{label}: out_links {mc.out_links}")
            check(mod.in_links == [mc.index], f"{label}: in_links {mod.in_links}")
            check(filler.in_links == [] and filler.out_links == [], f"{label}: filler linked")
            # fan-out: ranged targets stay in range and are monotone
            # (a bare MetaModule has no embedded project to forward values to)
            if isinstance(t, Range) and cls is not rvm.MetaModule:
                prev = None
                for v in SWEEP:
                    mc.value = v
                    got = getattr(mod, cname)
                    check(t.min <= got <= t.max, f"{label}: value {v} -> {got} out of range")
                    check(prev is None or got >= prev, f"{label}: not monotone at {v}")
                    prev = got

# --- 2. `initial` is applied after linking, so it reaches the target
p = Project()
amp = p.new_module(rvm.Amplifier)
mc = MultiCtl.macro(p, (amp, "volume"), initial=16384)
check(mc.value == 16384 and amp.volume == 512, f"initial: {mc.value} {amp.volume}")
check(mc.name == "MultiCtl" and (mc.layer, mc.x, mc.y) == (0, 0, 0), "default placement")
mc0 = MultiCtl.macro(p, (p.new_module(rvm.Amplifier), "volume"), initial=0)
check(mc0.value == 0, "initial=0")

# --- 3. no targets at all
p = Project()
mc = MultiCtl.macro(p)
check(mc.gain == 256 and mc.out_links == [], "empty macro")
check(all(fields(x) == DEFAULT_FIELDS for x in mc.mappings.values), "empty macro mappings")

# --- 4. gain: shared only if every target agrees
p = Project()
g = [p.new_module(rvm.Generator) for _ in range(3)]
a = p.new_module(rvm.Amplifier)
lfo = p.new_module(rvm.Lfo)
mc = MultiCtl.macro(p, (g[0], "waveform"), (g[1], "waveform"))
exp_gain = expected_window(rvm.Generator.controllers["waveform"].value_type)[2]
check(mc.gain == exp_gain and exp_gain != 256, f"agreeing gains: {mc.gain}")
check(mc.out_links == [g[0].index, g[1].index], "agreeing gains links")
mc = MultiCtl.macro(p, (g[2], "waveform"), (a, "volume"))
check(mc.gain == 256, f"disagreeing gains: {mc.gain}")
check([fields(x)[:3] for x in mc.mappings.values[:2]] == [
    (0, len(rvm.Generator.controllers["waveform"].value_type) - 1,
     rvm.Generator.controllers["waveform"].number),
    (0, 32768, rvm.Amplifier.controllers["volume"].number),
], "mixed mappings")
bool_ctls = [(c, n) for c in classes for n, o in c.controllers.items() if o.value_type is bool]
check(bool_ctls, "no bool controller found")
if bool_ctls:
    c, n = bool_ctls[0]
    m1, m2 = p.new_module(c), p.new_module(c)
    check(MultiCtl.macro(p, (m1, n), (m2, n)).gain == 512, "bool gain")
    check(MultiCtl.macro(p, (m1, n), (lfo, "amplitude")).gain == 256, "bool+range gain")

# --- 5. limits: 16 targets fine, 17 refused, duplicates refused; nothing is created
p = Project()
amps = [p.new_module(rvm.Amplifier) for _ in range(17)]
mc = MultiCtl.macro(p, *[(x, "volume") for x in amps[:16]], initial=32768)
check(mc.out_links == [x.index for x in amps[:16]], "16 targets linked in order")
check(all(x.volume == 1024 for x in amps[:16]) and amps[16].volume == 256, "16 targets driven")
check(
    [mp.controller for mp in mc.mappings.values] == [amps[0].controllers["volume"].number] * 16,
    "16 mappings filled",
)
for label, pairs in (
    ("17 targets", [(x, "volume") for x in amps]),
    ("17 targets, duplicate too", [(amps[0], "volume")] * 17),
):
    n_before = len(p.modules)
    try:
        MultiCtl.macro(p, *pairs)
        check(False, f"{label}: accepted")
    except MappingError as e:
        check("16" in str(e), f"{label}: message {e}")
    check(len(p.modules) == n_before, f"{label}: module created")
for label, pairs in (
    ("duplicate adjacent", [(amps[0], "volume"), (amps[0], "balance")]),
    ("duplicate apart", [(amps[0], "volume"), (amps[1], "volume"), (amps[0], "volume")]),
    ("duplicate of 16", [(x, "volume") for x in amps[:15]] + [(amps[3], "balance")]),
):
    n_before = len(p.modules)
    links_before = [list(x.in_links) for x in amps]
    try:
        MultiCtl.macro(p, *pairs)
        check(False, f"{label}: accepted")
    except MappingError as e:
        check("one MultiCtl mapping per destination" in str(e), f"{label}: message {e}")
    check(len(p.modules) == n_before, f"{label}: module created")
    check(links_before == [list(x.in_links) for x in amps], f"{label}: links changed")

# --- 6. bad controller name / foreign index are reported before anything is created
p = Project()
amp = p.new_module(rvm.Amplifier)
for label, pairs, exc in (
    ("unknown controller", [(amp, "nope")], KeyError),
    ("detached module", [(rvm.Amplifier(), "volume")], TypeError),
):
    n_before = len(p.modules)
    try:
        MultiCtl.macro(p, *pairs)
        check(False, f"{label}: accepted")
    except exc:
        pass
    check(len(p.modules) == n_before, f"{label}: module created")

# --- 7. the module is resolved through the project by index
p1, p2 = Project(), Project()
a1 = p1.new_module(rvm.Amplifier)
a2 = p2.new_module(rvm.Amplifier)
mc = MultiCtl.macro(p1, (a2, "volume"), initial=32768)
check(mc.out_links == [a1.index] and a1.volume == 1024 and a2.volume == 256, "index lookup")

check(n_single > 400, f"only {n_single} single-target cases ran")
if failures:
    print("FAIL")
    for f in failures[:40]:
        print("  ", f)
    sys.exit(1)
print(f"PASS ({n_single} single-target cases)")
