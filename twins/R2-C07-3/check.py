"""Behaviour check for the link-table bookkeeping of Project.connect() (C07-3).

Compares the four per-module link lists against a reference model over
exhaustive and random connect/disconnect histories, and pins down in-place
mutation, slot numbering, freed (-1) slots, fresh-module tables and what
happens on hand-damaged tables.
"""
import itertools
import random
import sys
from io import BytesIO

from rv.api import Project, m, read_sunvox_file
from rv.errors import ModuleOwnershipError
from rv.modules.module import DisconnectingModule, Module, ModuleList

MESSAGE = "Modules must have same parent to be connected or disconnected"


class Model:
    """Reference semantics of the four parallel link lists per module."""

    def __init__(self, n):
        self.t = {i: dict(il=[], ils=[], ol=[], ols=[]) for i in range(n)}

    def apply(self, froms, tos, disconnect_flags):
        for f in froms:
            for t in tos:
                disc = disconnect_flags[("f", f)] or disconnect_flags[("t", t)]
                dst, src = self.t[t], self.t[f]
                if disc:
                    if f not in dst["il"]:
                        continue
                    i = dst["il"].index(f)
                    o = src["ol"].index(t)
                    dst["il"][i] = -1
                    src["ol"][o] = -1
                    dst["ils"][i] = -1
                    src["ols"][o] = -1
                    continue
                if f in dst["il"]:
                    continue
                i = len(dst["il"])
                dst["il"].append(f)
                o = len(src["ol"])
                src["ol"].append(t)
                dst["ils"].append(o)
                src["ols"].append(i)

    def snapshot(self):
        return [
            (v["il"], v["ils"], v["ol"], v["ols"]) for _, v in sorted(self.t.items())
        ]


def snapshot(project):
    return [
        (mod.in_links, mod.in_link_slots, mod.out_links, mod.out_link_slots)
        for mod in project.modules
    ]


def consistent(project):
    for mod in project.modules:
        assert len(mod.in_links) == len(mod.in_link_slots)
        assert len(mod.out_links) == len(mod.out_link_slots)
        for slot, (peer, peer_slot) in enumerate(zip(mod.in_links, mod.in_link_slots)):
            if peer == -1:
                assert peer_slot == -1
                continue
            src = project.modules[peer]
            assert src.out_links[peer_slot] == mod.index
            assert src.out_link_slots[peer_slot] == slot
        for slot, (peer, peer_slot) in enumerate(
            zip(mod.out_links, mod.out_link_slots)
        ):
            if peer == -1:
                assert peer_slot == -1
                continue
            dst = project.modules[peer]
            assert dst.in_links[peer_slot] == mod.index
            assert dst.in_link_slots[peer_slot] == slot
        live = [x for x in mod.in_links if x != -1]
        assert len(live) == len(set(live))


def edges(project):
    return {
        (src, mod.index)
        for mod in project.modules
        for src in mod.in_links
        if src != -1
    }


def new_project(n):
    p = Project()
    for _ in range(n - 1):
        p.new_module(m.Amplifier)
    return p


def operand(project, idxs, marks, single):
    mods = [~project.modules[i] if k else project.modules[i] for i, k in zip(idxs, marks)]
    return mods[0] if single else mods


def run_op(project, model, f_idx, f_marks, f_single, t_idx, t_marks, t_single):
    froms = operand(project, f_idx, f_marks, f_single)
    tos = operand(project, t_idx, t_marks, t_single)
    assert project.connect(froms, tos) is None
    flags = {("f", i): k for i, k in zip(f_idx, f_marks)}
    flags.update({("t", i): k for i, k in zip(t_idx, t_marks)})
    model.apply(f_idx, t_idx, flags)
    assert snapshot(project) == model.snapshot(), (snapshot(project), model.snapshot())
    consistent(project)


def exhaustive_small():
    # every history of length <= 3 over single-pair ops on 3 modules, with the
    # disconnect marker on neither, from, to, or both sides
    n = 3
    ops = [
        (f, t, fm, tm)
        for f in range(n)
        for t in range(n)
        for fm, tm in ((0, 0), (1, 0), (0, 1), (1, 1))
    ]
    count = 0
    for length in (1, 2, 3):
        pool = ops if length < 3 else [o for o in ops if o[0] != o[1]][::2]
        for history in itertools.product(pool, repeat=length):
            p, model = new_project(n), Model(n)
            expected = set()
            for f, t, fm, tm in history:
                run_op(p, model, [f], [fm], True, [t], [tm], True)
                if fm or tm:
                    expected.discard((f, t))
                else:
                    expected.add((f, t))
                assert edges(p) == expected
            count += 1
    return count


def random_histories(seed, rounds):
    rng = random.Random(seed)
    for _ in range(rounds):
        n = rng.randint(2, 6)
        p, model = new_project(n), Model(n)
        expected = set()
        for _ in range(rng.randint(1, 14)):
            f_single = rng.random() < 0.4
            t_single = rng.random() < 0.4
            f_idx = rng.sample(range(n), 1 if f_single else rng.randint(0, n))
            t_idx = rng.sample(range(n), 1 if t_single else rng.randint(0, n))
            mode = rng.choice(["connect", "connect", "disc_from", "disc_to", "mixed"])
            if mode == "connect":
                f_marks, t_marks = [0] * len(f_idx), [0] * len(t_idx)
            elif mode == "disc_from":
                f_marks, t_marks = [1] * len(f_idx), [0] * len(t_idx)
            elif mode == "disc_to":
                f_marks, t_marks = [0] * len(f_idx), [1] * len(t_idx)
            else:
                f_marks = [rng.randint(0, 1) for _ in f_idx]
                t_marks = [rng.randint(0, 1) for _ in t_idx]
            run_op(p, model, f_idx, f_marks, f_single, t_idx, t_marks, t_single)
            for f, fm in zip(f_idx, f_marks):
                for t, tm in zip(t_idx, t_marks):
                    if fm or tm:
                        expected.discard((f, t))
                    else:
                        expected.add((f, t))
            assert edges(p) == expected


def fresh_tables():
    names = ("in_links", "in_link_slots", "out_links", "out_link_slots")
    loose = m.Amplifier()
    p = Project()
    mods = [loose, p.output, p.new_module(m.Amplifier), p.new_module(m.MetaModule)]
    mods.append(p.new_module(m.MultiCtl))
    for mod in mods:
        tables = [getattr(mod, name) for name in names]
        assert tables == [[], [], [], []]
        assert all(type(t) is list for t in tables)
        assert len({id(t) for t in tables}) == 4
        for name in names:
            assert name in vars(mod)
        keys = [k for k in vars(mod) if k in names]
        assert keys == list(names), keys
    a, b = m.Amplifier(), m.Amplifier()
    assert a.in_links is not b.in_links and a.out_link_slots is not b.out_link_slots


def in_place_and_slots():
    p = new_project(5)
    o, a, b, c, d = p.modules
    ids = {
        (mod.index, name): id(getattr(mod, name))
        for mod in p.modules
        for name in ("in_links", "in_link_slots", "out_links", "out_link_slots")
    }
    il, ils, ol, ols = o.in_links, o.in_link_slots, a.out_links, a.out_link_slots
    p.connect([a, b, c], [o, d])
    assert il == [1, 2, 3] and ils == [0, 0, 0]
    assert ol == [0, 4] and ols == [0, 0]
    assert d.in_links == [1, 2, 3] and d.in_link_slots == [1, 1, 1]
    assert c.out_links == [0, 4] and c.out_link_slots == [2, 2]
    p.connect(~b, [o, d, c])
    assert il == [1, -1, 3] and ils == [0, -1, 0]
    assert b.out_links == [-1, -1] and b.out_link_slots == [-1, -1]
    assert d.in_links == [1, -1, 3] and d.in_link_slots == [1, -1, 1]
    assert c.in_links == [] and c.in_link_slots == []
    # repeated disconnect is a no-op, repeated connect too
    snap = [tuple(list(t) for t in row) for row in snapshot(p)]
    p.connect(~b, [o, d])
    p.connect([a, c], [d, o])
    assert snapshot(p) == snap
    # reconnect goes to fresh slots on both ends; the freed ones stay freed
    p.connect(b, o)
    assert il == [1, -1, 3, 2] and ils == [0, -1, 0, 2]
    assert b.out_links == [-1, -1, 0] and b.out_link_slots == [-1, -1, 3]
    p.connect(~b, o)
    p.connect(b, o)
    assert il == [1, -1, 3, -1, 2] and ils == [0, -1, 0, -1, 3]
    assert b.out_links == [-1, -1, -1, 0] and b.out_link_slots == [-1, -1, -1, 4]
    # two-way link between a pair uses independent entries
    p.connect(o, a)
    assert a.in_links == [0] and a.in_link_slots == [0]
    assert o.out_links == [1] and o.out_link_slots == [0]
    p.connect(~a, o)
    assert il == [-1, -1, 3, -1, 2] and ol == [-1, 4] and ols == [-1, 0]
    assert a.in_links == [0] and o.out_links == [1]
    # self link
    p.connect(d, d)
    assert d.in_links == [1, -1, 3, 4] and d.in_link_slots == [1, -1, 1, 0]
    assert d.out_links == [4] and d.out_link_slots == [3]
    p.connect(d, ~d)
    assert d.in_links == [1, -1, 3, -1] and d.out_links == [-1]
    assert d.in_link_slots == [1, -1, 1, -1] and d.out_link_slots == [-1]
    consistent(p)
    for mod in p.modules:
        for name in ("in_links", "in_link_slots", "out_links", "out_link_slots"):
            assert id(getattr(mod, name)) == ids[(mod.index, name)]
            assert all(type(x) is int for x in getattr(mod, name))
    # a reloaded project keeps working with connect()
    f = BytesIO()
    p.write_to(f)
    f.seek(0)
    q = read_sunvox_file(f)
    assert q.modules[0].in_links == [-1, -1, 3, -1, 2]
    q.connect(q.modules[1], q.modules[0])
    q.connect(~q.modules[3], q.modules[0])
    assert q.modules[0].in_links == [-1, -1, -1, -1, 2, 1]
    assert q.modules[1].out_links[q.modules[0].in_link_slots[5]] == 0
    assert -1 not in [x for x in q.modules[3].out_links if x == 0]


def damaged_tables():
    # source end lost its entry: lookup fails before anything is blanked
    p = new_project(3)
    o, a, b = p.modules
    p.connect(a, o)
    del a.out_links[:]
    try:
        p.connect(~a, o)
    except ValueError:
        pass
    else:
        raise AssertionError("expected ValueError")
    assert o.in_links == [1] and o.in_link_slots == [0] and a.out_link_slots == [0]
    # slot list shorter than link list: both link entries blanked, then IndexError
    p = new_project(3)
    o, a, b = p.modules
    p.connect([a, b], o)
    del o.in_link_slots[1:]
    try:
        p.connect(~b, o)
    except IndexError:
        pass
    else:
        raise AssertionError("expected IndexError")
    assert o.in_links == [1, -1] and b.out_links == [-1]
    assert o.in_link_slots == [0] and b.out_link_slots == [1]
    # sink end lost its entry but source kept it: connect re-adds on both ends
    p = new_project(3)
    o, a, b = p.modules
    p.connect(a, o)
    o.in_links[0] = -1
    p.connect(a, o)
    assert o.in_links == [-1, 1] and o.in_link_slots == [0, 1]
    assert a.out_links == [0, 0] and a.out_link_slots == [0, 1]
    p.connect(~a, o)  # first matching entry on the source end is the one freed
    assert o.in_links == [-1, -1] and o.in_link_slots == [0, -1]
    assert a.out_links == [-1, 0] and a.out_link_slots == [-1, 1]
    # one list object shared by both directions of a module
    p = new_project(2)
    o, a = p.modules
    a.out_links = a.in_links
    p.connect(a, a)
    assert a.in_links == [1, 1] and a.in_link_slots == [1] and a.out_link_slots == [0]
    # a module without tables fails before the peer is touched
    p = new_project(3)
    o, a, b = p.modules
    del a.out_link_slots
    for args in ((a, o), (~a, o)):
        try:
            p.connect(*args)
        except AttributeError:
            pass
        else:
            raise AssertionError("expected AttributeError")
    assert o.in_links == [] and a.out_links == []
    del b.in_link_slots
    try:
        p.connect(o, b)
    except AttributeError:
        pass
    else:
        raise AssertionError("expected AttributeError")
    assert b.in_links == [] and o.out_links == []
    # foreign modules are still refused, with nothing recorded
    q = new_project(2)
    try:
        p.connect(o, q.modules[1])
    except ModuleOwnershipError:
        pass
    else:
        raise AssertionError("expected ModuleOwnershipError")
    assert o.out_links == [] and q.modules[1].in_links == []


def main():
    n = exhaustive_small()
    assert n > 1000
    random_histories(4321, 400)
    fresh_tables()
    in_place_and_slots()
    damaged_tables()
    print("PASS")


if __name__ == "__main__":
    main()
    sys.exit(0)
