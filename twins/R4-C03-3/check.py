"""Behaviour check for the Sampler and MetaModule module-specific chunks
(property C03): Sampler.specialized_iff_chunks / global_config_chunks /
sample_chunks / Envelope.chunks / point_bytes and
MetaModule.specialized_iff_chunks / MappingArray.

The fixed-layout records are decoded with independent struct formats and
compared with the objects' public state; every output is also compared with
digests recorded on the unmodified tree.

Run from the repository root:
    PYTHONPATH=<root>/src/python python check.py
"""
import hashlib
import io
import itertools
import logging
import os
import struct
import sys
from pathlib import Path

import rv.api as rv
from rv.modules.metamodule import MetaModule
from rv.modules.sampler import Sampler, _StructWriter
from rv.note import NOTE
from rv.project import Project
from rv.readers.reader import read_sunvox_file
from rv.synth import Synth

logging.disable(logging.CRITICAL)  # reading back odd mappings logs range warnings

ROOT = Path(os.getcwd())
FILES = ROOT / "tests" / "files"

failures = []
digests = {}

INSTRUMENT = struct.Struct("<I22sHHHI96s48s48s10B4BHBbBbI4sI128sIii")
SAMPLE_HEADER = struct.Struct("<IIIBbBBbB22sI")
assert INSTRUMENT.size == 400 and SAMPLE_HEADER.size == 44


def check(cond, msg):
    if not cond:
        failures.append(msg)


def record(label, data):
    digests[label] = hashlib.sha256(data).hexdigest()[:20]


def u32(v):
    return struct.pack("<I", v)


def blocks(chunks):
    """Group a CHNM/CHDT/CHFF/CHFR sequence into dicts."""
    out = []
    for cid, payload in chunks:
        if cid is None:
            continue
        if cid == b"CHNM":
            out.append({"chnm": struct.unpack("<I", payload)[0]})
        else:
            assert out and cid not in out[-1], cid
            out[-1][cid] = payload
    return out


def flat(chunks):
    return b"".join(c + u32(len(p)) + p for c, p in chunks if c is not None)


def legacy_points(env):
    pts = [(x, y // 0x200 - env.range[0] // 0x200) for x, y in env.points][:12]
    pts += [(0, -(env.range[0] // 0x200))] * (12 - len(pts))
    return struct.pack("<24H", *itertools.chain.from_iterable(pts))


def verify_sampler(label, s):
    chunks = list(s.specialized_iff_chunks())
    record(label, flat(chunks))
    check(all(type(c) is tuple and len(c) == 2 for c in chunks), f"{label}: 2-tuples")
    bl = blocks(chunks)
    numbers = [b["chnm"] for b in bl]
    check(all(n < s.chnk for n in numbers), f"{label}: CHNM below CHNK")
    used = [i for i, smp in enumerate(s.samples) if smp is not None]
    expected_numbers = [0]
    for i in used:
        expected_numbers += [2 * i + 1, 2 * i + 2]
    expected_numbers += [0x101, 0x102, 0x103, 0x104, 0x105, 0x106, 0x107, 0x108]
    if s.effect:
        expected_numbers.append(0x10A)
    check(numbers == expected_numbers, f"{label}: chunk numbers {numbers}")

    # instrument record
    ins = bl[0][b"CHDT"]
    check(len(ins) == 400, f"{label}: instrument record is {len(ins)} bytes")
    f = INSTRUMENT.unpack(ins)
    vol, pan = s.volume_envelope, s.panning_envelope
    exp = (
        s.unused1,
        s.instrument_name.ljust(22, b"\0")[:22],
        s.unused2,
        (used[-1] + 1) if used else 0,
        s.unused3,
        s.unused4,
        bytes(s.note_samples.values())[:96],
        legacy_points(vol),
        legacy_points(pan),
        len(vol.points),
        len(pan.points),
        vol.sustain_point,
        vol.loop_start_point,
        vol.loop_end_point,
        pan.sustain_point,
        pan.loop_start_point,
        pan.loop_end_point,
        int(vol.enable) | int(vol.sustain) << 1 | int(vol.loop) << 2,
        int(pan.enable) | int(pan.sustain) << 1 | int(pan.loop) << 2,
        s.vibrato_type.value,
        s.vibrato_attack,
        s.vibrato_depth,
        s.vibrato_rate,
        s.volume_fadeout,
        s.volume_old,
        s.ins_finetune,
        s.unused5,
        s.ins_relative_note,
        s.unused6,
        b"PMAS",
        s.version,
        bytes(s.note_samples.values()).ljust(128, b"\0"),
        s.max_version,
        s.editor_cursor,
        s.editor_selected_size,
    )
    check(f == exp, f"{label}: instrument fields {[i for i, (a, b) in enumerate(zip(f, exp)) if a != b]}")
    check(list(s.global_config_chunks()) == [(b"CHNM", u32(0)), (b"CHDT", ins)], f"{label}: global_config_chunks")

    # samples
    pos = 1
    for i in used:
        smp = s.samples[i]
        head, body = bl[pos], bl[pos + 1]
        pos += 2
        check(set(head) == {"chnm", b"CHDT"}, f"{label}: sample {i} header block keys")
        check(len(head[b"CHDT"]) == 44, f"{label}: sample {i} header size")
        h = SAMPLE_HEADER.unpack(head[b"CHDT"])
        fmt_bits = {1: 0x00, 2: 0x10, 4: 0x20}[int(smp.format)]
        type_byte = smp.loop_type.value | fmt_bits | (0x40 if int(smp.channels) == 8 else 0) | (4 if smp.loop_sustain else 0)
        bytes_per_frame = {1: 1, 2: 2, 4: 4}[int(smp.format)] * (2 if int(smp.channels) == 8 else 1)
        exp_h = (
            len(smp.data) // bytes_per_frame,
            smp.loop_start,
            smp.loop_len,
            smp.volume,
            smp.finetune,
            type_byte,
            smp.panning + 128,
            smp.relative_note,
            smp.reserved2,
            smp.name.ljust(22, b"\0")[:22],
            smp.start_pos,
        )
        check(h == exp_h, f"{label}: sample {i} header {h} != {exp_h}")
        check(body[b"CHDT"] == smp.data, f"{label}: sample {i} data")
        check(body[b"CHFF"] == u32(int(smp.format) | int(smp.channels)), f"{label}: sample {i} CHFF")
        check(body[b"CHFR"] == u32(smp.rate), f"{label}: sample {i} CHFR")
        check(list(s.sample_chunks(i, smp)) == [
            (b"CHNM", u32(2 * i + 1)), (b"CHDT", head[b"CHDT"]),
            (b"CHNM", u32(2 * i + 2)), (b"CHDT", smp.data), (b"CHFF", body[b"CHFF"]), (b"CHFR", body[b"CHFR"]),
        ], f"{label}: sample_chunks({i})")
    check(flat(s.sample_data_chunks()) == flat(chunks[2 : 2 + 6 * len(used)]), f"{label}: sample_data_chunks")

    # options block
    check(bl[pos]["chnm"] == 0x101, f"{label}: options block position")
    pos += 1
    # envelopes
    envs = [s.volume_envelope, s.panning_envelope, s.pitch_envelope] + list(s.effect_control_envelopes)
    for env in envs:
        b = bl[pos]
        pos += 1
        check(b["chnm"] == env.chnm, f"{label}: envelope chnm {env.chnm:x}")
        d = b[b"CHDT"]
        check(len(d) == 20 + 4 * len(env.points), f"{label}: envelope {env.chnm:x} size")
        head = struct.unpack("<HBBB3sHHHH4s", d[:20])
        bitmask = int(env.enable) | int(env.sustain) << 1 | int(env.loop) << 2
        check(head == (bitmask, env.ctl_index, env.gain_pct, env.velocity, b"\0\0\0", len(env.points),
                       env.sustain_point, env.loop_start_point, env.loop_end_point, b"\0\0\0\0"),
              f"{label}: envelope {env.chnm:x} header")
        pts = [struct.unpack_from("<HH", d, 20 + 4 * k) for k in range(len(env.points))]
        check(pts == [(x, y - env.range[0]) for x, y in env.points], f"{label}: envelope {env.chnm:x} points")
        check(list(env.chunks()) == [(b"CHNM", u32(env.chnm)), (b"CHDT", d)], f"{label}: Envelope.chunks")
        check(type(d) is bytes, f"{label}: CHDT is bytes")
        check(env.point_bytes == legacy_points(env), f"{label}: point_bytes {env.chnm:x}")
        check(len(env._x_values) == 12 and len(env._y_values) == 12, f"{label}: legacy columns")
    if s.effect:
        check(bl[pos][b"CHDT"] == s.effect.read(), f"{label}: embedded effect synth")
        check(chunks[-2] == (b"CHNM", b"\x0a\x01\0\0"), f"{label}: effect CHNM bytes")
    return chunks


def make_sample(fmt, channels, loop_type, sustain, frames=3, **kw):
    smp = Sampler.Sample()
    smp.format = fmt
    smp.channels = channels
    smp.loop_type = loop_type
    smp.loop_sustain = sustain
    smp.data = bytes(range(1, 1 + frames * smp.frame_size))
    for k, v in kw.items():
        setattr(smp, k, v)
    return smp


def verify_metamodule(label, mm):
    chunks = list(mm.specialized_iff_chunks())
    record(label, flat(chunks))
    bl = blocks(chunks)
    check(mm.chnk == 104, f"{label}: chnk")
    check(all(b["chnm"] < mm.chnk for b in bl), f"{label}: CHNM below CHNK")
    check(bl[0]["chnm"] == 0 and bl[0][b"CHDT"] == mm.project.read(), f"{label}: embedded project")
    check(bl[1]["chnm"] == 1, f"{label}: mappings chnm")
    m = bl[1][b"CHDT"]
    check(len(m) == 96 * 4, f"{label}: mappings size")
    vals = struct.unpack("<192H", m)
    check(list(vals) == mm.mappings.encoded_values, f"{label}: encoded_values")
    check(type(mm.mappings.encoded_values) is list, f"{label}: encoded_values type")
    check([(vals[2 * i], vals[2 * i + 1]) for i in range(96)] == [(x.module, x.controller) for x in mm.mappings.values], f"{label}: mapping pairs")
    check(bl[2]["chnm"] == 2, f"{label}: options chnm")
    labels = [(8 + i, c.label.encode("utf8") + b"\0") for i, c in enumerate(mm.user_defined) if c.attached(mm) and c.label is not None]
    check([(b["chnm"], b[b"CHDT"]) for b in bl[3:]] == labels, f"{label}: label chunks")
    return chunks


def main():
    F, C, L = Sampler.Format, Sampler.Channels, Sampler.LoopType

    # 1. plain sampler, and sample slots / record counters
    verify_sampler("default", Sampler())
    for slots in ([0], [127], [0, 1, 2], [5, 64], [3, 126, 127], list(range(0, 128, 9))):
        s = Sampler()
        for n, i in enumerate(slots):
            s.samples[i] = make_sample(F.int16, C.mono, L.forward, False, frames=n + 1, name=b"smp%d" % i)
        verify_sampler(f"slots-{slots}", s)
    s = Sampler()
    s.samples = []
    verify_sampler("no-slots", s)
    s.samples = [None, make_sample(F.int8, C.mono, L.off, False), None]
    verify_sampler("short-list", s)

    # 2. every combination of the sample type byte
    for n, (fmt, ch, lt, sus) in enumerate(itertools.product(F, C, L, (False, True))):
        s = Sampler()
        s.samples[n % 7] = make_sample(
            fmt, ch, lt, sus, frames=n % 5, loop_start=n, loop_len=2 * n, volume=n, finetune=n - 20,
            panning=(-128, 0, 127)[n % 3], relative_note=(-128, 16, 127)[n % 3], reserved2=n, rate=8000 + n,
            start_pos=n * 1000, name=(b"", b"n" * 22, b"long" * 10)[n % 3],
        )
        verify_sampler(f"type-{fmt.name}-{ch.name}-{lt.name}-{sus}", s)
    s = Sampler()
    s.samples[0] = make_sample(2, 8, L.ping_pong, True)  # plain ints for format/channels in the type byte
    try:
        list(s.sample_chunks(0, s.samples[0]))
        check(False, "int format has no .value")
    except AttributeError:
        pass

    # 3. instrument fields
    s = Sampler(
        instrument_name=b"instrument name that is too long",
        vibrato_type=Sampler.VibratoType.square, vibrato_attack=255, vibrato_depth=1, vibrato_rate=63, volume_fadeout=8192,
    )
    s.unused1, s.unused2, s.unused3, s.unused4, s.unused5, s.unused6 = 0xDEADBEEF, 0xFFFF, 1, 2, 255, 3
    s.volume_old, s.ins_finetune, s.ins_relative_note = 0, -128, 127
    s.editor_cursor, s.editor_selected_size = -1, 2**31 - 1
    s.version, s.max_version = 5, 7
    for n, note in enumerate(s.note_samples):
        s.note_samples[note] = n % 200
    s.note_samples[NOTE.C0] = 255
    verify_sampler("fields", s)
    s.instrument_name = b""
    verify_sampler("fields-noname", s)

    # 4. envelopes with all point counts and flags
    for count in (0, 1, 2, 11, 12, 13, 30):
        s = Sampler()
        for k, env in enumerate([s.volume_envelope, s.panning_envelope, s.pitch_envelope] + s.effect_control_envelopes):
            lo, hi = env.range
            env.points = [(j * 7 + k, lo + ((j * 1237 + k * 511) % (hi - lo + 1))) for j in range(count)]
            env.enable, env.sustain, env.loop = bool(k & 1), bool(count & 1), bool(k & 2)
            env.sustain_point, env.loop_start_point, env.loop_end_point = k, count, k + count
            env.ctl_index, env.gain_pct, env.velocity = k, 100 - k, k % 2
        verify_sampler(f"env-{count}", s)
    s = Sampler()
    s.volume_envelope.points = [(0, 0), (65535, 0x8000)]
    s.panning_envelope.points = [(0, -0x4000), (1, 0x4000), (2, -1), (3, 1)]
    verify_sampler("env-extremes", s)

    # 5. embedded effect, in synth and project containers
    s = Sampler()
    s.samples[1] = make_sample(F.float32, C.stereo, L.off, False)
    s.effect = Synth(rv.m.Reverb())
    verify_sampler("effect", s)
    record("effect-synth", Synth(s).read())
    p = Project()
    p.attach_module(s)
    s >> p.output
    record("effect-project", p.read())
    back = p.clone().modules[1]
    verify_sampler("effect-roundtrip", back)
    check(flat(back.specialized_iff_chunks()) == flat(s.specialized_iff_chunks()), "sampler chunks survive a round trip")
    s.effect = None
    verify_sampler("effect-removed", s)

    # 6. errors: type and moment
    s = Sampler()
    s.samples[0] = make_sample(F.int8, C.mono, L.off, False)
    s.samples[0].format = 3
    try:
        list(s.specialized_iff_chunks())
        check(False, "unknown format must raise")
    except KeyError:
        pass
    s.samples[0].format = F.int8
    s.samples[0].channels = 4
    try:
        list(s.sample_chunks(0, s.samples[0]))
        check(False, "unknown channels must raise")
    except KeyError:
        pass
    s = Sampler()
    s.samples[0] = make_sample(F.int8, C.mono, L.off, False, volume=256)
    got = []
    try:
        for c in s.specialized_iff_chunks():
            got.append(c)
        check(False, "volume 256 must raise")
    except struct.error:
        pass
    check([c for c, _ in got] == [b"CHNM", b"CHDT"], "sample error raised after the instrument record")
    s = Sampler()
    s.unused2 = 70000
    for n in s.note_samples:
        s.note_samples[n] = 300
    try:
        list(s.global_config_chunks())
        check(False, "bad unused2 must raise")
    except struct.error:
        pass
    s.unused2 = 0
    try:
        list(s.global_config_chunks())
        check(False, "bad note map must raise")
    except ValueError:
        pass
    s = Sampler()
    s.pitch_envelope.points = [(0, -0x4001)]
    got = []
    try:
        for c in s.pitch_envelope.chunks():
            got.append(c)
        check(False, "point below range must raise")
    except struct.error:
        pass
    check(got == [(b"CHNM", u32(0x104))], "envelope CHNM is produced before its data is packed")
    s = Sampler()
    s.effect_control_envelopes.pop()
    try:
        gen = s.specialized_iff_chunks()
        next(gen)
        check(False, "missing envelope must raise before the first chunk")
    except IndexError:
        pass

    # 7. the private struct writer keeps working on a caller-supplied file
    f = io.BytesIO()
    w = _StructWriter(f)
    w.uint32(1); w.int32(-1); w.uint16(2); w.int16(-2); w.uint8(3); w.int8(-3)
    w.char(b"ab", 4); w.char(b"abcdef", 4); w.char(b"", 0)
    check(f.getvalue() == b"\x01\0\0\0\xff\xff\xff\xff\x02\0\xfe\xff\x03\xfdab\0\0abcd", "_StructWriter output")
    for method, bad in (("uint8", 256), ("int8", 128), ("uint16", -1), ("uint32", 2**32), ("int32", 2**31), ("int16", 40000)):
        try:
            getattr(w, method)(bad)
            check(False, f"{method}({bad}) must raise")
        except struct.error:
            pass

    # 8. legacy / golden files containing samplers and metamodules
    for path in sorted(FILES.rglob("*.sun*")):
        try:
            obj = read_sunvox_file(str(path))
        except Exception as e:
            record(f"file-{path.relative_to(FILES)}", repr(type(e)).encode())
            continue
        mods = obj.modules if isinstance(obj, Project) else [obj.module]
        for m in mods:
            if isinstance(m, Sampler):
                lbl = f"file-{path.relative_to(FILES)}-{m.index}"
                if m.is_legacy:
                    record(lbl + "-legacy", flat(m.specialized_iff_chunks()))
                    check(flat(m.specialized_iff_chunks()) == flat(itertools.chain.from_iterable(c.chunks() for c in m.legacy_chunks)), f"{lbl}: legacy verbatim")
                else:
                    verify_sampler(lbl, m)
            elif isinstance(m, MetaModule):
                verify_metamodule(f"file-{path.relative_to(FILES)}-{m.index}", m)
        record(f"file-{path.relative_to(FILES)}-all", obj.read())

    # 9. metamodules
    for count in (0, 1, 4, 96):
        mm = MetaModule()
        gen = mm.project.new_module(rv.m.Generator)
        gen >> mm.project.output
        mm.user_defined_controllers = count
        for i in range(96):
            mm.mappings.values[i] = MetaModule.Mapping((i % 3, (i * 5) % 70000 % 65536))
        for i, ud in enumerate(mm.user_defined):
            ud.label = (None, "", f"Label é {i}")[i % 3]
        verify_metamodule(f"meta-{count}", mm)
        data = Synth(mm).read()
        record(f"meta-{count}-synth", data)
        back = read_sunvox_file(io.BytesIO(data)).module
        verify_metamodule(f"meta-{count}-back", back)
        check([u.label for u in back.user_defined[:count]] == [u.label for u in mm.user_defined[:count]], f"meta-{count}: labels round trip")
        p = Project()
        p.attach_module(mm)
        record(f"meta-{count}-project", p.read())
    mm = MetaModule()
    inner = MetaModule()
    inner.user_defined_controllers = 2
    inner.user_defined[1].label = "deep"
    mm.project.attach_module(inner)
    smp = Sampler()
    smp.samples[2] = make_sample(F.int16, C.stereo, L.ping_pong, True)
    mm.project.attach_module(smp)
    verify_metamodule("meta-nested", mm)
    record("meta-nested-synth", Synth(mm).read())
    mm.user_defined_controllers = 1
    mm.user_defined[0].label = 5  # not a string
    got = []
    try:
        for c in mm.specialized_iff_chunks():
            got.append(c[0])
        check(False, "non-string label must raise")
    except AttributeError:
        pass
    check(got[-1] == b"CHNM" and got.count(b"CHNM") == 4, "label CHNM produced before the label is encoded")

    total = hashlib.sha256("".join(f"{k}={v};" for k, v in sorted(digests.items())).encode()).hexdigest()
    if os.environ.get("RV_CHECK_RECORD"):
        print(len(digests), total)
        for f_ in failures[:20]:
            print("  ", f_)
        return 0
    check(len(digests) == EXPECTED_COUNT, f"digest count {len(digests)}")
    check(total == EXPECTED_TOTAL, f"combined digest {total}")
    if failures:
        print("FAIL")
        for f_ in failures[:40]:
            print("  ", f_)
        return 1
    print(f"PASS ({len(digests)} outputs checked)")
    return 0


EXPECTED_COUNT = 135
EXPECTED_TOTAL = "ab19e001598203e1642ad9476ec7af9599a9afbc72b4d49773630d90202614cc"

if __name__ == "__main__":
    sys.exit(main())
