"""Behaviour check for Note.module_index / Note.mod (getter and setter).

Run from the repository root with PYTHONPATH=<root>/src/python.
"""
import os
import sys
from io import BytesIO

from rv.api import Project, Pattern, PatternClone, read_sunvox_file, m
from rv.errors import ModuleOwnershipError, PatternOwnershipError
from rv.note import Note

failures = []


def check(cond, msg):
    if not cond:
        failures.append(msg)


def raises(exc, fn):
    try:
        fn()
    except exc as e:
        return e
    except Exception as e:  # wrong type
        failures.append("expected %s got %r" % (exc.__name__, e))
        return None
    failures.append("expected %s, nothing raised" % exc.__name__)
    return None


def roundtrip(project):
    f = BytesIO()
    project.write_to(f)
    f.seek(0)
    return read_sunvox_file(f)


# --- module_index mapping ---------------------------------------------------
for number, expected in [(0, None), (1, 0), (2, 1), (255, 254), (0xFFFF, 0xFFFE)]:
    n = Note(module=number)
    check(n.module_index == expected, "module_index(%d)" % number)
    check(
        (n.module_index is None) == (expected is None), "module_index None-ness %d" % number
    )
# values assigned after construction are not validated; arithmetic is still n - 1
n = Note()
n.module = -3
check(n.module_index == -4, "module_index for negative raw value")
n.module = 0.0
check(n.module_index is None, "module_index for 0.0")
n.module = 2.5
check(n.module_index == 1.5, "module_index for float")

# --- getter on unowned pattern ----------------------------------------------
pat = Pattern(tracks=2, lines=3)
note = pat.data[0][0]
e = raises(PatternOwnershipError, lambda: note.mod)
check(e is not None and str(e) == "Pattern not owned by a project", "unowned message")
note.module = 5
e = raises(PatternOwnershipError, lambda: note.mod)
check(e is not None and str(e) == "Pattern not owned by a project", "unowned message 2")
# a free-floating note (no pattern at all) fails with AttributeError
raises(AttributeError, lambda: Note().mod)

# --- getter on owned pattern ------------------------------------------------
p = Project()
p += pat
a = p.new_module(m.Generator)
b = p.new_module(m.Amplifier)
c = p.new_module(m.Reverb)
check([x.index for x in p.modules] == [0, 1, 2, 3], "indices")
note.module = 0
check(note.mod is None, "module 0 -> None")
for number in range(1, 5):
    note.module = number
    check(note.mod is p.modules[number - 1], "module %d resolves" % number)
note.module = 1
check(note.mod is p.output, "module 1 is output")
note.module = 5
check(note.mod is None, "one past the end -> None")
note.module = 0xFFFF
check(note.mod is None, "far past the end -> None")
# negative raw values follow python indexing of the module list
note.module = -1  # index -2
check(note.mod is p.modules[-2], "negative index wraps")
note.module = -10  # index -11, out of range
raises(IndexError, lambda: note.mod)

# empty slots resolve to None
p.modules[2] = None
note.module = 3
check(note.mod is None, "empty slot -> None")
p.modules[2] = b

# --- setter -----------------------------------------------------------------
for mod in (p.output, a, b, c):
    note.mod = mod
    check(note.module == mod.index + 1, "setter stores index + 1")
    check(note.mod is mod, "setter/getter roundtrip")
loose = m.Generator()
before = note.module
e = raises(ModuleOwnershipError, lambda: setattr(note, "mod", loose))
check(
    e is not None and str(e) == "Module must be attached to a project",
    "setter message",
)
check(note.module == before, "refused set leaves note unchanged")
raises(AttributeError, lambda: setattr(note, "mod", None))

# setter works even for a note in an unowned pattern (uses only the module)
pat2 = Pattern(tracks=1, lines=1)
n2 = pat2.data[0][0]
n2.mod = c
check(n2.module == c.index + 1, "setter on unowned pattern")
raises(PatternOwnershipError, lambda: n2.mod)

# module attached to a different project: number is taken from its own index
q = Project()
for _ in range(5):
    qm = q.new_module(m.Amplifier)
note.mod = qm
check(note.module == 6, "foreign module index + 1")
check(note.mod is None, "resolves in own project (out of range)")

# --- gap filling keeps note references coherent ------------------------------
note.mod = b
p.modules[a.index] = None
filler = p.new_module(m.Delay)
check(filler.index == 1 and p.modules[1] is filler, "gap filled")
check(note.mod is b, "other modules not moved")
note.module = 2
check(note.mod is filler, "position 1 now resolves to the filler")

# --- save / load ------------------------------------------------------------
pat.data[1][0].mod = c
pat.data[1][1].mod = p.output
pat.data[2][0].module = 9
p2 = roundtrip(p)
pp = p2.patterns[0]
check(pp.data[0][0].mod is p2.modules[1], "reload: filler")
check(pp.data[1][0].mod is p2.modules[3], "reload: c")
check(pp.data[1][1].mod is p2.output, "reload: output")
check(pp.data[2][0].mod is None, "reload: out of range")
check(pp.data[2][1].mod is None, "reload: empty note")
check(
    [[nn.module for nn in line] for line in pp.data]
    == [[nn.module for nn in line] for line in pat.data],
    "reload: raw module numbers equal",
)

# loaded project with a gap
path = os.path.join("tests", "files", "issue54", "test1.sunvox")
if os.path.exists(path):
    lp = read_sunvox_file(path)
    for i, mod in enumerate(lp.modules):
        if mod is not None:
            check(mod.index == i and mod.parent is lp, "loaded coherence %d" % i)
    lpat = Pattern(tracks=1, lines=len(lp.modules) + 2)
    lp += lpat
    for i in range(len(lp.modules) + 2):
        nn = lpat.data[i][0]
        nn.module = i
        expected = None if i == 0 or i > len(lp.modules) else lp.modules[i - 1]
        check(nn.mod is expected, "loaded resolve %d" % i)
        if expected is not None:
            nn.module = 0
            nn.mod = expected
            check(nn.module == i, "loaded set %d" % i)

# pattern clones own no notes but the source's notes still resolve
clone = PatternClone(source=0)
p += clone
check(clone.project is p and clone.source_pattern is pat, "clone attached")

if failures:
    print("FAIL")
    for f in failures:
        print(" -", f)
    sys.exit(1)
print("PASS")
