"""Behaviour check for the Python base-class generator (genrv PythonGenerator.run
and base_module.py.jinja2).

Run from the repository root:
    PYTHONPATH=<root>/src/python /venv/bin/python check.py
"""
import contextlib
import io
import sys
import tempfile
from pathlib import Path

import black
import genrv
import yaml
from genrv.codegen.python.gen import PythonGenerator
from genrv.tools.generate import enumname
from jinja2 import Environment, FileSystemLoader, PrefixLoader
from stringcase import camelcase, pascalcase

ROOT = Path.cwd()
FAILURES = []


def expect(cond, msg):
    if not cond:
        FAILURES.append(msg)
        print("FAIL:", msg)


def make_env():
    genrv_path = Path(genrv.__file__).parent
    loaders = {"python": FileSystemLoader(genrv_path / "codegen" / "python")}
    env = Environment(loader=PrefixLoader(loaders))
    env.filters.update(
        camelcase=camelcase, enumname=enumname, hex=hex, pascalcase=pascalcase, repr=repr
    )
    return env


def run_generator(spec_dir, dest_dir):
    gen = PythonGenerator(spec_base=spec_dir, dest_base=dest_dir)
    out = io.StringIO()
    with contextlib.redirect_stdout(out):
        result = gen.run(make_env())
    return result, out.getvalue()


# ---------------------------------------------------------------- real spec
def check_real_spec():
    spec = yaml.safe_load((ROOT / "specs" / "fileformat.yaml").read_text())
    expected_names = sorted(f"{n.lower()}.py" for n in spec["module_types"])
    ref = ROOT / "src" / "python" / "rv" / "modules" / "base"
    with tempfile.TemporaryDirectory() as d:
        result, _ = run_generator(ROOT / "specs", d)
        expect(result is None, "run() returns None")
        out = Path(d) / "modules" / "base"
        produced = sorted(p.name for p in out.iterdir())
        expect(produced == expected_names, "one file per module type, lower-cased name")
        expect(len(produced) == 43, f"43 module types, got {len(produced)}")
        others = [p for p in Path(d).rglob("*") if p.is_file() and p.parent != out]
        expect(not others, f"no files outside modules/base: {others}")
        for name in produced:
            expect(
                (out / name).read_text() == (ref / name).read_text(),
                f"{name}: regenerated file differs from the checked-in one",
            )


# ----------------------------------------------------------- synthetic spec
SYNTHETIC = """
module_types:
  Plain:
    group: Effect
  ZedSynth:
    type: "Zed Synth"
    group: Synth
    defaultFlags: 0x49
    enums:
      Unit: {"sec/256": 0, ms: 1, "line/2": 2, "-x": 3, "3d": 4, "A+B": 5, "a.b^c*d": 6}
      Curve: {lin: 0, exp: 1}
    controllers:
      - volume: {min: 0, max: 256, default: 128}
      - pan: {min: -128, max: 128, default: 0, compact: true}
      - tune: {min: -64, max: 64, default: -3, no_offset: true}
      - unit: {enum: Unit, default: "line/2"}
      - in: {bool: true, default: false}
      - length:
          depends_on: unit
          default: 7
          ranges:
            "sec/256": {min: 0, max: 11}
            ms: {min: 1, max: 4000}
            "3d": {min: -5, max: 5}
      - hidden: {min: 0, max: 1, default: 0, attached: false}
      - shown: {bool: true, default: true, attached: true}
    options:
      - first: {byte: 0, bit: 0, size: 1, default: false}
      - second: {number: 0x7e, byte: 1, bit: 3, size: 1, default: true, inverted: true}
      - count: {byte: 2, bit: 0, size: 8, min: 0, max: 96, default: 0}
      - either: {byte: 3, bit: 0, size: 1, default: false, exclusive_of: [first, second]}
      - curve: {byte: 4, bit: 0, size: 2, min: 0, max: 1, enum: Curve, default: exp}
    chunks:
      - name: bytes
        parent_type: Array
        chnm: 0
        length: 4
        element_type: unsigned byte
        min: 0
        max: 255
        default: 255
      - name: shorts
        parent_type: Array
        chnm: 1
        element_type: unsigned short
        default: [1, 2, 3]
      - name: floats
        parent_type: Array
        chnm: 2
        length: 2
        element_type: float32
        default: 0
      - name: untyped
        parent_type: Array
        chnm: 5
        length: 1
        default: 0
      - name: kinds
        parent_type: Array
        chnm: 3
        element_type: unsigned byte
        enum: Curve
        default: [lin, exp, lin]
      - name: ignored
        parent_type: Other
        chnm: 4
"""


def check_synthetic_spec():
    from rv.chunks import ArrayChunk
    from rv.controller import (
        CompactRange,
        Controller,
        DependentRange,
        NoOffsetRange,
        Range,
        WarnOnlyRange,
    )
    from rv.option import Option

    with tempfile.TemporaryDirectory() as d:
        spec_dir = Path(d) / "specs"
        spec_dir.mkdir()
        (spec_dir / "fileformat.yaml").write_text(SYNTHETIC)
        dest = Path(d) / "dest"
        _, printed = run_generator(spec_dir, dest)
        out = dest / "modules" / "base"
        expect(
            sorted(p.name for p in out.iterdir()) == ["plain.py", "zedsynth.py"],
            "synthetic: file names",
        )
        plain_src = (out / "plain.py").read_text()
        zed_src = (out / "zedsynth.py").read_text()

    # output is stable under black, has no blank-line runs and the header
    for src in (plain_src, zed_src):
        body = src[src.index("\nclass Base") + 1 :]
        expect(
            black.format_str(body, mode=black.FileMode()) == body, "class body is black-stable"
        )
        expect("\n\n\n" not in body, "no runs of blank lines in the class body")
        expect(src.startswith("# -- DO NOT EDIT THIS FILE DIRECTLY --\n"), "header")
        expect("This file was auto-generated by genrv." in src, "docstring")

    ns = {}
    exec(compile(plain_src, "plain.py", "exec"), ns)
    plain = ns["BasePlain"]
    expect(plain.name == "Plain" and plain.mtype == "Plain", "plain: name/mtype")
    expect(plain.mgroup == "Effect", "plain: group")
    expect(plain.flags == 0 and plain.default_flags == 0, "plain: flags default to 0")
    expect("import" not in plain_src, "plain: no imports needed")
    expect(
        not [v for v in vars(plain).values() if isinstance(v, (Controller, Option))],
        "plain: no controllers/options",
    )

    ns = {}
    exec(compile(zed_src, "zedsynth.py", "exec"), ns)
    zed = ns["BaseZedSynth"]
    expect(zed.name == "ZedSynth" and zed.mtype == "Zed Synth", "zed: name/mtype")
    expect(zed.mgroup == "Synth", "zed: group")
    expect(zed.flags == 0x49 and zed.default_flags == 0x49, "zed: flags")
    expect("default_flags = 0x49" in zed_src, "zed: flags rendered as hex")

    expect(
        [(m.name, m.value) for m in zed.Unit]
        == [
            ("sec_div_256", 0),
            ("ms", 1),
            ("line_div_2", 2),
            ("neg_x", 3),
            ("_3d", 4),
            ("a_plus_b", 5),
            ("a_b_pow_c_mul_d", 6),
        ],
        "zed: Unit enum members",
    )
    expect([(m.name, m.value) for m in zed.Curve] == [("lin", 0), ("exp", 1)], "Curve")

    ctls = [(k, v) for k, v in vars(zed).items() if isinstance(v, Controller)]
    ctls.sort(key=lambda kv: kv[1]._order)
    expect(
        [k for k, _ in ctls]
        == ["volume", "pan", "tune", "unit", "in_", "length", "hidden", "shown"],
        f"zed: controller definition order {[k for k, _ in ctls]}",
    )
    c = dict(ctls)
    vt = c["volume"].value_type
    expect(type(vt) is Range and (vt.min, vt.max) == (0, 256), "volume: Range(0,256)")
    expect(c["volume"].default == 128 and c["volume"]._attached is True, "volume default")
    vt = c["pan"].value_type
    expect(type(vt) is CompactRange and (vt.min, vt.max) == (-128, 128), "pan compact")
    expect(c["pan"].default == 0, "pan default 0")
    vt = c["tune"].value_type
    expect(type(vt) is NoOffsetRange and (vt.min, vt.max) == (-64, 64), "tune no_offset")
    expect(c["tune"].default == -3, "tune default")
    expect(c["unit"].value_type is zed.Unit, "unit: enum type")
    expect(c["unit"].default is zed.Unit.line_div_2, "unit: enum default")
    expect(c["in_"].value_type is bool and c["in_"].default is False, "in_: bool")
    expect(c["shown"].value_type is bool and c["shown"].default is True, "shown: bool")
    expect(c["shown"]._attached is True, "shown: attached")
    expect(c["hidden"]._attached is False, "hidden: attached=False")
    vt = c["hidden"].value_type
    expect(type(vt) is Range and (vt.min, vt.max) == (0, 1), "hidden: Range(0,1)")
    dep = c["length"].value_type
    expect(type(dep) is DependentRange and dep.ctl_name == "unit", "length: dependent")
    expect(c["length"].default == 7, "length: default")
    expect(
        [(k, type(r), r.min, r.max) for k, r in dep.range_map.items()]
        == [
            (zed.Unit.sec_div_256, WarnOnlyRange, 0, 11),
            (zed.Unit.ms, WarnOnlyRange, 1, 4000),
            (zed.Unit._3d, WarnOnlyRange, -5, 5),
        ],
        "length: range table",
    )
    expect(
        type(dep.default) is WarnOnlyRange and (dep.default.min, dep.default.max) == (0, 11),
        "length: fallback is the first range",
    )

    opts = {k: v for k, v in vars(zed).items() if isinstance(v, Option)}
    expect(list(opts) == ["first", "second", "count", "either", "curve"], "option order")
    expect(
        opts["first"] == Option(name="first", byte=0, bit=0, size=1, default=False),
        "option first",
    )
    expect(
        opts["second"]
        == Option(
            name="second", number=0x7E, byte=1, bit=3, size=1, default=True, inverted=True
        ),
        "option second",
    )
    expect(
        opts["count"] == Option(name="count", byte=2, bit=0, size=8, min=0, max=96, default=0),
        "option count keeps min=0",
    )
    expect(
        opts["either"]
        == Option(
            name="either", byte=3, bit=0, size=1, default=False,
            exclusive_of=["first", "second"],
        ),
        "option either",
    )
    expect(
        opts["curve"]
        == Option(name="curve", byte=4, bit=0, size=2, min=0, max=1, default=zed.Curve.exp),
        "option curve (enum default)",
    )

    def chunk_fields(cls):
        return {
            k: v for k, v in vars(cls).items() if not k.startswith("__")
        }

    expect(issubclass(zed.bytes_chunk, ArrayChunk), "bytes chunk base")
    expect(
        chunk_fields(zed.bytes_chunk)
        == dict(chnm=0, length=4, type="B", element_size=1, min_value=0, max_value=255,
                default=255),
        f"bytes chunk {chunk_fields(zed.bytes_chunk)}",
    )
    expect(
        chunk_fields(zed.shorts_chunk)
        == dict(chnm=1, length=3, type="H", element_size=2, default=[1, 2, 3]),
        f"shorts chunk {chunk_fields(zed.shorts_chunk)}",
    )
    expect(
        chunk_fields(zed.floats_chunk)
        == dict(chnm=2, length=2, type=None, element_size=None, default=0),
        f"floats chunk {chunk_fields(zed.floats_chunk)}",
    )
    expect(
        chunk_fields(zed.untyped_chunk)
        == dict(chnm=5, length=1, type=None, element_size=None, default=0),
        f"untyped chunk {chunk_fields(zed.untyped_chunk)}",
    )
    kinds = zed.kinds_chunk
    expect(
        (kinds.chnm, kinds.length, kinds.type, kinds.element_size) == (3, 3, "B", 1),
        "kinds chunk scalars",
    )
    expect(
        all(isinstance(vars(kinds)[p], property)
            for p in ("default", "encoded_values", "python_type")),
        "kinds chunk properties",
    )
    ns["BaseZedSynth"] = zed  # the properties look the class up by name
    fake = type("Fake", (), {"values": [zed.Curve.exp, zed.Curve.lin]})()
    expect(
        vars(kinds)["default"].fget(fake) == [zed.Curve.lin, zed.Curve.exp, zed.Curve.lin],
        "kinds default",
    )
    expect(vars(kinds)["encoded_values"].fget(fake) == [1, 0], "kinds encoded_values")
    expect(vars(kinds)["python_type"].fget(fake) is zed.Curve, "kinds python_type")
    expect(not hasattr(zed, "ignored_chunk"), "non-array chunk ignored")
    expect(not hasattr(kinds, "min_value") or kinds.min_value is ArrayChunk.__dict__.get("min_value"),
           "kinds: no min_value override")

    # import block
    header = zed_src[: zed_src.index("\nclass Base")]
    expect(
        header
        == '# -- DO NOT EDIT THIS FILE DIRECTLY --\n"""\nBase class for ZedSynth\n'
        'This file was auto-generated by genrv.\n"""\n\n'
        "from enum import IntEnum\n\n"
        "from rv.chunks import ArrayChunk\n"
        "from rv.controller import (CompactRange, Controller, DependentRange,\n"
        "                           NoOffsetRange, WarnOnlyRange)\n"
        "from rv.option import Option\n\n",
        f"zed: header and import block {header!r}",
    )


# -------------------------------------------------- invalid rendered source
def check_invalid_source_is_reported():
    bad = "module_types:\n  Good:\n    group: Synth\n  'Bad Name':\n    group: Synth\n"
    with tempfile.TemporaryDirectory() as d:
        spec_dir = Path(d) / "specs"
        spec_dir.mkdir()
        (spec_dir / "fileformat.yaml").write_text(bad)
        dest = Path(d) / "dest"
        out = io.StringIO()
        raised = None
        try:
            with contextlib.redirect_stdout(out):
                PythonGenerator(spec_base=spec_dir, dest_base=dest).run(make_env())
        except Exception as e:  # noqa
            raised = e
        expect(type(raised) is black.InvalidInput, f"InvalidInput raised, got {raised!r}")
        expect("class BaseBad Name:" in out.getvalue(), "offending source is printed")
        base = dest / "modules" / "base"
        expect((base / "good.py").exists(), "earlier module was written")
        expect(not (base / "bad name.py").exists(), "bad module not written")

    # a spec without module_types is a KeyError
    with tempfile.TemporaryDirectory() as d:
        spec_dir = Path(d) / "specs"
        spec_dir.mkdir()
        (spec_dir / "fileformat.yaml").write_text("other: 1\n")
        try:
            PythonGenerator(spec_base=spec_dir, dest_base=Path(d) / "x").run(make_env())
        except KeyError as e:
            expect(e.args == ("module_types",), "KeyError names module_types")
        else:
            expect(False, "KeyError expected for spec without module_types")


check_real_spec()
check_synthetic_spec()
check_invalid_source_is_reported()
if FAILURES:
    print(f"{len(FAILURES)} failure(s)")
    sys.exit(1)
print("PASS")
