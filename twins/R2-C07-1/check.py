"""Behaviour check for Project.connect() operand handling (C07-1).

Compares the library against a small reference model of the link tables over
exhaustive and random connect/disconnect histories, and checks operand
normalisation, the ~ marker on either/both sides and ownership errors.
"""
import itertools
import random
import sys
from io import BytesIO

from rv.api import Project, m, read_sunvox_file
from rv.errors import ModuleOwnershipError
from rv.modules.module import DisconnectingModule, Module, ModuleList

MESSAGE = "Modules must have same parent to be connected or disconnected"


class Model:
    """Reference semantics of the four parallel link lists per module."""

    def __init__(self, n):
        self.t = {i: dict(il=[], ils=[], ol=[], ols=[]) for i in range(n)}

    def apply(self, froms, tos, disconnect_flags):
        for f in froms:
            for t in tos:
                disc = disconnect_flags[("f", f)] or disconnect_flags[("t", t)]
                dst, src = self.t[t], self.t[f]
                if disc:
                    if f not in dst["il"]:
                        continue
                    i = dst["il"].index(f)
                    o = src["ol"].index(t)
                    dst["il"][i] = -1
                    src["ol"][o] = -1
                    dst["ils"][i] = -1
                    src["ols"][o] = -1
                    continue
                if f in dst["il"]:
                    continue
                i = len(dst["il"])
                dst["il"].append(f)
                o = len(src["ol"])
                src["ol"].append(t)
                dst["ils"].append(o)
                src["ols"].append(i)

    def snapshot(self):
        return [
            (v["il"], v["ils"], v["ol"], v["ols"]) for _, v in sorted(self.t.items())
        ]


def snapshot(project):
    return [
        (mod.in_links, mod.in_link_slots, mod.out_links, mod.out_link_slots)
        for mod in project.modules
    ]


def consistent(project):
    for mod in project.modules:
        assert len(mod.in_links) == len(mod.in_link_slots)
        assert len(mod.out_links) == len(mod.out_link_slots)
        for slot, (peer, peer_slot) in enumerate(zip(mod.in_links, mod.in_link_slots)):
            if peer == -1:
                assert peer_slot == -1
                continue
            src = project.modules[peer]
            assert src.out_links[peer_slot] == mod.index
            assert src.out_link_slots[peer_slot] == slot
        for slot, (peer, peer_slot) in enumerate(
            zip(mod.out_links, mod.out_link_slots)
        ):
            if peer == -1:
                assert peer_slot == -1
                continue
            dst = project.modules[peer]
            assert dst.in_links[peer_slot] == mod.index
            assert dst.in_link_slots[peer_slot] == slot
        live = [x for x in mod.in_links if x != -1]
        assert len(live) == len(set(live))


def edges(project):
    return {
        (src, mod.index)
        for mod in project.modules
        for src in mod.in_links
        if src != -1
    }


def new_project(n):
    p = Project()
    for _ in range(n - 1):
        p.new_module(m.Amplifier)
    return p


def operand(project, idxs, marks, single):
    mods = [~project.modules[i] if k else project.modules[i] for i, k in zip(idxs, marks)]
    return mods[0] if single else mods


def run_op(project, model, f_idx, f_marks, f_single, t_idx, t_marks, t_single):
    froms = operand(project, f_idx, f_marks, f_single)
    tos = operand(project, t_idx, t_marks, t_single)
    assert project.connect(froms, tos) is None
    flags = {("f", i): k for i, k in zip(f_idx, f_marks)}
    flags.update({("t", i): k for i, k in zip(t_idx, t_marks)})
    model.apply(f_idx, t_idx, flags)
    assert snapshot(project) == model.snapshot(), (snapshot(project), model.snapshot())
    consistent(project)


def exhaustive_small():
    # every history of length <= 3 over single-pair ops on 3 modules, with the
    # disconnect marker on neither, from, to, or both sides
    n = 3
    ops = [
        (f, t, fm, tm)
        for f in range(n)
        for t in range(n)
        for fm, tm in ((0, 0), (1, 0), (0, 1), (1, 1))
    ]
    count = 0
    for length in (1, 2, 3):
        pool = ops if length < 3 else [o for o in ops if o[0] != o[1]][::2]
        for history in itertools.product(pool, repeat=length):
            p, model = new_project(n), Model(n)
            expected = set()
            for f, t, fm, tm in history:
                run_op(p, model, [f], [fm], True, [t], [tm], True)
                if fm or tm:
                    expected.discard((f, t))
                else:
                    expected.add((f, t))
                assert edges(p) == expected
            count += 1
    return count


def random_histories(seed, rounds):
    rng = random.Random(seed)
    for _ in range(rounds):
        n = rng.randint(2, 6)
        p, model = new_project(n), Model(n)
        expected = set()
        for _ in range(rng.randint(1, 14)):
            f_single = rng.random() < 0.4
            t_single = rng.random() < 0.4
            f_idx = rng.sample(range(n), 1 if f_single else rng.randint(0, n))
            t_idx = rng.sample(range(n), 1 if t_single else rng.randint(0, n))
            mode = rng.choice(["connect", "connect", "disc_from", "disc_to", "mixed"])
            if mode == "connect":
                f_marks, t_marks = [0] * len(f_idx), [0] * len(t_idx)
            elif mode == "disc_from":
                f_marks, t_marks = [1] * len(f_idx), [0] * len(t_idx)
            elif mode == "disc_to":
                f_marks, t_marks = [0] * len(f_idx), [1] * len(t_idx)
            else:
                f_marks = [rng.randint(0, 1) for _ in f_idx]
                t_marks = [rng.randint(0, 1) for _ in t_idx]
            run_op(p, model, f_idx, f_marks, f_single, t_idx, t_marks, t_single)
            for f, fm in zip(f_idx, f_marks):
                for t, tm in zip(t_idx, t_marks):
                    if fm or tm:
                        expected.discard((f, t))
                    else:
                        expected.add((f, t))
            assert edges(p) == expected


def fixed_cases():
    p = new_project(5)
    o, a, b, c, d = p.modules
    # overlapping list operations: second op must not stop at the known pair
    p.connect([a, b], c)
    p.connect([b, a, d], [c, o])
    assert c.in_links == [1, 2, 4] and c.in_link_slots == [0, 0, 0]
    assert o.in_links == [2, 1, 4] and o.in_link_slots == [1, 1, 1]
    assert a.out_links == [3, 0] and a.out_link_slots == [0, 1]
    assert b.out_links == [3, 0] and b.out_link_slots == [1, 0]
    assert d.out_links == [3, 0] and d.out_link_slots == [2, 2]
    # disconnect list overlapping a never-connected pair
    p.connect([~d, ~c, ~a], c)
    assert c.in_links == [-1, 2, -1] and c.in_link_slots == [-1, 0, -1]
    assert a.out_links == [-1, 0] and a.out_link_slots == [-1, 1]
    assert d.out_links == [-1, 0] and d.out_link_slots == [-1, 2]
    assert c.out_links == [] and c.out_link_slots == []
    # marker on the "to" side only, and on both sides
    p.connect(b, ~c)
    assert c.in_links == [-1, -1, -1] and b.out_links == [-1, 0]
    p.connect(~a, ~o)
    assert o.in_links == [2, -1, 4] and a.out_links == [-1, -1]
    # reconnect after disconnect appends new slots on both ends
    p.connect(a, c)
    assert c.in_links == [-1, -1, -1, 1] and c.in_link_slots == [-1, -1, -1, 2]
    assert a.out_links == [-1, -1, 3] and a.out_link_slots == [-1, -1, 3]
    # self link
    p.connect(a, a)
    assert a.in_links == [1] and a.in_link_slots == [3]
    assert a.out_links == [-1, -1, 3, 1] and a.out_link_slots == [-1, -1, 3, 0]
    p.connect(~a, a)
    assert a.in_links == [-1] and a.out_links == [-1, -1, 3, -1]
    consistent(p)
    # empty operand lists and other iterables
    before = snapshot(p)
    before = [tuple(list(x) for x in row) for row in before]
    p.connect([], [a, b])
    p.connect([a, b], [])
    p.connect((), ())
    assert snapshot(p) == before
    p.connect((b, d), (x for x in [a]))
    assert a.in_links == [-1, 2] and d.out_links == [-1, 0]  # generator exhausted
    p.connect(ModuleList(p, [d]), ModuleList(p, [a]))
    assert a.in_links == [-1, 2, 4]
    consistent(p)
    # survives a write/read round trip
    f = BytesIO()
    p.write_to(f)
    f.seek(0)
    q = read_sunvox_file(f)
    assert [mod.in_links for mod in q.modules] == [mod.in_links for mod in p.modules]


def ownership_errors():
    p, q = new_project(4), new_project(3)
    pa, pb = p.modules[1], p.modules[2]
    qa = q.modules[1]
    loose = m.Amplifier()
    cases = [
        (pa, qa),
        (qa, pa),
        (~pa, qa),
        (qa, ~pa),
        (pa, ~qa),
        (loose, pa),
        (pa, loose),
        ([pb, qa], pa),
        (pa, [pb, qa]),
        (qa, qa),
        (DisconnectingModule(DisconnectingModule(pa)), pb),
        (pa, "x"),
        (pa, [None]),
    ]
    for froms, tos in cases:
        try:
            p.connect(froms, tos)
        except ModuleOwnershipError as e:
            assert type(e) is ModuleOwnershipError
            assert e.args == (MESSAGE,), e.args
            assert isinstance(e.__context__, ValueError)
        else:
            raise AssertionError("no error for %r %r" % (froms, tos))
    # pairs before the foreign one are already linked; nothing after
    assert pa.in_links == [2] and pb.out_links == [1]
    assert pb.in_links == [1] and pa.out_links == [2]
    assert all(not mod.in_links and not mod.out_links for mod in q.modules)
    assert not loose.in_links and not loose.out_links
    # empty "to" side: foreign "from" operands are never looked at
    p.connect([qa, loose, object()], [])
    p.connect([], [qa, 17])
    # a non-module, non-iterable operand is a TypeError
    for bad in (3, None):
        try:
            p.connect(bad, pa)
        except TypeError:
            pass
        else:
            raise AssertionError("expected TypeError")
    # freed project slot: None is "found" by index and then has no tables
    p.modules[3] = None
    try:
        p.connect(pa, [None])
    except AttributeError:
        pass
    else:
        raise AssertionError("expected AttributeError")
    try:
        p.connect(None, pa)
    except TypeError:
        pass
    else:
        raise AssertionError("expected TypeError")


def overridden_lookup():
    calls = []

    class Tracing(Project):
        def module_index(self, module):
            calls.append(module)
            return super().module_index(module)

    p = Tracing()
    a = p.new_module(m.Amplifier)
    b = p.new_module(m.Amplifier)
    del calls[:]
    p.connect([a, ~b], [b, ~a])
    assert [x.index for x in calls] == [1, 2, 1, 1, 2, 2, 2, 1], calls
    assert all(isinstance(x, Module) for x in calls)
    assert b.in_links == [1] and a.in_links == []


def main():
    n = exhaustive_small()
    assert n > 1000
    random_histories(1234, 400)
    fixed_cases()
    ownership_errors()
    overridden_lookup()
    print("PASS")


if __name__ == "__main__":
    main()
    sys.exit(0)
