"""Behaviour check for the Module.__init__ / Controller.set_initial tidy-up (C17).

Run from the repository root with PYTHONPATH=<root>/src/python.
Passes on the unchanged tree and with the patch applied.
"""
import logging
import sys
from enum import Enum
from io import BytesIO
from itertools import combinations
from struct import pack

from rv import errors
from rv.api import m
from rv.cmidmap import MidiMessageType, Slope
from rv.controller import Controller, DependentRange, Range, WarnOnlyRange
from rv.errors import ControllerValueError
from rv.modules import MODULE_CLASSES
from rv.modules.module import Chunk, Module
from rv.readers.reader import read_sunvox_file
from rv.synth import Synth

logging.disable(logging.CRITICAL)

failures = []


def check(cond, msg):
    if not cond:
        failures.append(msg)


def synth_bytes(mod):
    f = BytesIO()
    Synth(mod).write_to(f)
    return f.getvalue()


def snapshot(mod):
    return (
        synth_bytes(mod),  # first: writing populates controller_midi_maps
        dict(mod.controller_values),
        set(mod.controllers_loaded),
        dict(mod.option_values),
        {k: v.cmid_data for k, v in mod.controller_midi_maps.items()},
        list(mod.in_links),
        list(mod.in_link_slots),
        list(mod.out_links),
        list(mod.out_link_slots),
        mod.name,
        mod.x,
        mod.y,
        mod.layer,
        mod.mod_scale,
        mod.color,
        mod.mod_finetune,
        mod.mod_relative_note,
        int(mod.visualization),
    )


CONTAINERS = (
    "controller_values",
    "controllers_loaded",
    "controller_midi_maps",
    "option_values",
    "in_links",
    "in_link_slots",
    "out_links",
    "out_link_slots",
)

# ----------------------------------------------- construction of every module
classes = sorted(
    (c for c in set(MODULE_CLASSES.values())), key=lambda c: c.__name__
)
check(len(classes) >= 35, "expected the full module registry")
for cls in classes:
    name = cls.__name__
    A, B = cls(), cls()
    # defaults
    check(A.index is None and A.parent is None, f"{name}: index/parent default")
    check((A.x, A.y, A.layer, A.mod_scale) == (512, 512, 0, 256), f"{name}: placement")
    check((A.mod_finetune, A.mod_relative_note) == (0, 0), f"{name}: finetune")
    check(A.color == (255, 255, 255), f"{name}: color")
    check(
        (A.midi_in_always, A.midi_in_channel, A.midi_out_name) == (False, 0, None),
        f"{name}: midi in",
    )
    check(
        (A.midi_out_channel, A.midi_out_bank, A.midi_out_program) == (0, -1, -1),
        f"{name}: midi out",
    )
    check(int(A.visualization) == 0x000C0101, f"{name}: visualization")
    if not isinstance(vars(cls).get("name"), property):
        check(A.name == cls.name and "name" in vars(A), f"{name}: name on instance")
    # per-instance containers: never shared between instances or attributes
    for attr in CONTAINERS:
        check(attr in vars(A), f"{name}: {attr} is an instance attribute")
        check(getattr(A, attr) is not getattr(B, attr), f"{name}: {attr} shared A/B")
    for a1, a2 in combinations(CONTAINERS, 2):
        check(getattr(A, a1) is not getattr(A, a2), f"{name}: {a1} is {a2}")
    for attr in CONTAINERS[4:]:
        check(getattr(A, attr) == [] and type(getattr(A, attr)) is list, f"{name}: {attr}")
    check(type(A.controller_values) is dict and type(A.option_values) is dict, "types")
    check(type(A.controllers_loaded) is set, f"{name}: controllers_loaded type")
    check(len(A.controller_midi_maps) == 0, f"{name}: midi maps start empty")
    check(A.controller_values is not cls.controllers, f"{name}: values vs registry")
    # every controller is loaded; dependent ranges are initialized last,
    # declaration order otherwise
    independent = [
        k for k, c in cls.controllers.items()
        if not isinstance(c.value_type, DependentRange)
    ]
    dependent = [
        k for k, c in cls.controllers.items() if isinstance(c.value_type, DependentRange)
    ]
    check(list(A.controller_values) == independent + dependent, f"{name}: init order")
    check(A.controllers_loaded == set(cls.controllers), f"{name}: controllers_loaded")
    for k, c in cls.controllers.items():
        check(A.controller_values[k] == c.controller(A).default, f"{name}.{k}: default")
    expected_order = []
    for o in cls.options.values():  # setting an option also resets its rivals
        expected_order += [o.name] + list(o.exclusive_of)
    check(
        list(A.option_values) == list(dict.fromkeys(expected_order)),
        f"{name}: option order",
    )

    # mutate A thoroughly, B must not change
    before = snapshot(B)
    for k, c in cls.controllers.items():
        t = c.instance_value_type(A)
        if isinstance(t, Range):
            A.controller_values[k] = t.max
        elif isinstance(t, type) and issubclass(t, Enum):
            A.controller_values[k] = list(t)[-1]
        elif t is bool:
            A.controller_values[k] = not A.controller_values[k]
    for k in list(A.option_values):
        v = A.option_values[k]
        A.option_values[k] = (not v) if isinstance(v, bool) else v + 1
    A.controllers_loaded.clear()
    A.controller_midi_maps["whatever"].channel = 5
    A.in_links.append(1)
    A.in_link_slots.append(2)
    A.out_links.append(3)
    A.out_link_slots.append(4)
    A.name, A.x, A.y, A.layer, A.mod_scale, A.color = "zzz", 1, 2, 3, 4, (1, 2, 3)
    A.visualization = 7
    check(snapshot(B) == before, f"{name}: mutating A changed B")
    check(snapshot(cls()) == before, f"{name}: mutating A changed fresh instances")

# --------------------------------------------------------- keyword arguments
kw = dict(
    index=3,
    finetune=-5,
    relative_note=7,
    x=1,
    y=2,
    layer=3,
    mod_scale=300,
    color=(1, 2, 3),
    midi_in_always=True,
    midi_in_channel=4,
    midi_out_name="dev",
    midi_out_channel=5,
    midi_out_bank=6,
    midi_out_program=7,
    name="Amp!",
    visualization=0x01020304,
    volume=512,
    inverse=True,
)
a = m.Amplifier(**kw)
check(a.index == 3 and int(a) == 4, "index kw")
check((a.mod_finetune, a.mod_relative_note) == (-5, 7), "finetune kw")
check((a.x, a.y, a.layer, a.mod_scale, a.scale) == (1, 2, 3, 300, 300), "placement kw")
check(a.color == (1, 2, 3), "color kw")
check((a.midi_in_always, a.midi_in_channel) == (True, 4), "midi in kw")
check(
    (a.midi_out_name, a.midi_out_channel, a.midi_out_bank, a.midi_out_program)
    == ("dev", 5, 6, 7),
    "midi out kw",
)
check(a.name == "Amp!" and int(a.visualization) == 0x01020304, "name/vis kw")
check(a.volume == 512 and a.inverse is True, "controller kw")
check(repr(a) == "<Amplifier index=3 name=Amp!>", "repr")
# 'scale' is the module scale unless the module has a controller of that name
check(m.Amplifier(scale=99).mod_scale == 99, "scale kw")
check(m.Amplifier(scale=99, mod_scale=50).mod_scale == 99, "scale wins over mod_scale")
s = m.Smooth(scale=99)
check(s.mod_scale == 256 and s.controller_values["scale"] == 99, "Smooth scale kw")
check(m.Smooth(scale=99, mod_scale=40).mod_scale == 40, "Smooth mod_scale kw")
check(m.Amplifier(name=None).name == "Amplifier", "name=None keeps default")
check(m.Amplifier(name="").name == "", "empty name kept")
# options via kwargs
ms = m.MultiSynth(trigger=True)
check(ms.option_values["trigger"] is True, "option kw")
check(m.MultiSynth().option_values["trigger"] is False, "option default not touched")
# string -> enum conversion, both at init time and later
l = m.Lfo(type="panning", waveform="saw")
check(l.type is m.Lfo.Type.panning and l.waveform is m.Lfo.Waveform.saw, "enum by name")
l.type = "amplitude"
check(l.type is m.Lfo.Type.amplitude, "enum by name via descriptor")
try:
    m.Lfo(type="nope")
except KeyError:
    pass
else:
    check(False, "unknown enum name must raise KeyError")
try:
    m.Lfo(type=99)
except ValueError:
    pass
else:
    check(False, "unknown enum value must raise ValueError")

# dependent ranges: unit given as kw decides the range of the dependent value
with errors.override_raise_controller_value_errors(True):
    d = m.Delay(delay_unit=m.Delay.DelayUnit.ms, delay_l=3999, delay_r=4000)
    check((d.delay_l, d.delay_r) == (3999, 4000), "dependent kw")
    check(list(d.controller_values)[-2:] == ["delay_l", "delay_r"], "dependent last")
    t = m.Delay.controllers["delay_l"].instance_value_type(d)
    check(type(t) is WarnOnlyRange and (t.min, t.max) == (0, 4000), "range follows unit")
    d.delay_unit = m.Delay.DelayUnit.hz
    t = m.Delay.controllers["delay_l"].instance_value_type(d)
    check((t.min, t.max) == (0, 8192), "range follows unit change")
    d2 = m.Delay()
    t2 = m.Delay.controllers["delay_l"].instance_value_type(d2)
    check((t2.min, t2.max) == (0, 256), "other instance keeps its own range")
    # before its parent is loaded / when it is None the default range applies
    d2.controllers_loaded.discard("delay_unit")
    t2 = m.Delay.controllers["delay_l"].instance_value_type(d2)
    check((t2.min, t2.max) == (0, 256), "default range when parent not loaded")
    d2.controllers_loaded.clear()
    check(m.Delay.controllers["delay_r"].instance_value_type(d2).max == 256, "empty set")
    d.controller_values["delay_unit"] = None
    check(m.Delay.controllers["delay_l"].instance_value_type(d).max == 256, "None parent")
    del d.controller_values["delay_unit"]
    check(m.Delay.controllers["delay_l"].instance_value_type(d).max == 256, "no parent")
    d.controller_values["delay_unit"] = "bogus"
    try:
        m.Delay.controllers["delay_l"].instance_value_type(d)
    except KeyError:
        pass
    else:
        check(False, "unknown unit must raise KeyError")
    # WarnOnlyRange does not raise even when raising is enabled
    d3 = m.Delay(delay_l=100000)
    check(d3.delay_l == 100000, "warn-only range accepts value")

# out-of-range handling: raise or warn, value and message
for factory, kwargs, msg in (
    (m.Amplifier, dict(volume=5000), "0(Amplifier).volume=5000 is not within [0, 1024]"),
    (
        m.Amplifier,
        dict(volume=-1, index=0x1F),
        "1f(Amplifier).volume=-1 is not within [0, 1024]",
    ),
):
    with errors.override_raise_controller_value_errors(True):
        try:
            factory(**kwargs)
        except ControllerValueError as e:
            check(e.args == (msg,), f"message {e.args!r}")
            check(isinstance(e.__cause__, errors.RangeValidationError), "cause")
        else:
            check(False, "out of range must raise")
    with errors.override_raise_controller_value_errors(False):
        mod = factory(**kwargs)
        check(mod.volume == kwargs["volume"], "warn mode keeps the raw value")
        check(factory().volume == 256, "warn mode: other instance untouched")

a = m.Amplifier(index=2)
with errors.override_raise_controller_value_errors(True):
    try:
        a.volume = 2000
    except ControllerValueError as e:
        check(e.args == ("2(Amplifier).volume=2000 is not within [0, 1024]",), "set msg")
    check(a.volume == 256, "failed set keeps old value")
    try:
        a.set_raw("volume", 1025)
    except ControllerValueError as e:
        check(e.args == ("2(Amplifier).volume=1025 is not within [0, 1024]",), "raw msg")
    else:
        check(False, "set_raw out of range must raise")
    check(a.volume == 256, "failed set_raw keeps old value")
    a.set_raw("volume", 1024)
    check(a.volume == 1024 and a.get_raw("volume") == 1024, "set_raw ok")
    a.set_raw("dc_offset", 0)
    check(a.dc_offset == -128 and a.get_raw("dc_offset") == 0, "raw offset")
with errors.override_raise_controller_value_errors(False):
    a.set_raw("volume", 4000)
    check(a.volume == 4000, "warn mode set_raw keeps raw value")
    a.set_raw("dc_offset", 1000)
    check(a.dc_offset == 872, "warn mode set_raw applies offset")


# value type None and plain callables
class Holder:
    index = None
    mtype = "Holder"

    def __init__(self):
        self.controller_values = {}
        self.controllers_loaded = set()


h = Holder()
c = Controller(None, 5)
c.name = "nothing"
c.set_initial(h, 17)
check(h.controller_values == {"nothing": None}, "None value type stores None")
c.set_initial(h, "text")
check(h.controller_values == {"nothing": None}, "None value type with str")
c2 = Controller(int, 0)
c2.name = "number"
c2.set_initial(h, "12")
check(h.controller_values["number"] == 12, "str through non-enum type")
c3 = Controller((0, 10), 0)
c3.name = "ranged"
with errors.override_raise_controller_value_errors(True):
    try:
        c3.set_initial(h, 11)
    except ControllerValueError as e:
        check(e.args == ("0(Holder).ranged=11 is not within [0, 10]",), "holder msg")
    check("ranged" not in h.controller_values, "nothing stored on failure")
with errors.override_raise_controller_value_errors(False):
    c3.set_initial(h, 11)
    check(h.controller_values["ranged"] == 11, "stored in warn mode")
    try:
        c3.set_initial(h, "x")
    except TypeError:
        pass
    else:
        check(False, "str against a Range must raise TypeError")

# ------------------------------------------------------------------ load_cmid
rec = lambda t, ch, sl, par: pack("<BBBBHBB", t, ch, sl, 0, par, 0, 0xC8)  # noqa: E731
names = list(m.Amplifier.controllers)
for length in (0, 1, 7, 8, 9, 15, 16, 17, 8 * len(names), 8 * len(names) + 8, 1000):
    a, b = m.Amplifier(), m.Amplifier()
    data = b"".join(rec(3, i % 16, 2, 100 + i) for i in range(200))[:length]
    a.load_cmid(data)
    n = min(length // 8, len(names))
    check(list(a.controller_midi_maps) == names[:n], f"cmid {length}: mapped names")
    for i, k in enumerate(names[:n]):
        cm = a.controller_midi_maps[k]
        check(
            (cm.message_type, cm.channel, cm.slope, cm.message_parameter)
            == (MidiMessageType.control_change, i % 16, Slope.exp2, 100 + i),
            f"cmid {length}: {k}",
        )
    check(len(b.controller_midi_maps) == 0, f"cmid {length}: leaked into B")
a = m.Amplifier()
a.load_cmid(bytearray(rec(1, 2, 3, 4)))
check(a.controller_midi_maps["volume"].message_parameter == 4, "bytearray cmid")
a = m.Amplifier()
try:
    a.load_cmid(rec(1, 1, 1, 1) + rec(200, 1, 1, 1) + rec(1, 1, 1, 1))
except ValueError:
    pass
else:
    check(False, "bad message type must raise")
check(list(a.controller_midi_maps) == names[:2], "records before the bad one are kept")

# ---------------------------------------------------- options save and load
with_options = [c for c in classes if c.options]
check(len(with_options) >= 5, "modules with options")
for cls in with_options:
    name = cls.__name__
    A, B = cls(), cls()
    chunks = list(A.options_chunks())
    check(chunks[0] == (b"CHNM", pack("<I", cls.options_chnm)), f"{name}: CHNM")
    used = max(o.byte + 1 for o in cls.options.values())
    check(chunks[1][0] == b"CHDT" and len(chunks[1][1]) == used, f"{name}: CHDT size")
    default_chdt = chunks[1][1]
    for pattern in (b"", b"\xff", b"\xff" * used, b"\xaa" * 64, b"\x55" * 100, b"\x01\x02"):
        ch = Chunk()
        ch.chnm, ch.chdt = cls.options_chnm, pattern
        A.load_options(ch)
        padded = list(pattern) + [0] * 64
        for o in cls.options.values():
            expect = (padded[o.byte] >> o.bit) & ((1 << o.size) - 1)
            if o.size == 1:
                expect = bool(expect)
            got = A.option_values[o.name]
            check(got == expect and type(got) is type(expect), f"{name}.{o.name} load")
        out = list(A.options_chunks())[1][1]
        ch2 = Chunk()
        ch2.chnm, ch2.chdt = cls.options_chnm, out
        C = cls()
        C.load_options(ch2)
        check(C.option_values == A.option_values, f"{name}: options roundtrip")
        check(list(B.options_chunks())[1][1] == default_chdt, f"{name}: B options changed")
    A.option_values[next(iter(cls.options))] = None
    try:
        list(A.options_chunks())
    except TypeError:
        pass
    else:
        check(False, f"{name}: None option value must raise TypeError")


without_options = [c for c in classes if not c.options]
check(len(without_options) >= 5, "modules without options")
for cls in without_options:
    check(
        list(cls().options_chunks())
        == [(b"CHNM", pack("<I", cls.options_chnm)), (b"CHDT", b"")],
        f"{cls.__name__}: no options -> empty CHDT",
    )
check(list(m.Amplifier().specialized_iff_chunks()) == [(None, None)], "no options chunks")

# ---------------------------------------------------------------------- clone
for cls in classes:
    name = cls.__name__
    if name in ("Output",):
        continue
    A = cls(name="orig", x=10, color=(9, 8, 7))
    C = A.clone()
    check(type(C) is cls and C is not A, f"{name}: clone type")
    check(C.name == "orig" and C.color == (9, 8, 7), f"{name}: clone carries state")
    check(synth_bytes(C) == synth_bytes(A), f"{name}: clone bytes")
    for attr in CONTAINERS:
        check(getattr(A, attr) is not getattr(C, attr), f"{name}: clone shares {attr}")
    abytes = synth_bytes(A)
    C.name = "changed"
    C.out_links.append(5)
    for k in C.controller_values:
        if isinstance(C.controller_values[k], bool):
            C.controller_values[k] = not C.controller_values[k]
    for k, v in C.option_values.items():
        if isinstance(v, bool):
            C.option_values[k] = not v
    check(synth_bytes(A) == abytes, f"{name}: clone -> original leak")
    cbytes = synth_bytes(C)
    A.name = "again"
    A.in_links.append(1)
    check(synth_bytes(C) == cbytes, f"{name}: original -> clone leak")
    L = read_sunvox_file(BytesIO(abytes)).module
    L2 = read_sunvox_file(BytesIO(abytes)).module
    L.name = "l"
    check(synth_bytes(L2) == abytes, f"{name}: two loads share state")

if failures:
    print("FAIL")
    for msg in failures[:40]:
        print(" -", msg)
    sys.exit(1)
print("PASS")
