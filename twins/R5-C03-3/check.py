"""Behaviour check for the module-specific chunk writers of Sampler and MetaModule
(Sampler.specialized_iff_chunks/global_config_chunks/sample_chunks,
Sampler.Envelope.chunks/point_bytes, MetaModule.specialized_iff_chunks/chnk) (property C03).

Run from the repository root:
    PYTHONPATH=<root>/src/python python check.py [--print]

It serialises many projects and synths (the bundled test files re-written by
the library plus a set of programmatically built objects covering the edge
cases of the chunk emitters), checks the structural rules of the chunk stream
with a tiny independent chunk reader, and compares a digest of every output
with the digests recorded on the reference tree.
"""
import hashlib
import io
import struct
import sys
from pathlib import Path

from rv.api import NOTE, NOTECMD, Pattern, PatternClone, Project, Synth, m, read_sunvox_file
from rv.cmidmap import MidiMessageType, Slope
from rv.errors import EmptySynthError
from rv.modules import MODULE_CLASSES, Module

ROOT = Path.cwd()
FILES = ROOT / "tests" / "files"

failures = []


def expect(cond, msg):
    if not cond:
        failures.append(msg)


def parse(data):
    """Independent chunk splitter: 4-byte id, uint32 LE length, payload."""
    out = []
    pos = 0
    while pos < len(data):
        cid = data[pos : pos + 4]
        (size,) = struct.unpack_from("<I", data, pos + 4)
        payload = data[pos + 8 : pos + 8 + size]
        assert len(payload) == size, "truncated chunk"
        out.append((cid, payload))
        pos += 8 + size
    assert pos == len(data)
    return out


def module_slots(chunks):
    """Split a parsed project/synth stream into per-module chunk lists."""
    slots, cur, seen_first = [], None, False
    for cid, payload in chunks:
        if cid == b"SFFF":
            cur = [(cid, payload)]
            continue
        if cid == b"SEND":
            slots.append(cur or [])
            cur = None
            continue
        if cur is not None:
            cur.append((cid, payload))
    return slots


def structural_checks(label, container, data):
    chunks = parse(data)
    expect(chunks == [c for c in container.chunks() if c[0] is not None], f"{label}: chunks() != bytes")
    ids = [c for c, _ in chunks]
    if isinstance(container, Project):
        expect(ids[0] == b"SVOX", f"{label}: magic")
        expect(ids.count(b"PEND") == len(container.patterns), f"{label}: PEND count")
        expect(ids.count(b"SEND") == len(container.modules), f"{label}: SEND count")
        modules = container.modules
        # header order
        hdr = ids[: ids.index(b"PATL") + 1]
        wanted = [b"SVOX", b"VERS", b"BVER", b"FLGS", b"SFGS", b"BPM ", b"SPED", b"TGRD", b"TGD2",
                  b"GVOL", b"NAME", b"MSCL", b"MZOO", b"MXOF", b"MYOF", b"LMSK", b"CURL"]
        if container.timeline_position != 0:
            wanted.append(b"TIME")
        if container.restart_position != 0:
            wanted.append(b"REPS")
        wanted += [b"SELS", b"LGEN", b"PATN", b"PATT", b"PATL"]
        expect(hdr == wanted, f"{label}: header order {hdr}")
    else:
        expect(ids[0] == b"SSYN", f"{label}: magic")
        expect(ids.count(b"SEND") == 1 and ids[-1] == b"SEND", f"{label}: SEND")
        modules = [container.module]
    # walk top level only: nested projects live inside CHDT payloads so they
    # are not visible here.
    slots = module_slots(chunks)
    expect(len(slots) == len(modules), f"{label}: slot count")
    for mod, slot in zip(modules, slots):
        sids = [c for c, _ in slot]
        if mod is None:
            expect(slot == [], f"{label}: empty slot not empty")
            continue
        attached = [n for n, c in mod.controllers.items() if c.attached(mod)]
        cvals = [p for c, p in slot if c == b"CVAL"]
        expect(len(cvals) == len(attached), f"{label}: CVAL count for {mod}")
        expect(cvals == [struct.pack("<i", mod.get_raw(n)) for n in attached], f"{label}: CVAL values")
        cmid = [p for c, p in slot if c == b"CMID"]
        if attached:
            expect(len(cmid) == 1 and len(cmid[0]) == 8 * len(attached), f"{label}: CMID size")
            expect(cmid[0] == b"".join(mod.controller_midi_maps[n].cmid_data for n in attached), f"{label}: CMID data")
        else:
            expect(cmid == [], f"{label}: unexpected CMID")
        if isinstance(container, Project):
            expect(sids.count(b"SLNK") == 1, f"{label}: SLNK count")
            slnk = dict(slot)[b"SLNK"]
            expect(slnk == b"".join(struct.pack("<i", x) for x in mod.in_links), f"{label}: SLNK data")
            need_slots = any(s not in (-1, 0) for s in mod.in_link_slots) and len(mod.in_links) > 0
            expect((b"SLnK" in sids) == need_slots, f"{label}: SLnK presence")
            if need_slots:
                expect(dict(slot)[b"SLnK"] == b"".join(struct.pack("<i", x) for x in mod.in_link_slots), f"{label}: SLnK data")
                expect(sids.index(b"SLnK") == sids.index(b"SLNK") + 1, f"{label}: SLnK position")
            if attached:
                expect(sids.index(b"SLNK") < sids.index(b"CVAL"), f"{label}: SLNK before CVAL")
        else:
            expect(b"SLNK" not in sids and b"SXXX" not in sids, f"{label}: synth has project chunks")
        if mod.chnk:
            expect(sids.count(b"CHNK") == 1, f"{label}: CHNK count")
            k = sids.index(b"CHNK")
            expect(slot[k][1] == struct.pack("<I", mod.chnk), f"{label}: CHNK value")
            if attached:
                expect(k > sids.index(b"CMID"), f"{label}: CHNK after CMID")
            for c, p in slot[k + 1 :]:
                expect(c in (b"CHNM", b"CHDT", b"CHFF", b"CHFR"), f"{label}: {c} after CHNK")
                if c == b"CHNM":
                    expect(struct.unpack("<I", p)[0] < mod.chnk, f"{label}: CHNM >= CHNK")
        else:
            expect(b"CHNK" not in sids and b"CHNM" not in sids, f"{label}: CHNK without chnk")


def build_cases():
    cases = {}

    # 1. untouched default project
    cases["default-project"] = Project()

    # 2. every module class in one project, chained
    p = Project()
    p.name = "All modules é"
    mods = []
    for name in sorted(MODULE_CLASSES):
        cls = MODULE_CLASSES[name]
        if cls is Module or name == "Output":
            continue
        try:
            mods.append(p.new_module(cls, x=len(mods) * 8, y=-len(mods)))
        except Exception as e:  # pragma: no cover
            failures.append(f"cannot construct {name}: {e!r}")
    for a, b in zip(mods, mods[1:]):
        a >> b
    mods[-1] >> p.output
    cases["all-modules"] = p

    # 3. links: fan-in, fan-out, disconnects, non-zero slots, empty slots
    p = Project()
    g1 = p.new_module(m.Generator, name="g1")
    g2 = p.new_module(m.AnalogGenerator, name="g2")
    g3 = p.new_module(m.Fm)
    amp = p.new_module(m.Amplifier)
    rev = p.new_module(m.Reverb)
    p.connect([g1, g2, g3], amp)
    amp >> rev >> p.output
    g1 >> rev
    g2 >> rev
    g1 >> p.output
    p.connect(~g2, amp)  # leaves a -1 hole
    p.modules[g3.index] = None  # empty slot in the middle
    p.modules.append(None)
    p.timeline_position = -5
    p.restart_position = 17
    p.modules_x_offset = -100
    p.modules_y_offset = 33
    p.selected_generator = 2
    p.receive_sync_midi = Project.SyncCommand.tempo
    p.receive_sync_other = Project.SyncCommand.position | Project.SyncCommand.start_stop
    p.flags = 3
    p.modules_layer_mask = 0xFFFFFFFF
    cases["links-and-holes"] = p

    # 4. only zero/-1 slots (SLnK must be absent) and only one optional field
    p = Project()
    a = p.new_module(m.Generator)
    b = p.new_module(m.Filter)
    a >> b
    b.in_link_slots[:] = [0]
    b >> p.output
    p.connect(~b, p.output)
    p.restart_position = 1
    cases["zero-slots"] = p
    p = Project()
    p.timeline_position = 9
    cases["time-only"] = p

    # 5. patterns: normal, None, clones, named, odd sizes
    p = Project()
    gen = p.new_module(m.Generator)
    gen >> p.output
    pat = Pattern(name="intro", tracks=3, lines=5, x=-8, y=32, fg_color=(1, 2, 3), bg_color=(4, 5, 6))
    for line in range(5):
        for track in range(3):
            n = pat.data[line][track]
            n.note = NOTE.C4 if (line + track) % 2 else NOTECMD.NOTE_OFF
            n.vel = line * 10 + track
            n.module = int(gen)
            n.ctl = 0x0100 * track + line
            n.val = 0x1234 + line
    p.attach_pattern(pat)
    p.attach_pattern(None)
    p.attach_pattern(PatternClone(source=0, x=16, y=0))
    p.attach_pattern(Pattern(tracks=1, lines=1))
    p.attach_pattern(PatternClone(source=3, x=-4, y=-64, flags_PFFF=9))
    p.current_pattern, p.current_track, p.current_line = 3, 0, 0
    cases["patterns"] = p

    # 6. controllers set away from defaults, MIDI maps, flags
    p = Project()
    g = p.new_module(m.AnalogGenerator, volume=11, waveform="saw", panning=-100, attack=3)
    g.controller_midi_maps["volume"].channel = 5
    g.controller_midi_maps["volume"].message_type = MidiMessageType.control_change
    g.controller_midi_maps["volume"].message_parameter = 0x1234
    g.controller_midi_maps["volume"].slope = Slope.s_curve
    g.controller_midi_maps["panning"].message_type = MidiMessageType.pitch_bend
    f = p.new_module(m.Filter, freq=1234, type="bp", mix=7)
    d = p.new_module(m.Delay, delay_l=3, delay_r=77, volume_l=0)
    ms = p.new_module(m.MultiSynth, transpose=-12, random_pitch=99)
    ctl = p.new_module(m.MultiCtl, value=12345)
    smp = p.new_module(m.Sampler, volume=3, panning=-5)
    g >> f >> d >> p.output
    ms >> g
    ctl >> f
    smp >> p.output
    cases["controllers"] = p

    # 7. metamodule with user defined controllers and a nested metamodule
    inner = Project()
    ig = inner.new_module(m.Generator, volume=100)
    ie = inner.new_module(m.Echo)
    ig >> ie >> inner.output
    mm = m.MetaModule(project=inner, user_defined_controllers=3)
    mm.mappings.values[0].module, mm.mappings.values[0].controller = ig.index, 0
    mm.mappings.values[1].module, mm.mappings.values[1].controller = ie.index, 2
    mm.mappings.values[2].module, mm.mappings.values[2].controller = ig.index, 3
    mm.recompute_controller_attachment()
    mm.update_user_defined_controllers()
    mm.user_defined[0].label = "Vol"
    mm.user_defined[2].label = "Third ü"
    mm.user_defined_1 = 55
    cases["metamodule-synth"] = Synth(mm)
    outer = Project()
    outer.attach_module(mm)
    mm >> outer.output
    outer2 = Project()
    mm2 = outer2.new_module(m.MetaModule, project=outer, user_defined_controllers=0)
    mm2 >> outer2.output
    cases["metamodule-project"] = outer
    cases["metamodule-nested"] = outer2
    mm3 = m.MetaModule(user_defined_controllers=96)
    cases["metamodule-96"] = Synth(mm3)
    # A synth recomputes attachment itself: stale attachment must not leak.
    mm4 = m.MetaModule()
    mm4.user_defined_controllers = 4
    for c in mm4.user_defined:
        c.detach(mm4)
    cases["metamodule-stale-attach"] = Synth(mm4)
    mm5 = m.MetaModule()
    mm5.user_defined_controllers = 2
    for c in mm5.user_defined:
        c.detach(mm5)
    p5 = Project()
    p5.attach_module(mm5)
    cases["metamodule-stale-attach-project"] = p5  # project does NOT recompute

    # 8. every module class as a synth, and as attached-module synth
    for name in sorted(MODULE_CLASSES):
        cls = MODULE_CLASSES[name]
        if cls is Module:
            continue
        cases[f"synth-{name}"] = Synth(cls())
    p = Project()
    att = p.new_module(m.Kicker, x=1, y=2, layer=3)
    cases["synth-of-attached-module"] = Synth(att)
    return cases


def file_cases():
    cases = {}
    for path in sorted(FILES.rglob("*")):
        if path.suffix not in (".sunvox", ".sunsynth"):
            continue
        with path.open("rb") as f:
            cases["file:" + path.relative_to(FILES).as_posix()] = read_sunvox_file(f)
    return cases


def error_cases():
    try:
        Synth().read()
        expect(False, "empty synth did not raise")
    except EmptySynthError:
        pass
    try:
        list(Synth(None).chunks())
        expect(False, "empty synth chunks did not raise")
    except EmptySynthError:
        pass
    try:
        Synth(Module()).read()
        expect(False, "base Module synth did not raise")
    except RuntimeError as e:
        expect(type(e) is RuntimeError, "base Module error type")
    # mismatching link slots -> struct.error before SLNK is produced
    p = Project()
    g = p.new_module(m.Generator)
    g >> p.output
    p.output.in_link_slots.append(0)
    got = []
    try:
        for c in p.chunks():
            got.append(c[0])
        expect(False, "bad link slots did not raise")
    except struct.error:
        expect(b"SLNK" not in got and got[-1] == b"SMIP", f"bad link slots: raised late {got[-3:]}")
    # out-of-range header field
    p = Project()
    p.initial_bpm = -1
    try:
        p.read()
        expect(False, "negative bpm did not raise")
    except struct.error:
        pass
    # generators are lazy: header is produced before modules are looked at
    p = Project()
    it = p.chunks()
    first = [next(it)[0] for _ in range(3)]
    expect(first == [b"SVOX", b"VERS", b"BVER"], "lazy header")
    p.name = "changed-late"
    rest = dict(it)
    expect(rest[b"NAME"] == b"changed-late\0", "lazy NAME evaluation")



def specialized(mod):
    """(chnm, chdt, chff, chfr) records from a module's specialized chunks."""
    records = []
    for cid, payload in mod.specialized_iff_chunks():
        if cid is None:
            continue
        if cid == b"CHNM":
            records.append({"chnm": struct.unpack("<I", payload)[0]})
        else:
            expect(cid in (b"CHDT", b"CHFF", b"CHFR") and cid not in records[-1], f"unexpected {cid}")
            records[-1][cid] = payload
    return records


def expected_envelope(env):
    lo = env.range[0]
    head = struct.pack("<H", int(env.enable) | int(env.sustain) * 2 | int(env.loop) * 4)
    head += bytes([env.ctl_index, env.gain_pct, env.velocity, 0, 0, 0])
    head += struct.pack("<HHHH", len(env.points), env.sustain_point, env.loop_start_point, env.loop_end_point)
    head += b"\0\0\0\0"
    return head + b"".join(struct.pack("<HH", x, y - lo) for x, y in env.points)


def expected_legacy_points(env):
    lo = env.range[0] // 0x200
    pts = [(x, y // 0x200 - lo) for x, y in env.points][:12]
    pts += [(0, 0 - lo)] * (12 - len(pts))
    return b"".join(struct.pack("<HH", x, y) for x, y in pts)


def make_sample(fmt, channels, loop_type, sustain, frames, **kw):
    smp = m.Sampler.Sample()
    smp.format, smp.channels, smp.loop_type, smp.loop_sustain = fmt, channels, loop_type, sustain
    size = {m.Sampler.Format.int8: 1, m.Sampler.Format.int16: 2, m.Sampler.Format.float32: 4}[fmt]
    size *= 2 if channels == m.Sampler.Channels.stereo else 1
    smp.data = bytes((i * 7 + 3) % 256 for i in range(frames * size))
    for k, v in kw.items():
        setattr(smp, k, v)
    return smp


def sampler_cases():
    S = m.Sampler
    cases = {}
    cases["sampler-default"] = S()

    s1 = S(instrument_name=b"a rather long instrument name!", volume=200)
    k = 0
    for fmt in S.Format:
        for ch in S.Channels:
            for lt in S.LoopType:
                slot = [0, 1, 5, 17, 64, 126, 127][k % 7] if k < 7 else k + 10
                s1.samples[slot] = make_sample(
                    fmt, ch, lt, bool(k % 2), frames=k % 5,
                    loop_start=k, loop_len=k * 2, volume=k % 65, finetune=(k * 13) % 256 - 128,
                    panning=(k * 29) % 256 - 128, relative_note=k - 9, reserved2=k % 3,
                    name=(b"smp %d " % k) * (k % 5), start_pos=k * 1000, rate=8000 + k,
                )
                k += 1
    for i, note in enumerate(s1.note_samples):
        s1.note_samples[note] = (i * 5) % 128
    s1.vibrato_type = S.VibratoType.square
    s1.vibrato_attack, s1.vibrato_depth, s1.vibrato_rate, s1.volume_fadeout = 255, 17, 63, 8192
    s1.volume_old, s1.ins_finetune, s1.ins_relative_note = 3, -128, 127
    s1.editor_cursor, s1.editor_selected_size = -1, 123456
    s1.unused1, s1.unused2, s1.unused3, s1.unused4, s1.unused5, s1.unused6 = 1, 2, 3, 4, 5, 6
    s1.version, s1.max_version = 5, 7
    s1.record_in_mono = True
    s1.fit_to_pattern = True
    cases["sampler-many-samples"] = s1

    s2 = S()
    s2.volume_envelope.points = []
    s2.volume_envelope.enable, s2.volume_envelope.sustain, s2.volume_envelope.loop = False, False, True
    s2.panning_envelope.points = [(i * 10, -0x4000 + i * 0x555) for i in range(12)]
    s2.panning_envelope.enable = True
    s2.panning_envelope.sustain_point, s2.panning_envelope.loop_start_point, s2.panning_envelope.loop_end_point = 11, 2, 9
    s2.pitch_envelope.points = [(i * 3, (-1) ** i * i * 0x100) for i in range(40)]
    s2.pitch_envelope.ctl_index, s2.pitch_envelope.gain_pct, s2.pitch_envelope.velocity = 3, 255, 1
    for i, env in enumerate(s2.effect_control_envelopes):
        env.points = [(j * (i + 1), 0x8000 - j * 0x123) for j in range(i * 5)]
        env.enable = bool(i % 2)
        env.ctl_index = i
    s2.samples[2] = make_sample(S.Format.int16, S.Channels.mono, S.LoopType.ping_pong, True, 9)
    cases["sampler-envelopes"] = s2

    s3 = S()
    s3.volume_envelope.points = [(i, 0x8000 - i * 0x200) for i in range(20)]  # more than 12: legacy copy truncated
    s3.panning_envelope.points = [(1, 0x4000)]
    s3.effect = Synth(m.Filter(freq=555))
    cases["sampler-effect-filter"] = s3

    s4 = S()
    s4.effect = Synth(m.Sampler())
    s4.effect.module.samples[0] = make_sample(S.Format.int8, S.Channels.mono, S.LoopType.off, False, 3)
    s4.samples[127] = make_sample(S.Format.float32, S.Channels.stereo, S.LoopType.forward, False, 2)
    cases["sampler-nested-effect"] = s4
    return cases


def check_sampler(label, smp):
    S = m.Sampler
    recs = specialized(smp)
    chnms = [r["chnm"] for r in recs]
    used = [i for i, x in enumerate(smp.samples) if x is not None]
    want = [0]
    for i in used:
        want += [2 * i + 1, 2 * i + 2]
    want += [0x101, 0x102, 0x103, 0x104, 0x105, 0x106, 0x107, 0x108]
    if smp.effect:
        want.append(0x10A)
    expect(chnms == want, f"{label}: CHNM sequence {chnms}")
    expect(all(c < smp.chnk for c in chnms), f"{label}: CHNM below CHNK")
    by = {r["chnm"]: r for r in recs}
    rec = by[0][b"CHDT"]
    expect(len(rec) == 400, f"{label}: instrument record is {len(rec)} bytes")
    vol, pan = smp.volume_envelope, smp.panning_envelope
    exp = struct.pack("<I", smp.unused1) + smp.instrument_name[:22].ljust(22, b"\0")
    exp += struct.pack("<HHHI", smp.unused2, (used[-1] + 1) if used else 0, smp.unused3, smp.unused4)
    nb = bytes(smp.note_samples.values())
    exp += nb[:96] + expected_legacy_points(vol) + expected_legacy_points(pan)
    exp += bytes([len(vol.points), len(pan.points), vol.sustain_point, vol.loop_start_point, vol.loop_end_point,
                  pan.sustain_point, pan.loop_start_point, pan.loop_end_point, vol.bitmask, pan.bitmask,
                  smp.vibrato_type.value, smp.vibrato_attack, smp.vibrato_depth, smp.vibrato_rate])
    exp += struct.pack("<HBbBbI", smp.volume_fadeout, smp.volume_old, smp.ins_finetune, smp.unused5, smp.ins_relative_note, smp.unused6)
    exp += b"PMAS" + struct.pack("<I", smp.version) + nb.ljust(128, b"\0")
    exp += struct.pack("<Iii", smp.max_version, smp.editor_cursor, smp.editor_selected_size)
    expect(rec == exp, f"{label}: instrument record content")
    expect(list(smp.global_config_chunks()) == [(b"CHNM", b"\0\0\0\0"), (b"CHDT", exp)], f"{label}: global_config_chunks")
    for i in used:
        x = smp.samples[i]
        flags = x.loop_type.value | {1: 0, 2: 0x10, 4: 0x20}[x.format.value] | (0x40 if x.channels.value else 0) | (4 if x.loop_sustain else 0)
        meta = struct.pack("<IIIBbBBbB", x.frames, x.loop_start, x.loop_len, x.volume, x.finetune, flags,
                           x.panning + 0x80, x.relative_note, x.reserved2)
        meta += x.name[:22].ljust(22, b"\0") + struct.pack("<I", x.start_pos)
        expect(len(meta) == 44, "sample record size")
        got = list(smp.sample_chunks(i, x))
        expect(got == [
            (b"CHNM", struct.pack("<I", 2 * i + 1)), (b"CHDT", meta),
            (b"CHNM", struct.pack("<I", 2 * i + 2)), (b"CHDT", x.data),
            (b"CHFF", struct.pack("<I", x.format.value | x.channels.value)), (b"CHFR", struct.pack("<I", x.rate)),
        ], f"{label}: sample_chunks {i}")
        expect(by[2 * i + 1][b"CHDT"] == meta and by[2 * i + 2][b"CHDT"] == x.data, f"{label}: sample {i} in stream")
    envs = [vol, pan, smp.pitch_envelope] + list(smp.effect_control_envelopes)
    for chnm, env in zip(range(0x102, 0x109), envs):
        expect(env.chnm == chnm, "envelope chnm")
        expect(by[chnm][b"CHDT"] == expected_envelope(env), f"{label}: envelope {chnm:x}")
        expect(list(env.chunks()) == [(b"CHNM", struct.pack("<I", chnm)), (b"CHDT", expected_envelope(env))], f"{label}: env.chunks {chnm:x}")
        expect(env.point_bytes == expected_legacy_points(env) and len(env.point_bytes) == 48, f"{label}: point_bytes {chnm:x}")
        expect(len(env._x_values) == 12 and len(env._y_values) == 12, "legacy value count")
    if smp.effect:
        expect(by[0x10A][b"CHDT"] == smp.effect.read(), f"{label}: effect payload")
        expect(by[0x10A][b"CHDT"][:4] == b"SSYN", f"{label}: effect magic")
    expect(list(smp.sample_data_chunks()) == [c for i in used for c in smp.sample_chunks(i, smp.samples[i])], f"{label}: sample_data_chunks")


def sampler_errors():
    S = m.Sampler

    def drain(gen):
        got = []
        try:
            for c in gen:
                got.append(c)
        except Exception as e:  # noqa
            return got, type(e)
        return got, None

    s = S()
    s.unused3 = -1
    got, err = drain(s.global_config_chunks())
    expect(err is struct.error and got == [], f"bad instrument field: {err} after {len(got)} chunks")
    got, err = drain(s.specialized_iff_chunks())
    expect(err is struct.error and got == [], "bad instrument field via specialized")
    s = S()
    s.volume_envelope.points = [(0, 0)] * 256  # count does not fit the legacy uint8
    got, err = drain(s.specialized_iff_chunks())
    expect(err is struct.error and got == [], "too many envelope points")
    s = S()
    s.note_samples[NOTE.C0] = 256
    got, err = drain(s.global_config_chunks())
    expect(err is ValueError and got == [], f"bad note sample: {err}")
    s = S()
    s.instrument_name = "text"
    got, err = drain(s.global_config_chunks())
    expect(err is TypeError and got == [], f"str instrument name: {err}")

    s = S()
    x = make_sample(S.Format.int8, S.Channels.mono, S.LoopType.off, False, 4, volume=256)
    got, err = drain(s.sample_chunks(3, x))
    expect(err is struct.error and got == [], "bad sample volume")
    x = make_sample(S.Format.int8, S.Channels.mono, S.LoopType.off, False, 4)
    x.format = 3
    got, err = drain(s.sample_chunks(3, x))
    expect(err is KeyError and got == [], f"bad sample format: {err}")
    x = make_sample(S.Format.int8, S.Channels.mono, S.LoopType.off, False, 4)
    x.channels = 1
    got, err = drain(s.sample_chunks(3, x))
    expect(err is KeyError and got == [], f"bad sample channels: {err}")
    x = make_sample(S.Format.int8, S.Channels.mono, S.LoopType.off, False, 4, rate=-1)
    got, err = drain(s.sample_chunks(0, x))
    expect(err is struct.error and [c for c, _ in got] == [b"CHNM", b"CHDT", b"CHNM", b"CHDT", b"CHFF"], "bad sample rate raised late")
    x = make_sample(S.Format.int16, S.Channels.stereo, S.LoopType.off, False, 1, panning=128)
    got, err = drain(s.sample_chunks(0, x))
    expect(err is struct.error and got == [], "panning overflow")

    s = S()
    s.pitch_envelope.sustain_point = 70000
    got, err = drain(s.pitch_envelope.chunks())
    expect(err is struct.error and got == [(b"CHNM", struct.pack("<I", 0x104))], "envelope header overflow yields CHNM first")
    s = S()
    s.pitch_envelope.points = [(0, -0x4001)]
    got, err = drain(s.pitch_envelope.chunks())
    expect(err is struct.error and len(got) == 1, "envelope point below range")
    got, err = drain(s.specialized_iff_chunks())
    last = [struct.unpack("<I", p)[0] for c, p in got if c == b"CHNM"]
    expect(err is struct.error and last[-1] == 0x104 and got[-1][0] == b"CHNM", "envelope error position in stream")

    s = S()
    s.effect_control_envelopes.pop()
    got, err = drain(s.specialized_iff_chunks())
    expect(err is IndexError and got == [], f"missing effect envelope: {err} after {len(got)}")
    s = S()
    s.effect_control_envelopes.append(S.EffectControlEnvelope(0x109))
    got, err = drain(s.specialized_iff_chunks())
    expect(err is None and [struct.unpack("<I", p)[0] for c, p in got if c == b"CHNM"][-1] == 0x108, "extra effect envelope ignored")

    # legacy instruments are written back from their raw chunks
    from rv.modules.module import Chunk
    s = S()
    s.is_legacy = True
    c1, c2 = Chunk(), Chunk()
    c1.chnm, c1.chdt, c1.chff, c1.chfr = 0, b"legacy!", 0, 44100
    c2.chnm, c2.chdt, c2.chff, c2.chfr = 2, b"\1\2", None, None
    s.legacy_chunks = [c1, c2]
    expect(list(s.specialized_iff_chunks()) == [
        (b"CHNM", b"\0\0\0\0"), (b"CHDT", b"legacy!"), (b"CHFF", b"\0\0\0\0"), (b"CHFR", struct.pack("<I", 44100)),
        (b"CHNM", b"\2\0\0\0"), (b"CHDT", b"\1\2"),
    ], "legacy chunks passthrough")
    expect(list(S().envelope_config_chunks()) == [(b"CHNM", struct.pack("<I", 0x101)), (b"CHDT", b"\0" * 6)], "envelope_config_chunks")
    expect([e.chnm for e in S().effect_control_envelopes] == [0x105, 0x106, 0x107, 0x108], "effect envelope numbering")
    expect(S.chnk == 0x10B and S().chnk == 0x10B, "Sampler.chnk")

    # laziness: CHNM 0 appears before the samples are looked at
    s = S()
    it = s.specialized_iff_chunks()
    first = next(it)
    expect(first == (b"CHNM", b"\0\0\0\0"), "first specialized chunk")
    s.samples[0] = make_sample(S.Format.int8, S.Channels.mono, S.LoopType.off, False, 1)
    rest = list(it)
    expect((b"CHNM", b"\1\0\0\0") in rest, "samples evaluated lazily")


def metamodule_checks():
    MM = m.MetaModule
    expect(MM().chnk == 104, "MetaModule.chnk")
    inner = Project()
    g = inner.new_module(m.Generator)
    g >> inner.output
    mm = MM(project=inner, user_defined_controllers=5, arpeggiator=True)
    mm.mappings.values[0].module, mm.mappings.values[0].controller = g.index, 0
    mm.mappings.values[95].module, mm.mappings.values[95].controller = 7, 9
    mm.user_defined[0].label = "First"
    mm.user_defined[1].label = None
    mm.user_defined[2].label = ""
    mm.user_defined[4].label = "Füñf"
    mm.user_defined[5].label = "detached, not written"
    mm.user_defined[95].label = "also detached"
    recs = specialized(mm)
    expect([r["chnm"] for r in recs] == [0, 1, 2, 8, 10, 12], f"metamodule CHNM sequence {[r['chnm'] for r in recs]}")
    expect(recs[0][b"CHDT"] == inner.read(), "metamodule project payload")
    maps = [(0, 0)] * 96
    maps[0] = (g.index, 0)
    maps[95] = (7, 9)
    expect(recs[1][b"CHDT"] == b"".join(struct.pack("<HH", a, b) for a, b in maps), "metamodule mappings")
    expect(recs[2][b"CHDT"] == list(mm.options_chunks())[1][1], "metamodule options")
    expect([r[b"CHDT"] for r in recs[3:]] == [b"First\0", b"\0", "Füñf".encode("utf8") + b"\0"], "metamodule labels")
    expect(all(r["chnm"] < mm.chnk for r in recs), "metamodule CHNM below CHNK")
    raw = list(mm.specialized_iff_chunks())
    expect(raw[0] == (b"CHNM", b"\0\0\0\0") and raw[1][0] == b"CHDT", "metamodule first chunks")
    # all 96 attached and labelled
    mm2 = MM(user_defined_controllers=96)
    for i, c in enumerate(mm2.user_defined):
        c.label = f"L{i}"
    recs = specialized(mm2)
    expect([r["chnm"] for r in recs] == [0, 1, 2] + list(range(8, 104)), "metamodule 96 labels")
    expect(recs[-1][b"CHDT"] == b"L95\0" and recs[-1]["chnm"] == mm2.chnk - 1, "metamodule last label")
    # round trip through the library's reader keeps labels and mappings
    back = read_sunvox_file(io.BytesIO(Synth(mm).read())).module
    expect([c.label for c in back.user_defined[:6]] == ["First", None, "", None, "Füñf", None], "metamodule labels reloaded")
    expect((back.mappings.values[95].module, back.mappings.values[95].controller) == (7, 9), "metamodule mappings reloaded")
    # lazy: the project is serialised when its CHDT is reached
    mm3 = MM()
    it = mm3.specialized_iff_chunks()
    next(it)
    mm3.project.name = "renamed late"
    expect(b"renamed late" in next(it)[1], "metamodule project lazy")
    bad = MM(user_defined_controllers=1)
    bad.user_defined[0].label = b"bytes"
    try:
        list(bad.specialized_iff_chunks())
        expect(False, "bytes label")
    except AttributeError:
        pass


def unit_checks():
    for label, smp in sampler_cases().items():
        check_sampler(label, smp)
    sampler_errors()
    metamodule_checks()


EXPECTED = {}  # filled in below


def main():
    digests = {}
    cases = build_cases()
    cases.update(file_cases())
    proj = Project()
    for label, smp in sampler_cases().items():
        cases["synth:" + label] = Synth(smp)
    for label, smp in sampler_cases().items():
        proj.attach_module(smp)
        smp >> proj.output
    cases["project:samplers"] = proj
    for label, obj in cases.items():
        data = obj.read()
        buf = io.BytesIO()
        obj.write_to(buf)
        expect(buf.getvalue() == data, f"{label}: write_to != read")
        structural_checks(label, obj, data)
        digests[label] = hashlib.sha256(data).hexdigest()[:16]
        # what we wrote is readable and stable when written again
        try:
            again = read_sunvox_file(io.BytesIO(data))
            digests[label + "#2"] = hashlib.sha256(again.read()).hexdigest()[:16]
        except Exception as e:  # the library's reader rejects a few odd graphs
            digests[label + "#2"] = "unreadable:" + type(e).__name__
    error_cases()
    unit_checks()
    if "--print" in sys.argv:
        for k, v in digests.items():
            print(f"    {k!r}: {v!r},")
        for f in failures:
            print("FAILURE", f, file=sys.stderr)
        return
    expect(set(digests) == set(EXPECTED), f"case set differs: {sorted(set(digests) ^ set(EXPECTED))}")
    for k, v in digests.items():
        if EXPECTED.get(k) != v:
            failures.append(f"{k}: digest {v} != expected {EXPECTED.get(k)}")
    if failures:
        print("FAIL")
        for f in failures[:40]:
            print("  ", f)
        sys.exit(1)
    print(f"PASS ({len(cases)} objects, {len(digests)} digests)")


# EXPECTED-BEGIN
EXPECTED.update({
    'default-project': '406949941dae172b',
    'default-project#2': '406949941dae172b',
    'all-modules': '06ca6eae1db53b0a',
    'all-modules#2': '06ca6eae1db53b0a',
    'links-and-holes': '927c9d3771129e2e',
    'links-and-holes#2': 'unreadable:AttributeError',
    'zero-slots': 'd3024c367c08b72f',
    'zero-slots#2': '79db41e594da598d',
    'time-only': 'f11f2cd193d497c1',
    'time-only#2': 'f11f2cd193d497c1',
    'patterns': '2f212785b28da6c0',
    'patterns#2': '2f212785b28da6c0',
    'controllers': '557bf5cee7ee87f7',
    'controllers#2': '557bf5cee7ee87f7',
    'metamodule-synth': '8202b7ddbc3f75fb',
    'metamodule-synth#2': '8202b7ddbc3f75fb',
    'metamodule-project': '96cee6763edbdb0e',
    'metamodule-project#2': '96cee6763edbdb0e',
    'metamodule-nested': 'f9d0a664dafe0513',
    'metamodule-nested#2': 'f9d0a664dafe0513',
    'metamodule-96': 'dc131b0ae8bd0884',
    'metamodule-96#2': 'dc131b0ae8bd0884',
    'metamodule-stale-attach': '97979fcfede221bc',
    'metamodule-stale-attach#2': '97979fcfede221bc',
    'metamodule-stale-attach-project': '3ed93e272e817e4d',
    'metamodule-stale-attach-project#2': '153ff748f5943c68',
    'synth-ADSR': '1b3b645f5435a83f',
    'synth-ADSR#2': '1b3b645f5435a83f',
    'synth-Amplifier': 'a82b674409094690',
    'synth-Amplifier#2': 'a82b674409094690',
    'synth-Analog generator': '4e945946da60253c',
    'synth-Analog generator#2': '4e945946da60253c',
    'synth-Compressor': '827c37689c933bd0',
    'synth-Compressor#2': '827c37689c933bd0',
    'synth-Ctl2Note': '18e51f6894b19426',
    'synth-Ctl2Note#2': '18e51f6894b19426',
    'synth-DC Blocker': 'bef64d4a72e57df0',
    'synth-DC Blocker#2': 'bef64d4a72e57df0',
    'synth-Delay': '9a5599b6883d1713',
    'synth-Delay#2': '9a5599b6883d1713',
    'synth-Distortion': '600f1d0ce8ebfad3',
    'synth-Distortion#2': '600f1d0ce8ebfad3',
    'synth-DrumSynth': '4e2a7484cbd34df2',
    'synth-DrumSynth#2': '4e2a7484cbd34df2',
    'synth-EQ': '0b7a6c926d7ca837',
    'synth-EQ#2': '0b7a6c926d7ca837',
    'synth-Echo': '93015698fbbbad01',
    'synth-Echo#2': '93015698fbbbad01',
    'synth-FFT': '7a04b190423a0ac9',
    'synth-FFT#2': '7a04b190423a0ac9',
    'synth-FM': '3a22416b72efa22a',
    'synth-FM#2': '3a22416b72efa22a',
    'synth-FMX': '3eb51b3667ad6221',
    'synth-FMX#2': '3eb51b3667ad6221',
    'synth-Feedback': 'f4064e3c4244069b',
    'synth-Feedback#2': 'f4064e3c4244069b',
    'synth-Filter': '4248ce2bb28da3f7',
    'synth-Filter#2': '4248ce2bb28da3f7',
    'synth-Filter Pro': '9ffe3426097ee40b',
    'synth-Filter Pro#2': '9ffe3426097ee40b',
    'synth-Flanger': '492115489c33ab05',
    'synth-Flanger#2': '492115489c33ab05',
    'synth-GPIO': 'd72f4b49539630dc',
    'synth-GPIO#2': 'd72f4b49539630dc',
    'synth-Generator': '29b07081976df45b',
    'synth-Generator#2': '29b07081976df45b',
    'synth-Glide': 'a07b02cf584eee56',
    'synth-Glide#2': 'a07b02cf584eee56',
    'synth-Input': '5b8544399d18a2e0',
    'synth-Input#2': '5b8544399d18a2e0',
    'synth-Kicker': '9b277d344f2097cc',
    'synth-Kicker#2': '9b277d344f2097cc',
    'synth-LFO': 'fe4dccdc77085309',
    'synth-LFO#2': 'fe4dccdc77085309',
    'synth-Loop': '2f8b6071edc1f0b2',
    'synth-Loop#2': '2f8b6071edc1f0b2',
    'synth-MetaModule': '5db044749e2b1bb0',
    'synth-MetaModule#2': '5db044749e2b1bb0',
    'synth-Modulator': '9a5a32cc5999ea36',
    'synth-Modulator#2': '9a5a32cc5999ea36',
    'synth-MultiCtl': 'f5eaa24af7b07229',
    'synth-MultiCtl#2': 'f5eaa24af7b07229',
    'synth-MultiSynth': '0e07abfdde388212',
    'synth-MultiSynth#2': '0e07abfdde388212',
    'synth-Output': '0af3d02e7eea9587',
    'synth-Output#2': 'unreadable:RuntimeError',
    'synth-Pitch Detector': 'ccd462503fa985fc',
    'synth-Pitch Detector#2': 'ccd462503fa985fc',
    'synth-Pitch shifter': '3b35357d7ee87b03',
    'synth-Pitch shifter#2': '3b35357d7ee87b03',
    'synth-Pitch2Ctl': '210e5a847b10e585',
    'synth-Pitch2Ctl#2': '210e5a847b10e585',
    'synth-Reverb': '5bde254b6519fdfe',
    'synth-Reverb#2': '5bde254b6519fdfe',
    'synth-Sampler': 'c665ea9372f6fad3',
    'synth-Sampler#2': 'c665ea9372f6fad3',
    'synth-Smooth': '0fb36ec4d552f84a',
    'synth-Smooth#2': '0fb36ec4d552f84a',
    'synth-Sound2Ctl': '3b9ca827c2cc84a4',
    'synth-Sound2Ctl#2': '3b9ca827c2cc84a4',
    'synth-SpectraVoice': '09cc4542f66ff314',
    'synth-SpectraVoice#2': '09cc4542f66ff314',
    'synth-Velocity2Ctl': '415dde76f688941f',
    'synth-Velocity2Ctl#2': '415dde76f688941f',
    'synth-Vibrato': '31acbc1f942264cc',
    'synth-Vibrato#2': '31acbc1f942264cc',
    'synth-Vocal filter': 'b71898aba0fef0a2',
    'synth-Vocal filter#2': 'b71898aba0fef0a2',
    'synth-Vorbis player': '9a4735868b1e1c0f',
    'synth-Vorbis player#2': '9a4735868b1e1c0f',
    'synth-WaveShaper': 'adfbbe8dfb07dac4',
    'synth-WaveShaper#2': 'adfbbe8dfb07dac4',
    'synth-of-attached-module': '9b277d344f2097cc',
    'synth-of-attached-module#2': '9b277d344f2097cc',
    'file:amplifier.sunsynth': '419f5717e558efbc',
    'file:amplifier.sunsynth#2': '419f5717e558efbc',
    'file:analog-generator.sunsynth': '76ce674ef1db6717',
    'file:analog-generator.sunsynth#2': '76ce674ef1db6717',
    'file:compressor.sunsynth': '7e4fa89c60186b9a',
    'file:compressor.sunsynth#2': '7e4fa89c60186b9a',
    'file:dc-blocker.sunsynth': '1312bb3c1626a845',
    'file:dc-blocker.sunsynth#2': '1312bb3c1626a845',
    'file:delay.sunsynth': '32ee6c78f799b00c',
    'file:delay.sunsynth#2': '32ee6c78f799b00c',
    'file:distortion.sunsynth': 'e9b59951b8753b41',
    'file:distortion.sunsynth#2': 'e9b59951b8753b41',
    'file:drum-synth.sunsynth': '6d8ad0364d91a386',
    'file:drum-synth.sunsynth#2': '6d8ad0364d91a386',
    'file:echo.sunsynth': 'a51866593f018ff9',
    'file:echo.sunsynth#2': 'a51866593f018ff9',
    'file:empty.sunvox': '0b58f6338b84cd2a',
    'file:empty.sunvox#2': '0b58f6338b84cd2a',
    'file:eq.sunsynth': 'c6e8877e93f69f7f',
    'file:eq.sunsynth#2': 'c6e8877e93f69f7f',
    'file:feedback.sunsynth': '09a1d368f8d97439',
    'file:feedback.sunsynth#2': '09a1d368f8d97439',
    'file:fft.sunsynth': 'a532a1e449a579c5',
    'file:fft.sunsynth#2': 'a532a1e449a579c5',
    'file:filter-pro.sunsynth': '87b217d025f588bb',
    'file:filter-pro.sunsynth#2': '87b217d025f588bb',
    'file:filter.sunsynth': 'ccf4f2af334e7d85',
    'file:filter.sunsynth#2': 'ccf4f2af334e7d85',
    'file:flanger.sunsynth': '658f4783cc9c248e',
    'file:flanger.sunsynth#2': '658f4783cc9c248e',
    'file:fmx.sunsynth': 'd2b0427af5abec18',
    'file:fmx.sunsynth#2': 'd2b0427af5abec18',
    'file:generator.sunsynth': '16aefebfbfb606f8',
    'file:generator.sunsynth#2': '16aefebfbfb606f8',
    'file:glide.sunsynth': '765d995ffed7b949',
    'file:glide.sunsynth#2': '765d995ffed7b949',
    'file:gpio.sunsynth': '15c3990e39ba8c2d',
    'file:gpio.sunsynth#2': '15c3990e39ba8c2d',
    'file:input.sunsynth': '025ed41f84a149cb',
    'file:input.sunsynth#2': '025ed41f84a149cb',
    'file:issue109/filter_lfo.sunvox': '7c07bab808ce3d27',
    'file:issue109/filter_lfo.sunvox#2': '7c07bab808ce3d27',
    'file:issue41/sample.sunvox': '31504b7ddfd90622',
    'file:issue41/sample.sunvox#2': '31504b7ddfd90622',
    'file:issue54/test1.sunvox': '915266c46c96537b',
    'file:issue54/test1.sunvox#2': '915266c46c96537b',
    'file:kicker.sunsynth': '33abb29c4834873a',
    'file:kicker.sunsynth#2': '33abb29c4834873a',
    'file:lfo.sunsynth': 'efa89196cf44067f',
    'file:lfo.sunsynth#2': 'efa89196cf44067f',
    'file:loop.sunsynth': '57eca85729cb1af4',
    'file:loop.sunsynth#2': '57eca85729cb1af4',
    'file:metamodule-option-78.sunsynth': '76bf484725a761c1',
    'file:metamodule-option-78.sunsynth#2': '76bf484725a761c1',
    'file:metamodule-option-79.sunsynth': '8d8a050747174fd9',
    'file:metamodule-option-79.sunsynth#2': '8d8a050747174fd9',
    'file:metamodule-option-7a.sunsynth': '36db7cdd1df60d03',
    'file:metamodule-option-7a.sunsynth#2': '36db7cdd1df60d03',
    'file:metamodule.sunsynth': '55f5fd0bfba89745',
    'file:metamodule.sunsynth#2': '55f5fd0bfba89745',
    'file:modulator.sunsynth': '22d3e9b37c36f881',
    'file:modulator.sunsynth#2': '22d3e9b37c36f881',
    'file:module-multiselect.sunvox': '8fa3a4e0ed3b0d49',
    'file:module-multiselect.sunvox#2': '8fa3a4e0ed3b0d49',
    'file:multictl.sunsynth': '66b009f3228bb000',
    'file:multictl.sunsynth#2': '66b009f3228bb000',
    'file:multisynth-random-off.sunsynth': 'b4ccf1b6f4e1ed62',
    'file:multisynth-random-off.sunsynth#2': 'b4ccf1b6f4e1ed62',
    'file:multisynth-random1.sunsynth': 'a19a3f40a8bd840e',
    'file:multisynth-random1.sunsynth#2': 'a19a3f40a8bd840e',
    'file:multisynth-random2.sunsynth': '98bf489a0febc83d',
    'file:multisynth-random2.sunsynth#2': '98bf489a0febc83d',
    'file:multisynth-random3.sunsynth': 'b7fbddfa4ed104bf',
    'file:multisynth-random3.sunsynth#2': 'b7fbddfa4ed104bf',
    'file:multisynth.sunsynth': '87df69077399b611',
    'file:multisynth.sunsynth#2': '87df69077399b611',
    'file:pitch-shifter.sunsynth': '4c58b5705344a08e',
    'file:pitch-shifter.sunsynth#2': '4c58b5705344a08e',
    'file:pitch2ctl.sunsynth': '73252da465dfcc2f',
    'file:pitch2ctl.sunsynth#2': '73252da465dfcc2f',
    'file:reverb.sunsynth': '90db4c635458e8fe',
    'file:reverb.sunsynth#2': '90db4c635458e8fe',
    'file:sampler.sunsynth': '3b0f2915c2ec0456',
    'file:sampler.sunsynth#2': '3b0f2915c2ec0456',
    'file:single-fm.sunvox': 'ca3eb0ed7d25ba31',
    'file:single-fm.sunvox#2': 'ca3eb0ed7d25ba31',
    'file:smooth.sunsynth': '673c38cfc74b338e',
    'file:smooth.sunsynth#2': '673c38cfc74b338e',
    'file:sound2ctl.sunsynth': 'fd4a139c6dc96ebf',
    'file:sound2ctl.sunsynth#2': 'fd4a139c6dc96ebf',
    'file:spectravoice.sunsynth': '112111c76bcab011',
    'file:spectravoice.sunsynth#2': '112111c76bcab011',
    'file:supertracks.sunvox': '1a4f41f039f94d44',
    'file:supertracks.sunvox#2': '1a4f41f039f94d44',
    'file:velocity2ctl.sunsynth': '5fe6662a1ac4bc70',
    'file:velocity2ctl.sunsynth#2': '5fe6662a1ac4bc70',
    'file:vibrato.sunsynth': '274b70fa0e6cf0ab',
    'file:vibrato.sunsynth#2': '274b70fa0e6cf0ab',
    'file:vocal-filter.sunsynth': 'f62bcc37659869aa',
    'file:vocal-filter.sunsynth#2': 'f62bcc37659869aa',
    'file:vorbis-player.sunsynth': 'f18896c9f30ee44a',
    'file:vorbis-player.sunsynth#2': 'f18896c9f30ee44a',
    'file:waveshaper.sunsynth': 'a4d25d2c53431359',
    'file:waveshaper.sunsynth#2': 'a4d25d2c53431359',
    'synth:sampler-default': 'c665ea9372f6fad3',
    'synth:sampler-default#2': 'c665ea9372f6fad3',
    'synth:sampler-many-samples': 'b204a3a0f88eb40b',
    'synth:sampler-many-samples#2': 'b204a3a0f88eb40b',
    'synth:sampler-envelopes': '2dd2bdad566ba37b',
    'synth:sampler-envelopes#2': '2dd2bdad566ba37b',
    'synth:sampler-effect-filter': 'b0fa48b186f2270e',
    'synth:sampler-effect-filter#2': 'b0fa48b186f2270e',
    'synth:sampler-nested-effect': 'ec2f39196ee57c86',
    'synth:sampler-nested-effect#2': 'ec2f39196ee57c86',
    'project:samplers': 'a3c6092cd3304613',
    'project:samplers#2': 'a3c6092cd3304613',
})
# EXPECTED-END

if __name__ == "__main__":
    main()
