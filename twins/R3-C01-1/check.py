"""Behaviour check for SunVoxReader.process_end_of_file (link reconstruction,
trailing empty modules, legacy module-number masking) and the project round trip.

Passes on the unchanged tree and with the refactoring applied.
"""
import hashlib
import logging
import random
import struct
import sys
from io import BytesIO
from pathlib import Path

import rv.api as rv
from rv.api import m
from rv.note import NOTECMD
from rv.pattern import Pattern, PatternClone
from rv.project import Project
from rv.readers.reader import read_sunvox_file

FAILURES = []


def expect(cond, msg):
    if not cond:
        FAILURES.append(msg)
        print("FAIL:", msg)


# -- tiny independent IFF helpers ------------------------------------------


def split_chunks(blob):
    out, pos = [], 0
    while pos + 8 <= len(blob):
        name = blob[pos : pos + 4]
        (size,) = struct.unpack("<I", blob[pos + 4 : pos + 8])
        out.append((name, blob[pos + 8 : pos + 8 + size]))
        pos += 8 + size
    return out


def join_chunks(chunks):
    return b"".join(n + struct.pack("<I", len(d)) + d for n, d in chunks)


def save(project):
    f = BytesIO()
    project.write_to(f)
    return f.getvalue()


def load(blob):
    return read_sunvox_file(BytesIO(blob))


def links(project):
    return [
        None
        if mod is None
        else (
            mod.index,
            mod.mtype,
            list(mod.in_links),
            list(mod.in_link_slots),
            list(mod.out_links),
            list(mod.out_link_slots),
        )
        for mod in project.modules
    ]


def notes(project):
    out = []
    for pat in project.patterns:
        if pat is None:
            out.append(None)
        elif isinstance(pat, PatternClone):
            out.append(("clone", pat.source, pat.x, pat.y, pat.flags_PFFF))
        else:
            out.append(
                (
                    pat.tracks,
                    pat.lines,
                    [
                        [(int(n.note), n.vel, n.module, n.ctl, n.val) for n in line]
                        for line in pat.data
                    ],
                )
            )
    return out


class Capture(logging.Handler):
    def __init__(self):
        super().__init__()
        self.records = []

    def emit(self, record):
        self.records.append(record.getMessage())


# -- scenarios -------------------------------------------------------------


def chain_project():
    p = Project()
    gen = p.new_module(m.AnalogGenerator)
    flt = p.new_module(m.Filter)
    rev = p.new_module(m.Reverb)
    gen >> flt >> rev >> p.output
    gen >> p.output
    return p


def test_simple_chain():
    p = chain_project()
    blob = save(p)
    names = [n for n, _ in split_chunks(blob)]
    expect(b"SLnK" in names, "chain with a second output link writes SLnK")
    q = load(blob)
    expect(links(q) == links(p), "chain links survive round trip")
    expect(
        links(q)
        == [
            (0, "Output", [3, 1], [0, 1], [], []),
            (1, "Analog generator", [], [], [2, 0], [0, 1]),
            (2, "Filter", [1], [0], [3], [0]),
            (3, "Reverb", [2], [0], [0], [0]),
        ],
        "chain links have the documented shape: %r" % (links(q),),
    )
    expect(save(q) == blob, "second save is byte identical")


def test_missing_slot_chunks_are_reconstructed():
    # Strip all SLnK chunks: SunVox omits them when all slots are zero, and the
    # reader has to rebuild slots + out links in the "1.., then 0" module order.
    p = chain_project()
    stripped = join_chunks([c for c in split_chunks(save(p)) if c[0] != b"SLnK"])
    q = load(stripped)
    expect(
        links(q)
        == [
            (0, "Output", [3, 1], [0, 1], [], []),
            (1, "Analog generator", [], [], [2, 0], [0, 1]),
            (2, "Filter", [1], [0], [3], [0]),
            (3, "Reverb", [2], [0], [0], [0]),
        ],
        "slots rebuilt without SLnK: %r" % (links(q),),
    )
    # fan-in/fan-out without slot chunks
    p = Project()
    a = p.new_module(m.Generator)
    b = p.new_module(m.Generator)
    c = p.new_module(m.Amplifier)
    d = p.new_module(m.Amplifier)
    p.connect([a, b], c)
    p.connect([a, b], d)
    p.connect([c, d], p.output)
    stripped = join_chunks([x for x in split_chunks(save(p)) if x[0] != b"SLnK"])
    q = load(stripped)
    expect(
        links(q)
        == [
            (0, "Output", [3, 4], [0, 0], [], []),
            (1, "Generator", [], [], [3, 4], [0, 0]),
            (2, "Generator", [], [], [3, 4], [1, 1]),
            (3, "Amplifier", [1, 2], [0, 0], [0], [0]),
            (4, "Amplifier", [1, 2], [1, 1], [0], [1]),
        ],
        "fan-in/out rebuilt without SLnK: %r" % (links(q),),
    )
    expect(links(load(save(p))) == links(p), "fan-in/out with SLnK round trips")


def test_disconnected_links():
    p = Project()
    a = p.new_module(m.Generator)
    b = p.new_module(m.Generator)
    c = p.new_module(m.Amplifier)
    p.connect([a, b], c)
    c >> p.output
    a >> p.output
    p.connect(~a, c)  # leaves a -1 hole in c.in_links / a.out_links
    before = links(p)
    expect(before[3][2] == [-1, 2], "disconnect leaves -1 in in_links")
    q = load(save(p))
    expect(
        links(q)
        == [
            (0, "Output", [3, 1], [0, 1], [], []),
            (1, "Generator", [], [], [-1, 0], [-1, 1]),
            (2, "Generator", [], [], [3], [1]),
            (3, "Amplifier", [-1, 2], [-1, 0], [0], [0]),
        ],
        "holes are preserved on reload: %r" % (links(q),),
    )
    # same file, but without the slot chunk: -1 entries get -1 slots
    stripped = join_chunks([x for x in split_chunks(save(p)) if x[0] != b"SLnK"])
    r = load(stripped)
    expect(
        links(r)
        == [
            (0, "Output", [3, 1], [0, 0], [], []),
            (1, "Generator", [], [], [0], [1]),
            (2, "Generator", [], [], [3], [1]),
            (3, "Amplifier", [-1, 2], [-1, 0], [0], [0]),
        ],
        "holes without SLnK: %r" % (links(r),),
    )


def test_empty_module_slots():
    p = Project()
    a = p.new_module(m.Generator)
    p.attach_module(None)
    amp = m.Amplifier()
    p.attach_module(amp, loading=True)
    p.attach_module(None)
    p.attach_module(None)
    a >> amp >> p.output
    expect([x is None for x in p.modules] == [False, False, True, False, True, True], "setup")
    q = load(save(p))
    expect(
        [x is None for x in q.modules] == [False, False, True, False],
        "inner empty slot kept, trailing empty slots dropped",
    )
    expect(
        links(q)
        == [
            (0, "Output", [3], [0], [], []),
            (1, "Generator", [], [], [3], [0]),
            None,
            (3, "Amplifier", [1], [0], [0], [0]),
        ],
        "links around an empty slot: %r" % (links(q),),
    )
    # project that consists only of empty slots after the output
    p = Project()
    for _ in range(5):
        p.attach_module(None)
    q = load(save(p))
    expect(len(q.modules) == 1 and q.modules[0].mtype == "Output", "only output left")
    expect(q.output is q.modules[0], "output attribute is the loaded output")


def test_dangling_reference_warns():
    p = Project()
    a = p.new_module(m.Generator)
    a >> p.output
    chunks = split_chunks(save(p))
    # Make the Output's SLNK point at a module that does not exist.
    idx = [i for i, c in enumerate(chunks) if c[0] == b"SLNK"][0]
    chunks[idx] = (b"SLNK", struct.pack("<i", 7))
    cap = Capture()
    logger = logging.getLogger("rv.readers.sunvox")
    logger.addHandler(cap)
    old_level = logger.level
    logger.setLevel(logging.WARNING)
    try:
        try:
            load(join_chunks(chunks))
        except IndexError:
            raised = True
        else:
            raised = False
    finally:
        logger.removeHandler(cap)
        logger.setLevel(old_level)
    expect(raised, "dangling SLNK still ends in IndexError")
    expect(
        cap.records == ["Found SLNK on 0 referencing non-existent module 7"],
        "warning text for dangling SLNK: %r" % (cap.records,),
    )


def test_link_to_empty_slot_raises():
    p = Project()
    a = p.new_module(m.Generator)
    p.attach_module(None)
    b = m.Amplifier()
    p.attach_module(b, loading=True)
    a >> b >> p.output
    chunks = split_chunks(save(p))
    slnk = [i for i, c in enumerate(chunks) if c[0] == b"SLNK"]
    # module 3 (amplifier) claims input from the empty slot 2, with explicit slots
    chunks[slnk[-1]] = (b"SLNK", struct.pack("<i", 2))
    chunks.insert(slnk[-1] + 1, (b"SLnK", struct.pack("<i", 1)))
    try:
        load(join_chunks(chunks))
    except RuntimeError as e:
        expect(type(e) is RuntimeError and e.args == (), "bare RuntimeError")
    else:
        expect(False, "link to empty slot must raise RuntimeError")


def test_sparse_out_slots_are_padded():
    p = Project()
    a = p.new_module(m.Generator)
    b = p.new_module(m.Amplifier)
    a >> b >> p.output
    chunks = split_chunks(save(p))
    slnk = [i for i, c in enumerate(chunks) if c[0] == b"SLNK"]
    # amplifier: in_links [1] with slot 3 -> generator out lists padded to 4
    chunks.insert(slnk[-1] + 1, (b"SLnK", struct.pack("<i", 3)))
    q = load(join_chunks(chunks))
    expect(
        links(q)
        == [
            (0, "Output", [2], [0], [], []),
            (1, "Generator", [], [], [-1, -1, -1, 2], [-1, -1, -1, 0]),
            (2, "Amplifier", [1], [3], [0], [0]),
        ],
        "sparse out slots: %r" % (links(q),),
    )


def pattern_project():
    p = Project()
    g = p.new_module(m.Generator)
    g >> p.output
    pat = Pattern(tracks=3, lines=4)
    p.attach_pattern(pat)
    values = [0, 1, 2, 0xFF, 0x100, 0x101, 0x1FF, 0x200, 0xABCD, 0xFFFF, 0x8000, 0x7F]
    for i, note in enumerate(n for line in pat.data for n in line):
        note.note = NOTECMD(1 + i)
        note.vel = i
        note.module = values[i]
        note.ctl = 0x0100 * i
        note.val = 0xFFFF - i
    p.attach_pattern(None)
    p.attach_pattern(PatternClone(source=0, x=8, y=16))
    return p, values


def test_legacy_module_high_byte():
    p, values = pattern_project()
    blob = save(p)
    q = load(blob)
    expect(notes(q) == notes(p), "current version keeps 16 bit module numbers")
    expect(q.patterns[1] is None, "empty pattern slot kept")
    for version, masked in [
        ((1, 9, 4, 2), True),
        ((1, 9, 4, 255), True),
        ((1, 7, 3, 2), True),
        ((0, 0, 0, 0), True),
        ((1, 9, 5, 0), False),
        ((1, 9, 5, 1), False),
        ((2, 0, 0, 0), False),
    ]:
        chunks = split_chunks(blob)
        chunks = [
            (n, struct.pack("BBBB", *reversed(version))) if n == b"VERS" else (n, d)
            for n, d in chunks
        ]
        r = load(join_chunks(chunks))
        expect(r.loaded_sunvox_version == version, "loaded version %r" % (version,))
        got = [n.module for line in r.patterns[0].data for n in line]
        want = [v & 0xFF for v in values] if masked else values
        expect(got == want, "module masking for version %r: %r" % (version, got))
        # everything but the module column is untouched
        a = [(x[0], x[1], x[3], x[4]) for line in notes(r)[0][2] for x in line]
        b = [(x[0], x[1], x[3], x[4]) for line in notes(p)[0][2] for x in line]
        expect(a == b, "other note columns untouched for %r" % (version,))
        expect(notes(r)[1:] == notes(p)[1:], "other pattern slots untouched")


def test_truncated_file():
    blob = save(chain_project())
    chunks = split_chunks(blob)
    last_sfff = max(i for i, c in enumerate(chunks) if c[0] == b"SFFF")
    # Cutting the file at a module boundary loses module 3, which the output
    # still links to: the link rebuild at end of file fails with IndexError.
    try:
        load(join_chunks(chunks[:last_sfff]))
    except IndexError:
        pass
    else:
        expect(False, "truncated file with dangling link must raise IndexError")
    # Cut inside the header (no modules at all): loads as an empty module list.
    first_sfff = min(i for i, c in enumerate(chunks) if c[0] == b"SFFF")
    q = load(join_chunks(chunks[:first_sfff]))
    expect(q.modules == [], "header-only file has no modules")
    expect(q.patterns == [], "header-only file has no patterns")
    # Unlinked modules, cut at module boundary: fine.
    p = Project()
    p.new_module(m.Generator)
    p.new_module(m.Amplifier)
    chunks = split_chunks(save(p))
    last_sfff = max(i for i, c in enumerate(chunks) if c[0] == b"SFFF")
    q = load(join_chunks(chunks[:last_sfff]))
    expect(
        links(q)
        == [(0, "Output", [], [], [], []), (1, "Generator", [], [], [], [])],
        "unlinked truncated file: %r" % (links(q),),
    )


def random_project(rng):
    classes = [
        m.AnalogGenerator,
        m.Generator,
        m.Amplifier,
        m.Filter,
        m.Reverb,
        m.Delay,
        m.Distortion,
        m.Lfo,
        m.Echo,
        m.Compressor,
    ]
    p = Project()
    mods = [p.output]
    for _ in range(rng.randint(1, 9)):
        if rng.random() < 0.15:
            p.attach_module(None)
            continue
        mod = rng.choice(classes)()
        p.attach_module(mod, loading=rng.random() < 0.5)
        mods.append(mod)
    for _ in range(rng.randint(0, 14)):
        a, b = rng.choice(mods), rng.choice(mods)
        if a is b or a is p.output:
            continue
        if rng.random() < 0.2:
            p.connect(~a, b)
        else:
            p.connect(a, b)
    for _ in range(rng.randint(0, 3)):
        if rng.random() < 0.2:
            p.attach_pattern(None)
            continue
        pat = Pattern(tracks=rng.randint(1, 4), lines=rng.randint(1, 6))
        p.attach_pattern(pat)
        for line in pat.data:
            for n in line:
                if rng.random() < 0.5:
                    n.note = NOTECMD(rng.randint(1, 120))
                    n.vel = rng.randint(0, 129)
                    n.module = rng.randint(0, 0xFFFF)
                    n.ctl = rng.randint(0, 0xFFFF)
                    n.val = rng.randint(0, 0xFFFF)
    return p


GOLDEN = "15b75bdead7fc7303500cb17a3644a930ecb607b487fb6a2aa74e960e79a89e3"


def test_random_projects():
    rng = random.Random(20240601)
    h = hashlib.sha256()
    for i in range(150):
        p = random_project(rng)
        blob = save(p)
        try:
            q = load(blob)
        except Exception as e:  # noqa
            h.update(repr(("exc", type(e).__name__, e.args)).encode())
            continue
        # trailing empty module slots are dropped on load; compare up to that.
        want = links(p)
        while want and want[-1] is None:
            want.pop()
        # A reloaded project normalises trailing -1 entries, so compare against
        # the file's own second generation, which must be a fixed point.
        r = load(save(q))
        expect(links(r) == links(q), "random %d: reload is a fixed point" % i)
        expect(notes(q) == notes(p), "random %d: notes preserved" % i)
        expect(
            [x and x[:2] for x in links(q)] == [x and x[:2] for x in want],
            "random %d: module slots preserved" % i,
        )
        h.update(repr(links(q)).encode())
        # and the same file with slot chunks removed / as a legacy version
        stripped = [c for c in split_chunks(blob) if c[0] != b"SLnK"]
        stripped = [
            (n, b"\x00\x04\x09\x01") if n == b"VERS" else (n, d) for n, d in stripped
        ]
        try:
            s = load(join_chunks(stripped))
        except Exception as e:  # noqa
            h.update(repr(("exc", type(e).__name__, e.args)).encode())
        else:
            h.update(repr(links(s)).encode())
            h.update(repr(notes(s)).encode())
    digest = h.hexdigest()
    if "--print-golden" in sys.argv:
        print("golden:", digest)
    else:
        expect(digest == GOLDEN, "golden digest of reconstructed links: %s" % digest)


def test_fixtures():
    root = Path.cwd() / "tests" / "files"
    found = sorted(root.glob("*.sunvox")) if root.is_dir() else []
    expect(len(found) >= 4, "fixtures found (run from repository root)")
    h = hashlib.sha256()
    for path in found:
        q = read_sunvox_file(str(path))
        r = load(save(q))
        expect(links(r) == links(q), "%s: links fixed point" % path.name)
        expect(notes(r) == notes(q), "%s: notes fixed point" % path.name)
        h.update(repr(links(q)).encode())
        h.update(repr(notes(q)).encode())
    digest = h.hexdigest()
    if "--print-golden" in sys.argv:
        print("fixtures:", digest)
    else:
        expect(digest == FIXTURE_GOLDEN, "fixture digest: %s" % digest)


FIXTURE_GOLDEN = "8a64acdccc5eb4d1bbce254cef36b8b30a0efc6dc31ddc5b071a3755579ff7d3"


def main():
    logging.disable(logging.NOTSET)
    logging.getLogger("rv").setLevel(logging.ERROR)
    test_simple_chain()
    test_missing_slot_chunks_are_reconstructed()
    test_disconnected_links()
    test_empty_module_slots()
    test_dangling_reference_warns()
    test_link_to_empty_slot_raises()
    test_sparse_out_slots_are_padded()
    test_legacy_module_high_byte()
    test_truncated_file()
    test_random_projects()
    test_fixtures()
    if FAILURES:
        print("%d FAILURE(S)" % len(FAILURES))
        sys.exit(1)
    print("PASS")


if __name__ == "__main__":
    main()
