"""Behaviour check for refactoring C11-2 (Module.load_options).

Feeds options chunks of many shapes (short, empty, exact, over-long, random
bytes with stray bits) through load_options of every option-bearing module
type and compares with an independent bit-by-bit decoder; also covers value
types, inversion, absence of callbacks/clamping on load, partial-update
behaviour on a bad layout, and save/load round trips through real files.
Passes on the unchanged tree and with the patch applied.
"""
import io
import itertools
import random
import sys
from enum import IntEnum

from rv.api import Project, Synth, m, read_sunvox_file
from rv.modules.module import Chunk, Module
from rv.option import Option

CLASSES = [m.AnalogGenerator, m.MetaModule, m.MultiSynth, m.Sampler, m.Sound2Ctl]

failures = []


def check(cond, msg):
    if not cond:
        failures.append(msg)
        if len(failures) < 30:
            print("FAIL:", msg)


def make_chunk(cls, data):
    c = Chunk()
    c.chnm = cls.options_chnm
    c.chdt = data
    return c


def ref_decode(cls, data):
    """Independent decoder working bit by bit on the raw payload."""
    out = {}
    for o in cls.options.values():
        byte = data[o.byte] if o.byte < len(data) else 0
        v = 0
        for i in range(o.size):
            if byte & (1 << (o.bit + i)):
                v += 1 << i
        out[o.name] = (v == 1) if o.size == 1 else v
    return out


def exact_equal(got, want):
    """Same keys in the same order, same values and same concrete types."""
    if list(got) != list(want):
        return False
    return all(got[k] == want[k] and type(got[k]) is type(want[k]) for k in want)


def load_and_compare(cls, data, label, via_load_chunk=False):
    mod = cls()
    keys_before = list(mod.option_values)
    chunk = make_chunk(cls, data)
    if via_load_chunk:
        result = mod.load_chunk(chunk)
    else:
        result = mod.load_options(chunk)
    check(result is None, f"{label}: returns None")
    want = ref_decode(cls, bytes(data))
    want = {k: want[k] for k in keys_before}
    check(exact_equal(mod.option_values, want), f"{label}: {mod.option_values} != {want}")
    check(chunk.chdt == data, f"{label}: chunk data untouched")
    for o in cls.options.values():
        logical = getattr(mod, o.name)
        stored = mod.option_values[o.name]
        check(logical == ((not stored) if o.inverted else stored), f"{label}: {o.name} view")
    return mod


rng = random.Random(211)

for cls in CLASSES:
    name = cls.__name__
    opts = list(cls.options.values())
    top = max(o.byte for o in opts) + 1

    # no two options share a bit (the decoder relies on it)
    seen = set()
    for o in opts:
        for i in range(o.size):
            check((o.byte, o.bit + i) not in seen, f"{name}.{o.name}: shared bit")
            check(o.bit + i < 8, f"{name}.{o.name}: crosses byte")
            seen.add((o.byte, o.bit + i))

    # payload shapes
    load_and_compare(cls, b"", f"{name} empty")
    load_and_compare(cls, bytes(top), f"{name} zeros")
    load_and_compare(cls, b"\xff" * top, f"{name} ones")
    load_and_compare(cls, b"\xff" * 64, f"{name} ones64")
    load_and_compare(cls, b"\xff" * 100, f"{name} ones100")
    load_and_compare(cls, bytearray(b"\xaa" * top), f"{name} bytearray")
    for cut in range(top + 1):
        load_and_compare(cls, b"\xff" * cut, f"{name} cut{cut}")
    load_and_compare(cls, b"\x55" * top, f"{name} via load_chunk", via_load_chunk=True)

    # every value of every option, alone and with everything else saturated
    for o in opts:
        for v in range(2**o.size):
            data = bytearray(top)
            data[o.byte] = v << o.bit
            mod = load_and_compare(cls, bytes(data), f"{name}.{o.name}<-{v}")
            check(mod.option_values[o.name] == v, f"{name}.{o.name}<-{v}: value")
            full = bytearray(b"\xff" * top)
            full[o.byte] &= ~(((1 << o.size) - 1) << o.bit) & 0xFF
            full[o.byte] |= v << o.bit
            mod = load_and_compare(cls, bytes(full), f"{name}.{o.name}<-{v} (others on)")
            check(mod.option_values[o.name] == v, f"{name}.{o.name}<-{v}: value (others on)")

    # single stray bits anywhere in the first 16 bytes
    for byte, bit in itertools.product(range(16), range(8)):
        data = bytearray(16)
        data[byte] = 1 << bit
        load_and_compare(cls, bytes(data), f"{name} stray {byte}.{bit}")

    # random payloads of random length
    for trial in range(300):
        n = rng.choice([0, 1, top - 1, top, top + 1, 64, 65])
        data = bytes(rng.randrange(256) for _ in range(n))
        load_and_compare(cls, data, f"{name} random {trial}")

    # loading twice: the second chunk wins completely
    mod = cls()
    mod.load_options(make_chunk(cls, b"\xff" * top))
    mod.load_options(make_chunk(cls, b""))
    want = ref_decode(cls, b"")
    want = {k: want[k] for k in mod.option_values}
    check(exact_equal(mod.option_values, want), f"{name} reload")
    check(len(want) == len(opts), f"{name} reload: key set")

    # write -> read -> write through real files, random API assignments
    for trial in range(8):
        mod = cls()
        for o in opts:
            setattr(mod, o.name, rng.randrange(2**o.size))
        f = io.BytesIO()
        Synth(mod).write_to(f)
        f.seek(0)
        back = read_sunvox_file(f).module
        check(
            {k: int(v) for k, v in back.option_values.items()}
            == {k: int(v) for k, v in mod.option_values.items()},
            f"{name} file {trial}",
        )
        for o in opts:
            check(getattr(back, o.name) == getattr(mod, o.name), f"{name} file {trial} {o.name}")
            want_type = bool if o.size == 1 else int
            check(type(back.option_values[o.name]) is want_type, f"{name} file type {o.name}")
        check(list(back.options_chunks()) == list(mod.options_chunks()), f"{name} rewrite")

# loading bypasses the descriptor: no clamp, no exclusivity, no callbacks
calls = []


class Spy(m.MetaModule):
    def on_user_defined_controllers_changed(self, value):
        calls.append(value)
        super().on_user_defined_controllers_changed(value)


spy = Spy()
calls.clear()
spy.load_options(make_chunk(Spy, bytes([200, 0, 0, 0, 0b011])))
check(calls == [], "no callbacks on load")
check(spy.option_values["user_defined_controllers"] == 200, "no clamp on load")
check(spy.receive_notes_from_keyboard is True, "exclusive a as stored")
check(spy.do_not_receive_notes_from_keyboard is True, "exclusive b as stored")
check(spy.event_output is True, "inverted zero reads True")
spy.load_options(make_chunk(Spy, bytes([0, 0, 0, 1])))
check(spy.event_output is False, "inverted one reads False")
check(spy.option_values["event_output"] is True, "inverted stored raw")

# in a project
proj = Project()
mods = []
for cls in CLASSES:
    mod = cls()
    for o in cls.options.values():
        setattr(mod, o.name, rng.randrange(2**o.size))
    proj.attach_module(mod)
    mods.append(mod)
proj2 = proj.clone()
for mod in mods:
    other = proj2.modules[mod.index]
    check(
        {k: int(v) for k, v in other.option_values.items()}
        == {k: int(v) for k, v in mod.option_values.items()},
        f"project {type(mod).__name__}",
    )


# ---- hand-built layouts -------------------------------------------------
class Mode(IntEnum):
    a = 0
    b = 1
    c = 2
    d = 3


class Fake(Module):
    name = mtype = "C11 fake"
    mgroup = "Misc"
    flags = default_flags = 0
    options_chnm = 9

    low = Option(name="low", byte=0, bit=0, size=3, default=0)
    mid = Option(name="mid", byte=0, bit=3, size=4, default=0)
    top = Option(name="top", byte=0, bit=7, size=1, default=False)
    mode = Option(name="mode", byte=5, bit=2, size=2, default=Mode.a)
    last = Option(name="last", byte=63, bit=0, size=8, default=0)
    flip = Option(name="flip", byte=62, bit=7, size=1, inverted=True, default=True)


fk = Fake()
data = bytearray(64)
data[0] = 0b1_1001_101
data[5] = 0b1111_10_11
data[62] = 0x7F
data[63] = 0xA7
fk.load_options(make_chunk(Fake, bytes(data)))
want = {"flip": False, "last": 0xA7, "low": 5, "mid": 9, "mode": 2, "top": True}
check(exact_equal(dict(sorted(fk.option_values.items())), want), f"fake: {fk.option_values}")
check(fk.flip is True and fk.top is True and fk.mode == Mode.c, "fake views")
check(type(fk.option_values["mode"]) is int, "enum option loads as plain int")
# short chunk: missing bytes read as zero
fk.load_options(make_chunk(Fake, bytes([0xFF])))
want = {"flip": False, "last": 0, "low": 7, "mid": 15, "mode": 0, "top": True}
check(exact_equal(dict(sorted(fk.option_values.items())), want), "fake short")
# list input is accepted like bytes
fk.load_options(make_chunk(Fake, [0x80] + [0] * 70))
check(fk.option_values["top"] is True and fk.option_values["low"] == 0, "fake list input")
# extra keys in option_values are left alone
fk.option_values["stranger"] = "kept"
fk.load_options(make_chunk(Fake, b""))
check(fk.option_values["stranger"] == "kept", "unrelated keys preserved")
# missing payload is a TypeError
try:
    fk.load_options(make_chunk(Fake, None))
    check(False, "None payload: no error")
except TypeError:
    pass


class TooFar(Module):
    name = mtype = "C11 toofar"
    mgroup = "Misc"
    flags = default_flags = 0
    a_ok = Option(name="a_ok", byte=0, bit=0, size=1, default=False)
    z_far = Option(name="z_far", byte=64, bit=0, size=1, default=False)


tf = TooFar()
check(list(tf.options) == ["a_ok", "z_far"], "toofar order")
try:
    tf.load_options(make_chunk(TooFar, b"\x01"))
    check(False, "byte 64 with short chunk: no error")
except IndexError:
    pass
check(tf.option_values == {"a_ok": True, "z_far": False}, "options before the bad one applied")
tf.load_options(make_chunk(TooFar, b"\x00" * 64 + b"\x01"))
check(tf.option_values == {"a_ok": False, "z_far": True}, "long chunk reaches byte 64")

if failures:
    print(f"{len(failures)} failure(s)")
    sys.exit(1)
print("PASS")
