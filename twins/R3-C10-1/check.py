"""Behaviour check for Controller.pattern_value / Controller.instance_value_type /
DependentRange.parent (property C10: pattern encoding of controllers).

Enumerates every controller of every module type (every unit variant of the
unit-dependent ranges) over ALL values of its range and compares
pattern_value() with an independent reference formula.  Also exercises the
DependentRange selection logic on hand-made instances.

Run: cd <root> && PYTHONPATH=<root>/src/python /venv/bin/python check.py
"""
import sys
from enum import Enum

from rv.controller import (
    CompactRange,
    Controller,
    DependentRange,
    NoOffsetRange,
    Range,
    WarnOnlyRange,
)
from rv.modules import MODULE_CLASSES

failures = []


def check(cond, msg):
    if not cond:
        failures.append(msg)
        if len(failures) > 30:
            print("\n".join(failures))
            print("FAIL (too many failures)")
            sys.exit(1)


def ref_pattern(t, v):
    """Independent statement of the expected pattern value."""
    if isinstance(t, CompactRange):
        return v - t.min
    if isinstance(t, Range):
        return int((v - t.min) / ((t.max - t.min) / 32768))
    return v


def check_range_column(ctl, mod, t, label):
    """Full enumeration of one ranged controller."""
    values = range(t.min, t.max + 1)
    got = [ctl.pattern_value(mod, v) for v in values]
    want = [ref_pattern(t, v) for v in values]
    check(got == want, f"{label}: pattern values differ from reference")
    check(all(type(g) is int for g in got), f"{label}: non-int pattern value")
    check(got[0] == 0, f"{label}: min does not map to 0")
    if isinstance(t, CompactRange):
        check(got[-1] == t.max - t.min, f"{label}: compact max wrong")
        check(got == list(range(len(got))), f"{label}: compact not v-min")
    else:
        check(got[-1] == 0x8000, f"{label}: max maps to {got[-1]:#x}")
        check(
            all(a <= b for a, b in zip(got, got[1:])), f"{label}: not monotone"
        )
    return len(got)


pairs = 0
for mtype, cls in sorted(MODULE_CLASSES.items()):
    mod = cls()
    for name, ctl in mod.controllers.items():
        label = f"{mtype}.{name}"
        vt = ctl.value_type
        if isinstance(vt, DependentRange):
            unit_ctl = mod.controllers[vt.ctl_name]
            unit_enum = unit_ctl.value_type
            check(set(vt.range_map) == set(unit_enum), f"{label}: unit coverage")
            for unit in unit_enum:
                setattr(mod, vt.ctl_name, unit)
                t = ctl.instance_value_type(mod)
                check(t is vt.range_map[unit], f"{label}[{unit}]: wrong range")
                check(vt.parent(mod) is t, f"{label}[{unit}]: parent() differs")
                pairs += check_range_column(ctl, mod, t, f"{label}[{unit.name}]")
            # the unit controller not being loaded yet selects the default
            saved = mod.controllers_loaded
            mod.controllers_loaded = saved - {vt.ctl_name}
            check(ctl.instance_value_type(mod) is vt.default, f"{label}: unloaded")
            mod.controllers_loaded = set()
            check(ctl.instance_value_type(mod) is vt.default, f"{label}: empty")
            mod.controllers_loaded = saved
            continue
        t = ctl.instance_value_type(mod)
        if type(ctl) is Controller:
            check(t is vt, f"{label}: instance_value_type is not value_type")
        if isinstance(t, Range):
            pairs += check_range_column(ctl, mod, t, label)
        elif isinstance(t, type) and issubclass(t, Enum):
            for member in t:
                check(ctl.pattern_value(mod, member) is member, f"{label}: enum")
                pairs += 1
        elif t is bool:
            for b in (False, True):
                check(ctl.pattern_value(mod, b) is b, f"{label}: bool")
                pairs += 1
        else:
            check(False, f"{label}: unexpected value type {t!r}")

check(pairs > 5_000_000, f"only {pairs} pairs enumerated")


# --- synthetic cases ---------------------------------------------------------
class Unit(Enum):
    a = 0
    b = 1


class FakeInstance:
    def __init__(self, loaded, values):
        self.controllers_loaded = loaded
        self.controller_values = values


ra, rb, rdef = Range(-5, 5), CompactRange(0, 9), WarnOnlyRange(1, 3)
dep = DependentRange("unit", {Unit.a: ra, Unit.b: rb}, rdef)
check(repr(dep) == "<DependentRange (varies)>", "DependentRange repr")
check(dep.parent(FakeInstance(set(), {"unit": Unit.a})) is rdef, "nothing loaded")
check(dep.parent(FakeInstance({"x"}, {"unit": Unit.a})) is rdef, "unit not loaded")
check(dep.parent(FakeInstance({"unit"}, {})) is rdef, "unit has no value")
check(dep.parent(FakeInstance({"unit"}, {"unit": None})) is rdef, "unit is None")
check(dep.parent(FakeInstance({"unit"}, {"unit": Unit.a})) is ra, "unit a")
check(dep.parent(FakeInstance({"unit", "x"}, {"unit": Unit.b})) is rb, "unit b")
check(dep.parent(FakeInstance(["unit"], {"unit": Unit.b})) is rb, "list of loaded")
try:
    dep.parent(FakeInstance({"unit"}, {"unit": 7}))
except KeyError:
    pass
else:
    check(False, "unknown unit value should raise KeyError")

c = Controller(dep, 0)
c.name = "dep"
inst_a = FakeInstance({"unit"}, {"unit": Unit.a})
inst_b = FakeInstance({"unit"}, {"unit": Unit.b})
inst_0 = FakeInstance(set(), {})
check(c.instance_value_type(inst_a) is ra, "ctl range a")
check(c.instance_value_type(inst_b) is rb, "ctl range b")
check(c.instance_value_type(inst_0) is rdef, "ctl default range")
check([c.pattern_value(inst_a, v) for v in (-5, 0, 5)] == [0, 16384, 32768], "a")
check([c.pattern_value(inst_b, v) for v in (0, 4, 9)] == [0, 4, 9], "b compact")
check([c.pattern_value(inst_0, v) for v in (1, 2, 3)] == [0, 16384, 32768], "def")

for vt in (bool, Unit, None):
    plain = Controller(vt, 0)
    check(plain.instance_value_type(inst_0) is vt, f"plain value type {vt}")
    for v in (0, 3, True, Unit.b, "x"):
        check(plain.pattern_value(inst_0, v) is v, f"verbatim {vt} {v!r}")

tup = Controller((0, 256), 0)
check(tup.instance_value_type(None) == Range(0, 256), "tuple becomes Range")
check(type(tup.value_type) is Range, "tuple becomes exactly Range")
check([tup.pattern_value(None, v) for v in (0, 1, 128, 255, 256)]
      == [0, 128, 16384, 32640, 32768], "0..256 scaling")

# awkward spans where float scaling is delicate; NoOffsetRange is scaled too
for lo, hi in [(0, 1), (0, 3), (-3, 4), (1, 7), (0, 32768), (-100, 100),
               (0, 1000), (1, 4000), (-128, 128), (0, 49), (0, 32767)]:
    for kind in (Range, WarnOnlyRange, NoOffsetRange, CompactRange):
        t = kind(lo, hi)
        ctl = Controller(t, lo)
        pairs += check_range_column(ctl, None, t, f"{kind.__name__}({lo},{hi})")
# out-of-range and float inputs are converted with the same formula
t = Range(-10, 10)
ctl = Controller(t, 0)
for v in (-11, 11, 25, 0.5, -9.75):
    check(ctl.pattern_value(None, v) == ref_pattern(t, v), f"unvalidated {v}")
try:
    Controller(Range(4, 4), 4).pattern_value(None, 4)
except ZeroDivisionError:
    pass
else:
    check(False, "zero-span range should raise ZeroDivisionError")
check(Controller(CompactRange(4, 4), 4).pattern_value(None, 4) == 0, "compact 0-span")

if failures:
    print("\n".join(failures))
    print("FAIL")
    sys.exit(1)
print(f"PASS ({pairs} (controller, value) pairs)")
