"""Behaviour check for rv.option.Option (descriptor get/set semantics).

Runs against the real option-bearing modules and against small synthetic
owners so that every branch of Option.__get__/__set__ is pinned down:
clamping, bool coercion, inversion, mutual exclusion, change callbacks and
their ordering.  Expected values come from an independent reference model
written here, not from the library.
"""
import itertools
import random
import sys

from rv.modules.analoggenerator import AnalogGenerator
from rv.modules.metamodule import MetaModule
from rv.modules.multisynth import MultiSynth
from rv.modules.sampler import Sampler
from rv.modules.sound2ctl import Sound2Ctl
from rv.option import Option

MODULE_TYPES = [AnalogGenerator, MetaModule, MultiSynth, Sampler, Sound2Ctl]
failures = []


def expect(cond, msg):
    if not cond:
        failures.append(msg)


def same(a, b):
    return a == b and type(a) is type(b)


# ---------------------------------------------------------------- reference
def ref_stored(opt, value):
    if opt.min is not None and opt.max is not None:
        upper = value if value < opt.max else opt.max
        return upper if upper > opt.min else opt.min
    if opt.size == 1:
        v = True if value else False
        if opt.inverted:
            v = not v
        return v
    return value


def ref_set(cls, state, name, value):
    """Apply `obj.name = value` to a dict of stored values; return events."""
    opt = cls.options[name]
    stored = ref_stored(opt, value)
    state[name] = stored
    events = [(name, stored)]
    for other in opt.exclusive_of:
        state[other] = False
        events.append((other, False))
    return events


def ref_get(cls, state, name):
    opt = cls.options[name]
    v = state[name]
    return (not v) if opt.inverted else v


# ------------------------------------------------------- real module classes
total_options = 0
for cls in MODULE_TYPES:
    expect(len(cls.options) > 0, f"{cls.__name__} has no options")
    total_options += len(cls.options)
    for name, opt in cls.options.items():
        expect(getattr(cls, name) is opt, f"{cls.__name__}.{name}: class access")
        expect(opt.name == name, f"{cls.__name__}.{name}: name mismatch")

    # defaults, set through __init__
    mod = cls()
    state = {}
    for name, opt in cls.options.items():
        ref_set(cls, state, name, opt.default)
    for name in cls.options:
        expect(
            same(mod.option_values[name], state[name]),
            f"{cls.__name__}.{name}: default stored {mod.option_values[name]!r}"
            f" != {state[name]!r}",
        )
        expect(
            same(getattr(mod, name), ref_get(cls, state, name)),
            f"{cls.__name__}.{name}: default logical",
        )

    # every representable value (and a few outside) of each option
    for name, opt in cls.options.items():
        candidates = list(range(2**opt.size)) + [-1, -7, 2**opt.size, 1000]
        if opt.size == 1:
            candidates += [True, False, None, "", "x", [], [0]]
        for value in candidates:
            if value is None or isinstance(value, (str, list)):
                if opt.min is not None and opt.max is not None:
                    continue
            mod = cls()
            state = dict(mod.option_values)
            setattr(mod, name, value)
            ref_set(cls, state, name, value)
            expect(
                mod.option_values == state
                and all(same(mod.option_values[k], state[k]) for k in state),
                f"{cls.__name__}.{name}={value!r}: stored {mod.option_values!r}",
            )
            for k in cls.options:
                expect(
                    same(getattr(mod, k), ref_get(cls, state, k)),
                    f"{cls.__name__}.{name}={value!r}: logical {k}",
                )

    # pairs of options set one after the other
    for a, b in itertools.permutations(cls.options, 2):
        oa, ob = cls.options[a], cls.options[b]
        for va, vb in [(0, 0), (1, 1), (2**oa.size - 1, 2**ob.size - 1), (1, 0)]:
            mod = cls()
            state = dict(mod.option_values)
            setattr(mod, a, va)
            setattr(mod, b, vb)
            ref_set(cls, state, a, va)
            ref_set(cls, state, b, vb)
            expect(
                all(same(mod.option_values[k], state[k]) for k in state),
                f"{cls.__name__}: {a}={va},{b}={vb}",
            )
            if b in oa.exclusive_of:
                expect(
                    not (mod.option_values[a] is True and mod.option_values[b] is True),
                    f"{cls.__name__}: exclusive {a}/{b} both on",
                )

    # random full assignments through the constructor and through setattr
    rng = random.Random(1100 + len(cls.options))
    for _ in range(60):
        names = list(cls.options)
        rng.shuffle(names)
        assignment = {
            n: rng.randrange(-2, 2 ** cls.options[n].size + 2) for n in names
        }
        mod = cls()
        state = dict(mod.option_values)
        for n in names:
            setattr(mod, n, assignment[n])
            ref_set(cls, state, n, assignment[n])
        expect(
            all(same(mod.option_values[k], state[k]) for k in state),
            f"{cls.__name__}: random setattr {assignment!r}",
        )
        mod2 = cls(**assignment)
        state2 = {}
        for n in cls.options:  # constructor applies in declaration order
            ref_set(cls, state2, n, assignment[n])
        expect(
            all(same(mod2.option_values[k], state2[k]) for k in state2),
            f"{cls.__name__}: random ctor {assignment!r}",
        )

expect(total_options == 49, f"expected 49 options, found {total_options}")

# MetaModule specifics named by the property
m = MetaModule()
m.user_defined_controllers = 200
expect(same(m.user_defined_controllers, 96), "udc clamp high")
m.user_defined_controllers = -5
expect(same(m.user_defined_controllers, 0), "udc clamp low")
m.user_defined_controllers = 27
expect(same(m.user_defined_controllers, 27), "udc in range")
m.event_output = True
expect(m.option_values["event_output"] is False and m.event_output is True, "inv on")
m.event_output = 0
expect(m.option_values["event_output"] is True and m.event_output is False, "inv off")
m.receive_notes_from_keyboard = True
m.do_not_receive_notes_from_keyboard = True
expect(m.receive_notes_from_keyboard is False, "exclusive clears first")
expect(m.do_not_receive_notes_from_keyboard is True, "exclusive keeps second")
m.receive_notes_from_keyboard = False  # even turning one off clears the other
expect(m.do_not_receive_notes_from_keyboard is False, "exclusive on clear")


# ------------------------------------------------------------ synthetic owner
class Owner:
    plain = Option(name="plain", byte=0, bit=0, size=1, default=False)
    inv = Option(name="inv", byte=0, bit=1, size=1, default=True, inverted=True)
    wide = Option(name="wide", byte=1, bit=0, size=4, default=3)
    wide_inv = Option(name="wide_inv", byte=1, bit=4, size=3, default=0, inverted=True)
    bounded = Option(name="bounded", byte=2, bit=0, size=8, default=5, min=2, max=9)
    bounded_bit = Option(
        name="bounded_bit", byte=3, bit=0, size=1, default=0, min=0, max=1,
        inverted=True,
    )
    only_min = Option(name="only_min", byte=3, bit=1, size=1, default=0, min=0)
    only_max = Option(name="only_max", byte=3, bit=2, size=3, default=0, max=2)
    left = Option(
        name="left", byte=4, bit=0, size=1, default=False,
        exclusive_of=["right", "inv"],
    )
    right = Option(
        name="right", byte=4, bit=1, size=1, default=False, exclusive_of=["left"]
    )
    quiet = Option(name="quiet", byte=5, bit=0, size=1, default=False)
    on_quiet_changed = "not callable"

    def __init__(self):
        self.option_values = {}
        self.events = []

    def _rec(self, name):
        return lambda v: self.events.append((name, v, dict(self.option_values)))

    def __getattr__(self, item):
        if item.startswith("on_") and item.endswith("_changed"):
            name = item[3:-8]
            if name in ("wide", "only_max"):  # no hook for these
                raise AttributeError(item)
            return self._rec(name)
        raise AttributeError(item)


expect(Owner.plain is Owner.__dict__["plain"], "class-level access returns descriptor")

cases = [
    # (attr, value, stored, logical, [(callback name, arg)...])
    ("plain", 1, True, True, [("plain", True)]),
    ("plain", 0, False, False, [("plain", False)]),
    ("plain", "yes", True, True, [("plain", True)]),
    ("plain", 2, True, True, [("plain", True)]),
    ("inv", True, False, True, [("inv", False)]),
    ("inv", False, True, False, [("inv", True)]),
    ("inv", 5, False, True, [("inv", False)]),
    ("wide", 11, 11, 11, []),
    ("wide", 99, 99, 99, []),
    ("wide", -3, -3, -3, []),
    ("wide", True, True, True, []),
    ("wide_inv", 5, 5, False, [("wide_inv", 5)]),
    ("wide_inv", 0, 0, True, [("wide_inv", 0)]),
    ("bounded", 1, 2, 2, [("bounded", 2)]),
    ("bounded", 2, 2, 2, [("bounded", 2)]),
    ("bounded", 7, 7, 7, [("bounded", 7)]),
    ("bounded", 9, 9, 9, [("bounded", 9)]),
    ("bounded", 9.0, 9, 9, [("bounded", 9)]),
    ("bounded", 2.0, 2, 2, [("bounded", 2)]),
    ("bounded", 4.5, 4.5, 4.5, [("bounded", 4.5)]),
    ("bounded", 10, 9, 9, [("bounded", 9)]),
    ("bounded", -100, 2, 2, [("bounded", 2)]),
    ("bounded_bit", 5, 1, False, [("bounded_bit", 1)]),
    ("bounded_bit", True, 1, False, [("bounded_bit", 1)]),
    ("bounded_bit", False, 0, True, [("bounded_bit", 0)]),
    ("bounded_bit", -1, 0, True, [("bounded_bit", 0)]),
    ("only_min", 7, True, True, [("only_min", True)]),
    ("only_min", -7, True, True, [("only_min", True)]),
    ("only_min", 0, False, False, [("only_min", False)]),
    ("only_max", 6, 6, 6, []),
    ("quiet", 1, True, True, []),
]
for attr, value, stored, logical, callbacks in cases:
    o = Owner()
    setattr(o, attr, value)
    expect(
        list(o.option_values.items()) == [(attr, stored)]
        and same(o.option_values[attr], stored),
        f"Owner.{attr}={value!r}: stored {o.option_values!r}, wanted {stored!r}",
    )
    got = getattr(o, attr)
    expect(same(got, logical), f"Owner.{attr}={value!r}: logical {got!r}")
    expect(
        [(n, v) for n, v, _ in o.events] == callbacks
        and all(same(e[1], c[1]) for e, c in zip(o.events, callbacks)),
        f"Owner.{attr}={value!r}: callbacks {o.events!r}",
    )

# ordering: own value stored, own callback, then each exclusive peer in order
o = Owner()
o.inv = True
o.right = True
o.events.clear()
o.left = 3
expect(
    o.events
    == [
        ("left", True, {"inv": False, "right": True, "left": True}),
        ("right", False, {"inv": False, "right": False, "left": True}),
        ("inv", False, {"inv": False, "right": False, "left": True}),
    ],
    f"exclusive ordering: {o.events!r}",
)
expect(list(o.option_values) == ["inv", "right", "left"], "key order preserved")
# peer is forced to stored False, so an inverted peer reads back True
expect(o.inv is True and o.right is False and o.left is True, "exclusive result")
o.events.clear()
o.right = 0  # turning right *off* still clears left
expect(
    [(n, v) for n, v, _ in o.events] == [("right", False), ("left", False)],
    f"exclusive on clear: {o.events!r}",
)
expect(o.left is False and o.right is False, "both off")

# reading an option that was never stored is a KeyError
try:
    Owner().plain
except KeyError:
    pass
else:
    expect(False, "missing option value should raise KeyError")
# un-orderable values for bounded options raise TypeError and store nothing
o = Owner()
try:
    o.bounded = "abc"
except TypeError:
    expect(o.option_values == {} and o.events == [], "failed set left traces")
else:
    expect(False, "bounded='abc' should raise TypeError")

# Option stays a plain dataclass with the same public fields
import dataclasses

expect(
    [f.name for f in dataclasses.fields(Option)]
    == [
        "name", "byte", "bit", "size", "default", "number", "min", "max",
        "inverted", "exclusive_of",
    ],
    "dataclass fields changed",
)
expect(
    Option("a", 0, 0, 1, False) == Option("a", 0, 0, 1, False), "dataclass equality"
)
expect(Option("a", 0, 0, 1, False).exclusive_of == [], "default exclusive_of")

if failures:
    print("FAIL")
    for f in failures[:40]:
        print("  -", f)
    sys.exit(1)
print("PASS")
