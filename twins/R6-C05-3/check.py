"""Behaviour check for the C05-3 refactoring (readability / robustness rework of the
load path: read_sunvox_file, Reader.process_chunks, SunVoxReader.process_end_of_file,
ModuleReader.process_SEND, Module.load_options and Module.clone).

Run from the repository root:
    PYTHONPATH=<root>/src/python python check.py

Builds many project files by hand (links with and without SLnK, holes, dangling and
self references, legacy versions, unknown chunks, surplus or missing CVALs, short and
long option tables), loads them, records the resulting link tables, option values,
log messages and error types, checks the C05 property on each, and compares a digest
of everything with the value recorded on the unchanged tree.
"""
import hashlib
import io
import itertools
import logging
import os
import struct
import sys
import tempfile
from collections import Counter, defaultdict
from pathlib import Path

import rv.api as rv
import rv.errors as errors_mod
from rv.lib.iff import chunks as iff_chunks
from rv.modules import MODULE_CLASSES
from rv.note import Note
from rv.pattern import Pattern
from rv.project import Project
from rv.readers.reader import read_sunvox_file
from rv.synth import Synth

EXPECTED_DIGEST = "9eb964059d54f65f3774ad5289c903535261b18e70d1424ef9157ecca432190c"

ROOT = Path.cwd()
FILES = sorted(
    p
    for p in (ROOT / "tests" / "files").rglob("*")
    if p.suffix in (".sunvox", ".sunsynth")
)
assert len(FILES) > 40, "run me from the repository root"

digest = hashlib.sha256()
failures = []
stats = Counter()


def note(*parts):
    for part in parts:
        if not isinstance(part, bytes):
            part = repr(part).encode()
        digest.update(len(part).to_bytes(8, "little"))
        digest.update(part)


def check(cond, msg):
    if not cond:
        failures.append(msg)


class Capture(logging.Handler):
    """Collects (logger, level, message) of every rv.* record at WARNING and above."""

    def __init__(self):
        super().__init__(level=logging.WARNING)
        self.records = []

    def emit(self, record):
        self.records.append((record.name, record.levelname, record.getMessage()))

    def take(self):
        out, self.records = self.records, []
        return out


capture = Capture()
rv_logger = logging.getLogger("rv")
rv_logger.addHandler(capture)
rv_logger.setLevel(logging.WARNING)
rv_logger.propagate = False


# ---------------------------------------------------------------- helpers


def save(obj):
    f = io.BytesIO()
    obj.write_to(f)
    return f.getvalue()


def load(data):
    return read_sunvox_file(io.BytesIO(data))


def parse(data):
    return [[name, payload] for name, payload in iff_chunks(io.BytesIO(data))]


def build(chunk_list):
    out = bytearray()
    for name, payload in chunk_list:
        out += name + struct.pack("<I", len(payload)) + payload
    return bytes(out)


def ints(*values):
    return struct.pack(f"<{len(values)}i", *values)


def link_tables(project):
    return [
        None
        if m is None
        else (m.index, type(m).__name__, list(m.in_links), list(m.in_link_slots),
              list(m.out_links), list(m.out_link_slots))
        for m in project.modules
    ]


def snapshot(obj, seen=None):
    """Structural snapshot of an object graph (cycle safe)."""
    if seen is None:
        seen = {}
    if obj is None or isinstance(obj, (int, float, str, bytes, bool)):
        return obj
    if id(obj) in seen:
        return ("<ref>", seen[id(obj)])
    seen[id(obj)] = len(seen)
    if isinstance(obj, defaultdict) and obj.default_factory is not None:
        # reading a missing key materialises the default: not an observable change
        blank = snapshot(obj.default_factory(), {})
        items = [(k, snapshot(v, {})) for k, v in obj.items()]
        return ("defaultdict", [(k, v) for k, v in items if v != blank])
    if isinstance(obj, dict):
        return ("dict", [(snapshot(k, seen), snapshot(v, seen)) for k, v in obj.items()])
    if isinstance(obj, (list, tuple)):
        return (type(obj).__name__, [snapshot(x, seen) for x in obj])
    if isinstance(obj, (set, frozenset)):
        return ("set", sorted(repr(snapshot(x, seen)) for x in obj))
    if isinstance(obj, (bytearray, memoryview)):
        return bytes(obj)
    if hasattr(obj, "tobytes") and hasattr(obj, "dtype"):
        return ("ndarray", str(obj.dtype), obj.shape, obj.tobytes())
    if isinstance(obj, type) or callable(obj) and not hasattr(obj, "__dict__"):
        return ("callable", getattr(obj, "__qualname__", repr(obj)))
    state = {}
    if hasattr(obj, "__dict__"):
        state.update(vars(obj))
    for cls in type(obj).__mro__:
        for slot in getattr(cls, "__slots__", ()):
            if hasattr(obj, slot):
                state[slot] = getattr(obj, slot)
    return (type(obj).__name__, [(k, snapshot(v, seen)) for k, v in sorted(state.items())])


def examine(data, label, expect_stable=True):
    """Load `data`; record tables, logs, errors; check C05 on what was loaded."""
    capture.take()
    try:
        obj = load(data)
    except Exception as e:  # noqa - error types are part of the behaviour
        note(label, "load-error", type(e).__name__, str(e), capture.take())
        stats["load-error " + type(e).__name__] += 1
        check(errors_mod.RAISE_CONTROLLER_VALUE_ERRORS is True,
              f"{label}: error mode not restored after failed load")
        return None
    logs = capture.take()
    check(errors_mod.RAISE_CONTROLLER_VALUE_ERRORS is True, f"{label}: error mode not restored")
    tables = link_tables(obj) if isinstance(obj, Project) else None
    note(label, "loaded", type(obj).__name__, tables, logs)
    try:
        before = snapshot(obj)
        y = save(obj)
        after = snapshot(obj)
        y2 = save(obj)
    except Exception as e:  # noqa
        note(label, "save-error", type(e).__name__, str(e))
        stats["save-error " + type(e).__name__] += 1
        return obj
    note(label, y, capture.take())
    stats["stable-checked"] += 1
    check(before == after, f"{label}: saving changed the object's state")
    check(y == y2, f"{label}: saving twice gave different bytes")
    prev = y
    for i in range(3):
        try:
            again = load(prev)
            nxt = save(again)
        except Exception as e:  # noqa
            note(label, "recycle-error", i, type(e).__name__, str(e))
            stats["recycle-error " + type(e).__name__] += 1
            break
        if isinstance(again, Project):
            note(label, "cycle", i, link_tables(again))
        if expect_stable:
            check(nxt == prev, f"{label}: drift at cycle {i + 2}")
        else:
            note(label, "cycle-bytes", i, nxt)
        prev = nxt
    capture.take()
    return obj


# ------------------------------------------------ 1. fixtures through every entry point

for path in FILES:
    data = path.read_bytes()
    examine(data, path.name)
    # str path, Path, and open file give the same object; caller's file stays open
    via_str = read_sunvox_file(str(path))
    via_path = read_sunvox_file(path)
    with path.open("rb") as fh:
        via_file = read_sunvox_file(fh)
        check(not fh.closed, f"{path.name}: caller's file was closed")
        note(path.name, "position-after-read", fh.tell())
    ref = save(load(data))
    for how, obj in (("str", via_str), ("Path", via_path), ("file", via_file)):
        check(save(obj) == ref, f"{path.name}: reading via {how} differs")
capture.take()

for bad in ("tests/files/definitely-not-here.sunvox", Path("tests/files/nope.sunsynth")):
    try:
        read_sunvox_file(bad)
    except Exception as e:  # noqa
        note("missing-file", type(e).__name__, e.errno)
    check(errors_mod.RAISE_CONTROLLER_VALUE_ERRORS is True, "mode not restored (missing file)")

# files that are not SunVox files at all / truncated ones
fd, tmpname = tempfile.mkstemp(suffix=".sunvox")
os.close(fd)
try:
    sample = FILES[0].read_bytes()
    for label, content in (
        ("empty", b""),
        ("garbage", b"hello world, this is not IFF"),
        ("only-magic", b"SVOX\x00\x00\x00\x00"),
        ("only-ssyn", b"SSYN\x00\x00\x00\x00"),
        ("unknown-first", b"ABCD\x00\x00\x00\x00"),
        ("truncated-half", sample[: len(sample) // 2]),
        ("truncated-odd", sample[:-3]),
    ):
        Path(tmpname).write_bytes(content)
        for how, arg in (("str", tmpname), ("bytesio", io.BytesIO(content))):
            capture.take()
            try:
                obj = read_sunvox_file(arg)
                got = ("ok", type(obj).__name__, None if obj is None else len(save(obj)))
            except Exception as e:  # noqa
                got = ("exc", type(e).__name__, str(e))
            note("odd-file", label, how, got, capture.take())
            check(errors_mod.RAISE_CONTROLLER_VALUE_ERRORS is True, f"mode not restored ({label})")
finally:
    os.unlink(tmpname)

# with raising enabled on read the same files raise instead of warn
errors_mod_flag = errors_mod.RAISE_RANGE_ERRORS_ON_READ
check(errors_mod_flag is False, "RAISE_RANGE_ERRORS_ON_READ default changed")

# ------------------------------------------------ 2. hand-built link layouts


def base_project(n_modules, version=None, with_pattern=False):
    """Chunk list for a project with Output + n Amplifiers and no links."""
    p = Project()
    for i in range(n_modules):
        p.new_module(rv.m.Amplifier, name=f"amp{i}")
    if with_pattern:
        pat = Pattern(lines=4, tracks=2)
        p.attach_pattern(pat)
        for li, line in enumerate(pat.data):
            for ti, nt in enumerate(line):
                nt.note = 10 + li
                nt.module = 0x0100 * (li + 1) + ti + 1
    cl = parse(save(p))
    if version is not None:
        for c in cl:
            if c[0] == b"VERS":
                c[1] = struct.pack("BBBB", *reversed(version))
    return cl


def with_links(cl, links, slots=None):
    """Replace SLNK (and add SLnK) of module k with links[k] / slots[k]."""
    out = []
    k = -1
    for name, payload in cl:
        if name == b"SFFF":
            k += 1
        if name == b"SLnK":
            continue
        if name == b"SLNK":
            out.append([name, links.get(k, payload) if isinstance(links, dict) else payload])
            if slots and k in slots:
                out.append([b"SLnK", slots[k]])
            continue
        out.append([name, payload])
    return out


LAYOUTS = {
    "chain": ({0: ints(1), 1: ints(2), 2: ints(3)}, None),
    "fan-in": ({0: ints(1, 2, 3)}, None),
    "fan-out": ({0: ints(1), 2: ints(1), 3: ints(1)}, None),
    "hole-middle": ({0: ints(1, -1, 2)}, None),
    "hole-first": ({0: ints(-1, 1)}, None),
    "trailing-holes": ({0: ints(1, -1, -1)}, None),
    "only-holes": ({0: ints(-1, -1)}, None),
    "self-link": ({1: ints(1)}, None),
    "cycle": ({1: ints(2), 2: ints(1), 0: ints(1)}, None),
    "dangling": ({0: ints(1, 9)}, None),
    "dangling-only": ({0: ints(9)}, None),
    "dangling-big": ({1: ints(2**31 - 1), 0: ints(1)}, None),
    "negative-two": ({0: ints(-2)}, None),
    "duplicate": ({0: ints(1, 1)}, None),
    "slots-explicit": ({0: ints(1, 2), 3: ints(1, 2)}, {0: ints(0, 0), 3: ints(1, 1)}),
    "slots-zero": ({0: ints(1, 2)}, {0: ints(0, 0)}),
    "slots-minus": ({0: ints(1, 2)}, {0: ints(-1, -1)}),
    "slots-mixed": ({0: ints(1, -1, 2)}, {0: ints(0, -1, 0)}),
    "slots-sparse": ({0: ints(1)}, {0: ints(5)}),
    "slots-short": ({0: ints(1, 2)}, {0: ints(0)}),
    "slots-long": ({0: ints(1)}, {0: ints(0, 3)}),
    "slots-neg2": ({0: ints(1)}, {0: ints(-2)}),
    "slots-some-missing": ({0: ints(1, 2), 3: ints(1, 2)}, {3: ints(1, 1)}),
    "empty-slnk-with-slots": ({0: b""}, {0: ints(2)}),
}
for label, (links, slots) in LAYOUTS.items():
    for n in (3, 4):
        cl = with_links(base_project(n), links, slots)
        examine(build(cl), f"layout/{label}/{n}")

# module slots that are empty (lone SEND) in the middle and at the end
cl = base_project(4)
send_positions = [i for i, (n, _) in enumerate(cl) if n == b"SEND"]
sfff_positions = [i for i, (n, _) in enumerate(cl) if n == b"SFFF"]
for label, drop in (("drop-last", [4]), ("drop-last-two", [3, 4]), ("drop-middle", [2]),
                    ("drop-first-amp", [1])):
    m = []
    k = -1
    for name, payload in cl:
        if name == b"SFFF":
            k += 1
        if k in drop and name != b"SEND":
            continue
        m.append([name, payload])
    for lname, (links, slots) in (("none", ({}, None)), ("to-kept", ({0: ints(1)}, None)),
                                  ("to-dropped", ({0: ints(drop[0])}, None)),
                                  ("to-dropped-slots", ({0: ints(drop[0])}, {0: ints(1)}))):
        examine(build(with_links(m, links, slots)), f"empty-slot/{label}/{lname}")
# trailing empty module slots appended after the last module
for extra in (1, 3):
    examine(build(cl + [[b"SEND", b""]] * extra), f"trailing-send/{extra}")

# exhaustive small link tables on a 3-module project (output + 2)
small = base_project(2)
choices = [b"", ints(1), ints(2), ints(-1, 1), ints(1, 2), ints(2, 1, -1)]
for a, b_, c in itertools.product(choices, repeat=3):
    examine(build(with_links(small, {0: a, 1: b_, 2: c}, None)),
            f"exhaustive/{a.hex()}/{b_.hex()}/{c.hex()}")

# ------------------------------------------------ 3. legacy versions and patterns

for version in ((1, 7, 0, 0), (1, 9, 4, 9), (1, 9, 5, 0), (1, 9, 5, 1), (2, 1, 2, 1), (0, 0, 0, 0)):
    cl = base_project(2, version=version, with_pattern=True)
    obj = examine(build(cl), f"legacy/{version}")
    if obj is not None:
        mods = [[n.module for n in line] for line in obj.patterns[0].data]
        note("legacy-modules", version, mods, obj.loaded_sunvox_version, obj.based_on_version)
        if version < (1, 9, 5, 0):
            check(all(m < 256 for line in mods for m in line), f"{version}: high byte kept")
        else:
            check(any(m >= 256 for line in mods for m in line), f"{version}: high byte lost")
    # without a BVER chunk
    examine(build([c for c in cl if c[0] != b"BVER"]), f"legacy-nobver/{version}")

# ------------------------------------------------ 4. unknown chunks, CVAL counts

cl = base_project(2)
first_cval = next(i for i, (n, _) in enumerate(cl) if n == b"CVAL")
examine(build(cl[:first_cval] + [[b"XYZ ", b"abc"], [b"Q", b""]] + cl[first_cval:]), "unknown-chunks")
examine(build(cl[:3] + [[b"PAMD", b"\x00" * 4]] + cl[3:]), "pamd")
for path in FILES:
    if path.suffix != ".sunsynth":
        continue
    cl = parse(path.read_bytes())
    cvals = [i for i, (n, _) in enumerate(cl) if n == b"CVAL"]
    if not cvals:
        continue
    last = cvals[-1]
    for extra in (1, 3):
        surplus = [[b"CVAL", ints(1000 + j)] for j in range(extra)]
        examine(build(cl[: last + 1] + surplus + cl[last + 1 :]), f"{path.name}/surplus-cvals/{extra}")
    for keep in (0, 1, len(cvals) // 2, len(cvals) - 1):
        dropped = set(cvals[keep:])
        examine(build([c for i, c in enumerate(cl) if i not in dropped]),
                f"{path.name}/first-{keep}-cvals")
    # no STYP: the reader keeps a base Module and every CVAL is surplus
    examine(build([c for c in cl if c[0] != b"STYP"]), f"{path.name}/no-styp")
    # out-of-range values stay put over cycles
    for k in (0, len(cvals) // 2, len(cvals) - 1):
        for v in (300, -9, 99999):
            m = [list(c) for c in cl]
            m[cvals[k]][1] = ints(v)
            examine(build(m), f"{path.name}/cval[{k}]={v}")

# ------------------------------------------------ 5. option tables

for path in FILES:
    if path.suffix != ".sunsynth":
        continue
    cl = parse(path.read_bytes())
    mtype = next((p for n, p in cl if n == b"STYP"), b"").rstrip(b"\0").decode()
    cls = MODULE_CLASSES.get(mtype)
    if cls is None or not cls.options:
        continue
    for i, (name, payload) in enumerate(cl):
        if name != b"CHDT" or cl[i - 1][0] != b"CHNM":
            continue
        (chnm,) = struct.unpack("<I", cl[i - 1][1])
        if chnm != cls.options_chnm:
            continue
        variants = {
            "empty": b"",
            "one": payload[:1],
            "ones": b"\xff" * len(payload),
            "long-64": payload.ljust(64, b"\x5a"),
            "long-80": payload.ljust(80, b"\xa5"),
            "alt": bytes((0x55, 0xAA) * 32)[: len(payload)],
        }
        for vname, data in variants.items():
            m = [list(c) for c in cl]
            m[i][1] = data
            obj = examine(build(m), f"{path.name}/options/{vname}")
            if obj is not None:
                note("option-values", path.name, vname,
                     sorted((k, type(v).__name__, v) for k, v in obj.module.option_values.items()))
        break

# load_options directly, including a chunk without data
for mtype, cls in sorted(MODULE_CLASSES.items()):
    if not cls.options:
        continue
    for label, chdt in (("empty", b""), ("ff", b"\xff" * 10), ("bytearray", bytearray(b"\x01\x02\x03")),
                        ("list", [255, 0, 255]), ("seventy", bytes(range(70))), ("none", None)):
        mod = cls()
        chunk = rv.m.Chunk()
        chunk.chnm = cls.options_chnm
        chunk.chdt = chdt
        try:
            mod.load_options(chunk)
            got = sorted((k, type(v).__name__, v) for k, v in mod.option_values.items())
        except Exception as e:  # noqa
            got = ("exc", type(e).__name__)
        note("load_options", mtype, label, got)
        check(chunk.chdt is chdt, f"{mtype}: load_options replaced chunk data")
        if isinstance(chdt, (bytearray, list)):
            check(len(chdt) == 3, f"{mtype}: load_options modified the chunk data in place")

# ------------------------------------------------ 6. clone

for mtype, cls in sorted(MODULE_CLASSES.items()):
    if mtype == "Output":
        continue
    mod = cls()
    before = snapshot(mod)
    capture.take()
    try:
        twin = mod.clone()
    except Exception as e:  # noqa
        note("clone", mtype, "exc", type(e).__name__, str(e))
        continue
    note("clone", mtype, type(twin).__name__, save(Synth(twin)), capture.take())
    check(twin is not mod, f"{mtype}: clone returned the same object")
    check(type(twin) is type(mod), f"{mtype}: clone changed the type")
    check(snapshot(mod) == before, f"{mtype}: clone changed the original")
    check(save(Synth(twin)) == save(Synth(mod)), f"{mtype}: clone saves differently")
try:
    rv.m.Module().clone()
except Exception as e:  # noqa
    note("clone-base", type(e).__name__, str(e))

# ------------------------------------------------ verdict

result = digest.hexdigest()
if failures:
    print("FAIL")
    for f in failures[:40]:
        print("  -", f)
    print("   ", len(failures), "failures")
    sys.exit(1)
if result != EXPECTED_DIGEST:
    print("FAIL: behaviour digest differs from the one recorded on the unchanged tree")
    print("  expected", EXPECTED_DIGEST)
    print("  got     ", result)
    sys.exit(1)
print("PASS", result[:16], f"({len(FILES)} fixtures)")
print("    ", dict(stats))
