"""Behaviour check for Note.mod / Note.module_index and Module.__init__
ownership back-references (property C14).

Run from the repository root:
    PYTHONPATH=<root>/src/python python check.py
"""
import random
import sys
from io import BytesIO

from rv.api import NOTE, NOTECMD, Note, Pattern, Project, m, read_sunvox_file
from rv.errors import ModuleOwnershipError, PatternOwnershipError
from rv.modules.module import Module
from rv.modules.output import Output

FAILS = []


def check(cond, msg):
    if not cond:
        FAILS.append(msg)


def roundtrip(project):
    f = BytesIO()
    project.write_to(f)
    f.seek(0)
    return read_sunvox_file(f)


def coherent(project, label):
    check(project.modules[0] is project.output, f"{label}: output slot")
    for pos, mod in enumerate(project.modules):
        if mod is not None:
            check(mod.index == pos and mod.parent is project, f"{label}: module {pos}")
            check(int(mod) == pos + 1, f"{label}: int(module) at {pos}")
    for pat in project.patterns:
        if isinstance(pat, Pattern):
            check(pat.project is project, f"{label}: pattern owner")
            for line in pat.data:
                for note in line:
                    check(note.pattern is pat and note.project is project, f"{label}: note owner")
                    want = None
                    if note.module and note.module - 1 < len(project.modules):
                        want = project.modules[note.module - 1]
                    check(note.mod is want, f"{label}: note.mod for module={note.module}")


# --- Module construction: back-references and kwargs ---------------------
for cls in (m.Amplifier, m.Generator, m.Filter, m.FilterPro, m.Sampler, m.MetaModule,
            m.MultiSynth, m.Lfo, m.Fmx, m.AnalogGenerator, m.Delay, m.Echo, m.Reverb):
    mod = cls()
    check(mod.index is None and mod.parent is None, f"{cls.__name__}: unattached defaults")
    check(set(mod.controllers_loaded) == set(mod.controllers), f"{cls.__name__}: controllers loaded")
    check(list(mod.controllers_loaded) is not None, f"{cls.__name__}: loaded set")
    for name, ctl in mod.controllers.items():
        if ctl.attached(mod):
            check(name in mod.controller_values, f"{cls.__name__}.{name}: value initialised")
marker = object()
mod = m.Amplifier(index=7, parent=marker, volume=12, name="x", x=1, y=2)
check(mod.index == 7 and mod.parent is marker, "kw index/parent honoured")
check(mod.volume == 12 and mod.name == "x" and (mod.x, mod.y) == (1, 2), "kw values honoured")
check(Output().index is None and Output.index == 0, "Output instance index starts None")
check(Output(index=0).index == 0, "Output kw index")
check(Module().index is None and Module().parent is None, "base Module defaults")
# dependent-range controllers see the values they depend on
dly = m.Delay(delay_unit=m.Delay.DelayUnit.hz, delay_l=300, delay_r=400)
check((dly.delay_l, dly.delay_r) == (300, 400), "dependent range kwargs")
dflt = m.Delay()
check((dflt.delay_l, dflt.delay_r) == (128, 160), "dependent range defaults")
# controller initialisation order is visible in controller_values key order
keys = list(m.Delay().controller_values)
plain = [k for k, c in m.Delay.controllers.items() if type(c.value_type).__name__ != "DependentRange"]
dep = [k for k, c in m.Delay.controllers.items() if type(c.value_type).__name__ == "DependentRange"]
check(keys == plain + dep, f"Delay controller init order {keys}")
for cls in (m.Amplifier, m.Echo, m.Reverb, m.Lfo, m.Filter):
    keys = list(cls().controller_values)
    plain = [k for k, c in cls.controllers.items() if type(c.value_type).__name__ != "DependentRange"]
    dep = [k for k, c in cls.controllers.items() if type(c.value_type).__name__ == "DependentRange"]
    check(keys == plain + dep, f"{cls.__name__} controller init order")

# --- Note.module_index ---------------------------------------------------
for number, want in ((0, None), (1, 0), (2, 1), (255, 254), (256, 255), (0xFFFF, 0xFFFE)):
    check(Note(module=number).module_index == want, f"module_index for {number}")
check(Note().module == 0 and Note().module_index is None, "default note has no module")

# --- Note.mod getter -----------------------------------------------------
orphan = Note(module=1)
try:
    orphan.mod
    check(False, "note without pattern resolved")
except AttributeError:
    pass
loose = Pattern(tracks=2, lines=2)
for number in (0, 1, 5):
    loose.data[0][0].module = number
    try:
        loose.data[0][0].mod
        check(False, "note in unowned pattern resolved")
    except PatternOwnershipError as e:
        check(str(e) == "Pattern not owned by a project", "unowned pattern message")

p = Project()
amp, gen = p.new_module(m.Amplifier), p.new_module(m.Generator)
p.attach_module(None)
flt = m.Filter()
p.attach_module(flt, loading=True)
check([x.index if x else None for x in p.modules] == [0, 1, 2, None, 4], "layout with gap")
pat = Pattern(tracks=3, lines=4)
p += pat
note = pat.data[1][2]
expect = {0: None, 1: p.output, 2: amp, 3: gen, 4: None, 5: flt, 6: None, 7: None, 0xFFFF: None}
for number, want in expect.items():
    note.module = number
    check(note.mod is want, f"note.mod for module={number}")
# a gap later filled is seen through existing notes
note.module = 4
check(note.mod is None, "gap resolves to None")
rev = p.new_module(m.Reverb)
check(rev.index == 3 and note.mod is rev, "filled gap resolves to new module")
note.module = 6
check(note.mod is None, "past end resolves to None")
dl = p.new_module(m.Delay)
check(dl.index == 5 and note.mod is dl, "appended module resolves")

# --- Note.mod setter -----------------------------------------------------
for target in (p.output, amp, gen, rev, flt, dl):
    note.mod = target
    check(note.module == target.index + 1 == int(target), f"setter number for {target!r}")
    check(note.module_index == target.index and note.mod is target, f"setter roundtrip {target!r}")
for unattached in (m.Amplifier(), Output(), m.Amplifier(index=3), Module()):
    prev = note.module
    try:
        note.mod = unattached
        check(False, "unattached module accepted by setter")
    except ModuleOwnershipError as e:
        check(str(e) == "Module must be attached to a project", "setter message")
    check(note.module == prev, "refused setter changed note")
# setter does not care which project owns the module, only that one does
q = Project()
qm = q.new_module(m.Echo)
q.new_module(m.Echo)
qm2 = q.new_module(m.Echo)
note.mod = qm2
check(note.module == 4 and note.mod is rev, "foreign module number resolves in own project")
# setter works on notes outside any pattern
free = Note()
free.mod = gen
check(free.module == 3 and free.module_index == 2, "setter on free note")

# --- tabular_repr / raw_data / clone use the same numbering --------------
n = Note(note=NOTE.C5, vel=129, module=0)
check(n.tabular_repr() == "C5 80 " + " " * 15, f"tabular no module: {n.tabular_repr()!r}")
n.module = 1
check(n.tabular_repr() == "C5 80 0000" + " " * 11, f"tabular module 1: {n.tabular_repr()!r}")
n.module = 0x1235
check(n.tabular_repr(note_fmt="MMMM") == "1234", "tabular big module")
check(Note(module=17).tabular_repr(note_fmt="[MMMM]") == "[0010]", "tabular fmt")
check(Note(note=NOTECMD.NOTE_OFF, module=3).tabular_repr(note_fmt="NN MMMM") == "== 0002", "tabular off")
n2 = n.clone()
check(n2.module == 0x1235 and n2.module_index == 0x1234 and n2.pattern is None, "clone")
check(Note(module=258).raw_data == bytes([0, 0, 2, 1, 0, 0, 0, 0]), "raw_data module field")
n3 = Note()
n3.raw_data = bytes([1, 2, 7, 0, 0, 0, 0, 0])
check(n3.module == 7 and n3.module_index == 6, "raw_data setter")
pat.data[1][2].module = 4
check(pat.tabular_repr().splitlines()[2].split(" | ")[3].split() == ["..", "0003"], "pattern tabular")

# --- save / load keeps references pointing at the same positions ---------
pat.data[0][0].note = NOTE.C4
pat.data[0][0].mod = flt
pat.data[0][1].note = NOTE.D4
pat.data[0][1].mod = rev
pat.data[2][0].module = 40  # dangling reference survives as a number
p2 = roundtrip(p)
coherent(p, "p")
coherent(p2, "p2")
pat2 = p2.patterns[0]
check(type(pat2.data[0][0].mod) is m.Filter and pat2.data[0][0].mod.index == flt.index, "roundtrip flt")
check(type(pat2.data[0][1].mod) is m.Reverb and pat2.data[0][1].mod.index == 3, "roundtrip rev")
check(pat2.data[2][0].module == 40 and pat2.data[2][0].mod is None, "roundtrip dangling")
check(pat2.data[3][2].module == 0 and pat2.data[3][2].mod is None, "roundtrip empty note")
check(pat2.tabular_repr() == pat.tabular_repr(), "roundtrip tabular")

lp = read_sunvox_file("tests/files/issue54/test1.sunvox")
coherent(lp, "issue54")
lpat = lp.patterns[0]
ln = lpat.data[0][0]
ln.module = 3
check(ln.mod is None, "issue54 gap resolves to None")
filler = lp.new_module(m.Amplifier)
check(ln.mod is filler, "issue54 filled gap resolves")
ln.mod = lp.modules[3]
check(ln.module == 4, "issue54 setter")
coherent(roundtrip(lp), "issue54 roundtrip")
for name in ("single-fm", "supertracks", "module-multiselect", "empty"):
    coherent(read_sunvox_file(f"tests/files/{name}.sunvox"), name)

# --- randomised histories ------------------------------------------------
CLASSES = [m.Amplifier, m.Generator, m.Filter, m.Reverb, m.Delay, m.Echo]
rng = random.Random(4242)
for trial in range(40):
    pr = Project()
    pats = []
    for step in range(30):
        op = rng.randrange(6)
        label = f"trial {trial} step {step}"
        if op == 0:
            pr.new_module(rng.choice(CLASSES))
        elif op == 1:
            pr.attach_module(None)
        elif op == 2:
            pt = Pattern(tracks=rng.randrange(1, 4), lines=rng.randrange(1, 4))
            pr += pt
            pats.append(pt)
        elif op == 3 and pats:
            pt = rng.choice(pats)
            nt = pt.data[rng.randrange(pt.lines)][rng.randrange(pt.tracks)]
            nt.module = rng.choice([0, 1, 2, 3, 5, 8, len(pr.modules), len(pr.modules) + 1, 0xFFFF])
        elif op == 4 and pats:
            pt = rng.choice(pats)
            nt = pt.data[rng.randrange(pt.lines)][rng.randrange(pt.tracks)]
            target = rng.choice([x for x in pr.modules if x is not None])
            nt.mod = target
            check(nt.mod is target and nt.module == target.index + 1, f"{label}: set/get")
        elif op == 5 and pr.modules[-1] is not None:
            pr = roundtrip(pr)
            pats = [x for x in pr.patterns if isinstance(x, Pattern)]
        coherent(pr, label)

if FAILS:
    print("FAIL")
    for f in FAILS[:30]:
        print("  -", f)
    sys.exit(1)
print("PASS")
