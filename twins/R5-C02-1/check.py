"""Behaviour check for the CVAL/CMID/CHNK writer shared by Synth and Project.

Exercises Synth.chunks(), Project.chunks() (module section), Module.clone()
for every module type under several controller/option/MIDI-map settings and
compares the bytes written with an independent reference writer, with the
in-project section, and with a golden digest.
"""
import hashlib
import io
import logging
import sys
from enum import Enum
from struct import pack

import rv.api  # noqa: F401  (imports every module class)
from rv.cmidmap import MidiMessageType, Slope
from rv.controller import DependentRange, Range
from rv.errors import EmptySynthError
from rv.lib.iff import chunks as read_chunks
from rv.modules import MODULE_CLASSES, Module
from rv.modules.metamodule import MetaModule
from rv.project import Project
from rv.readers.reader import read_sunvox_file
from rv.synth import Synth

logging.disable(logging.CRITICAL)

GOLDEN = "0691d232c013c64d4c309df86ab432bef8fa86adc2cf1efbaa718b974d314881"

failures = []


def check(cond, msg):
    if not cond:
        failures.append(msg)


def pick(value_type, which):
    if isinstance(value_type, Range):
        lo, hi = value_type.min, value_type.max
        return {"min": lo, "max": hi, "mid": (lo + hi) // 2}[which]
    if value_type is bool:
        return {"min": False, "max": True, "mid": True}[which]
    if isinstance(value_type, type) and issubclass(value_type, Enum):
        members = list(value_type)
        return {"min": members[0], "max": members[-1], "mid": members[len(members) // 2]}[
            which
        ]
    return None


def configure(mod, which):
    names = list(mod.controllers)
    plain = [
        n for n in names if not isinstance(mod.controllers[n].value_type, DependentRange)
    ]
    dependent = [n for n in names if n not in plain]
    for name in plain + dependent:
        ctl = mod.controllers[name]
        if not ctl.attached(mod):
            continue
        value = pick(ctl.instance_value_type(mod), which)
        if value is None:
            continue
        try:
            setattr(mod, name, value)
        except Exception:
            pass
    for i, opt in enumerate(mod.options.values()):
        if opt.size == 1:
            value = {"min": False, "max": True, "mid": bool(i % 2)}[which]
        elif None not in (opt.min, opt.max):
            value = {"min": opt.min, "max": opt.max, "mid": (opt.min + opt.max) // 2}[
                which
            ]
        else:
            value = {"min": 0, "max": (1 << opt.size) - 1, "mid": 1}[which]
        try:
            setattr(mod, opt.name, value)
        except Exception:
            pass
    if which != "min":
        for i, name in enumerate(names[:5]):
            cm = mod.controller_midi_maps[name]
            cm.channel = (i * 3 + 1) % 16
            cm.message_type = list(MidiMessageType)[(i + 1) % len(MidiMessageType)]
            cm.message_parameter = 1000 * i + 7
            cm.slope = list(Slope)[i % len(Slope)]


def payload_tweak(mod, which):
    """Give the type-specific payload non-default contents."""
    if which == "default":
        return
    n = {"min": 1, "mid": 2, "max": 3}[which]
    name = type(mod).__name__
    if name == "WaveShaper":
        mod.curve.values = [(i * 257 * n) % 65536 for i in range(256)]
    elif name == "MultiCtl":
        mod.curve.values = [(i * 128 * n) % 32769 for i in range(257)]
        for i in range(16):
            m = mod.mappings.values[i]
            m.min, m.max, m.controller = i * n, 0x8000 - i, (i * n) % 7
    elif name == "MultiSynth":
        mod.nv_curve.values = [(i * n) % 256 for i in range(128)]
        mod.vv_curve.values = [(255 - i * n) % 256 for i in range(257)]
        if n == 3:
            mod.np_curve.values = [v + 1 for v in mod.np_curve.values]
    elif name in ("Generator", "AnalogGenerator"):
        mod.drawn_waveform.samples = [((i * 9 * n) % 256) - 128 for i in range(32)]
    elif name == "Fmx":
        mod.custom_waveform.values = [((i * n) % 256) / 128.0 - 1.0 for i in range(256)]
    elif name == "SpectraVoice":
        for i, h in enumerate(mod.harmonics):
            h.freq_hz = (1000 * i * n) % 22050
            h.volume = (i * 16 * n) % 256
            h.width = (i * n) % 4
            h.type = list(mod.HarmonicType)[(i * n) % len(mod.HarmonicType)]
    elif name == "VorbisPlayer":
        mod.data = bytes(range(256)) * n
    elif name == "MetaModule":
        mod.user_defined_controllers = 2 * n
        mod.user_defined[0].label = "Cutoff %d" % n


def reference_state_chunks(mod):
    """The original (pre-refactoring) emission of CVAL/CMID/CHNK chunks."""
    controllers = [n for n, c in mod.controllers.items() if c.attached(mod)]
    for name in controllers:
        raw_value = mod.get_raw(name)
        yield b"CVAL", pack("<i", raw_value)
    if controllers:
        yield (
            b"CMID",
            b"".join(mod.controller_midi_maps[name].cmid_data for name in controllers),
        )
    if mod.chnk:
        yield b"CHNK", pack("<I", mod.chnk)
        yield from mod.specialized_iff_chunks()


def reference_synth_chunks(synth):
    yield (b"SSYN", b"")
    yield b"VERS", pack("BBBB", *reversed(synth.sunsynth_version))
    mod = synth.module
    yield from mod.iff_chunks(in_project=False)
    recompute = getattr(mod, "recompute_controller_attachment", lambda: None)
    recompute()
    yield from reference_state_chunks(mod)
    yield b"SEND", b""


def encode(chunk_iter):
    out = io.BytesIO()
    for name, data in chunk_iter:
        if name is None:
            continue
        out.write(name.ljust(4, b" ")[:4] + pack("<I", len(data)) + data)
    return out.getvalue()


def parse(data):
    return list(read_chunks(io.BytesIO(data)))


def state_part(chunk_list):
    """Chunks from the first CVAL/CHNK up to (excluding) SEND."""
    names = [n for n, _ in chunk_list]
    start = None
    for i, n in enumerate(names):
        if n in (b"CVAL", b"CHNK"):
            start = i
            break
    if start is None:
        return []
    end = names.index(b"SEND", start)
    return chunk_list[start:end]


def module_state(mod):
    attached = [n for n, c in mod.controllers.items() if c.attached(mod)]
    return (
        type(mod),
        [(n, mod.get_raw(n)) for n in attached],
        sorted(mod.option_values.items()),
        [(n, mod.controller_midi_maps[n].cmid_data) for n in mod.controllers],
        (mod.mod_finetune, mod.mod_relative_note, mod.mod_scale, tuple(mod.color)),
        (mod.midi_in_always, mod.midi_in_channel, mod.midi_out_channel),
        (mod.midi_out_bank, mod.midi_out_program, mod.name, mod.flags),
        encode(mod.specialized_iff_chunks()) if mod.chnk else b"",
    )


digest = hashlib.sha256()
count = 0
for mtype, cls in sorted(MODULE_CLASSES.items()):
    if mtype == "Output":
        continue
    for which in ("default", "min", "mid", "max"):
        label = f"{cls.__name__}/{which}"
        mod = cls(name=f"{cls.__name__[:8]} {which}", finetune=-3, relative_note=5)
        if which != "default":
            configure(mod, which)
        payload_tweak(mod, which)
        synth = Synth(mod)
        got = synth.read()
        digest.update(got)
        count += 1
        check(got == encode(reference_synth_chunks(synth)), f"{label}: bytes differ from reference writer")
        check(got == synth.read(), f"{label}: writing twice differs")
        parsed = parse(got)
        names = [n for n, _ in parsed]
        attached = [n for n, c in mod.controllers.items() if c.attached(mod)]
        check(names[:3] == [b"SSYN", b"VERS", b"SFFF"], f"{label}: header order")
        check(names[-1] == b"SEND" and names.count(b"SEND") == 1, f"{label}: SEND")
        check(names.count(b"CVAL") == len(attached), f"{label}: CVAL count")
        check(names.count(b"CMID") == (1 if attached else 0), f"{label}: CMID count")
        if attached:
            cmid = dict(parsed)[b"CMID"]
            check(len(cmid) == 8 * len(attached), f"{label}: CMID size")
            check(names.index(b"CMID") == max(i for i, n in enumerate(names) if n == b"CVAL") + 1, f"{label}: CMID follows CVALs")
        cvals = [data for n, data in parsed if n == b"CVAL"]
        check(cvals == [pack("<i", mod.get_raw(n)) for n in attached], f"{label}: CVAL values/order")
        check((b"CHNK" in names) == bool(mod.chnk), f"{label}: CHNK presence")
        if mod.chnk:
            check(dict(parsed)[b"CHNK"] == pack("<I", mod.chnk), f"{label}: CHNK value")
            check(names.index(b"CHNK") > names.index(b"SMIP"), f"{label}: CHNK position")
        for absent in (b"SXXX", b"SYYY", b"SZZZ", b"SVPR", b"SLNK"):
            check(absent not in names, f"{label}: {absent} in stand-alone synth")

        # clone() and read-back
        before = module_state(mod)
        clone = mod.clone()
        check(module_state(mod) == before, f"{label}: clone() changed the original")
        check(clone is not mod and type(clone) is cls, f"{label}: clone type")
        check(module_state(clone) == before, f"{label}: clone state differs")
        check(Synth(clone).read() == got, f"{label}: clone re-serialises differently")
        loaded = read_sunvox_file(io.BytesIO(got))
        check(isinstance(loaded, Synth) and module_state(loaded.module) == before, f"{label}: read-back differs")
        check(module_state(Synth(mod).clone().module) == before, f"{label}: Synth.clone differs")

        # the same module inside a project
        project = Project()
        project.attach_module(clone)
        check(clone.parent is project and clone.index == 1, f"{label}: attach")
        pbytes = project.read()
        digest.update(pbytes)
        pchunks = parse(pbytes)
        pnames = [n for n, _ in pchunks]
        sends = [i for i, n in enumerate(pnames) if n == b"SEND"]
        check(len(sends) == 2, f"{label}: project SEND count")
        out_section = pchunks[pnames.index(b"SFFF") : sends[0]]
        mod_section = pchunks[sends[0] + 1 : sends[1] + 1]
        check(not any(n in (b"CVAL", b"CMID", b"CHNK") for n, _ in out_section), f"{label}: Output has state chunks")
        check(state_part(mod_section) == state_part(parsed), f"{label}: in-project state chunks differ from stand-alone")
        check(encode(state_part(mod_section)) == encode(reference_state_chunks(clone)), f"{label}: in-project state differs from reference")
        msn = [n for n, _ in mod_section]
        check(all(n in msn for n in (b"SXXX", b"SYYY", b"SZZZ", b"SVPR", b"SLNK")), f"{label}: in-project chunks missing")
        reloaded = read_sunvox_file(io.BytesIO(pbytes))
        check(module_state(reloaded.modules[1]) == before, f"{label}: project read-back differs")
        check(reloaded.read() == pbytes, f"{label}: project re-serialises differently")

# Empty synth refuses to serialise and writes nothing.
for empty in (Synth(), Synth(None)):
    buf = io.BytesIO()
    try:
        empty.write_to(buf)
        check(False, "empty synth serialised")
    except EmptySynthError as e:
        check(str(e) == "Cannot serialize a synth with no module", "EmptySynthError message")
    check(buf.getvalue() == b"", "empty synth wrote bytes")
    gen = empty.chunks()  # creating the generator must not raise
    try:
        next(gen)
        check(False, "empty synth chunks() yielded")
    except EmptySynthError:
        pass
    try:
        empty.read()
        check(False, "empty synth read() worked")
    except EmptySynthError:
        pass

# Base Module cannot be serialised or cloned.
for action in (lambda: Synth(Module()).read(), lambda: Module().clone()):
    try:
        action()
        check(False, "base Module serialised")
    except RuntimeError as e:
        check(str(e) == "Cannot serialize base Module instance.", "base Module message")

# The magic chunk and version are written before the module is touched.
gen = Synth(Module()).chunks()
check(next(gen) == (b"SSYN", b""), "magic chunk first")
check(next(gen) == (b"VERS", bytes([1, 2, 1, 2])), "VERS second")

# MetaModule: stand-alone writer recomputes attachment, project writer does not.
meta = MetaModule()
meta.user_defined_controllers = 3
meta.user_defined[0].detach(meta)
meta.user_defined[5].attach(meta)
in_project = Project()
in_project.attach_module(meta)
pchunks = parse(in_project.read())
check(sum(1 for n, _ in pchunks if n == b"CVAL") == 5 + 3, "MetaModule in-project CVAL count with manual attachment")
check(not meta.user_defined[0].attached(meta) and meta.user_defined[5].attached(meta), "project writer changed attachment")
sbytes = Synth(meta).read()
check(sum(1 for n, _ in parse(sbytes) if n == b"CVAL") == 5 + 3, "MetaModule stand-alone CVAL count")
check([c.attached(meta) for c in meta.user_defined[:6]] == [True, True, True, False, False, False], "synth writer did not recompute attachment")
digest.update(sbytes)

# Values at the edges of negative-offset ranges survive clone().
from rv.modules.amplifier import Amplifier
from rv.modules.vorbisplayer import VorbisPlayer

amp = Amplifier(balance=-128, dc_offset=-128)
check((amp.clone().balance, amp.clone().dc_offset) == (-128, -128), "Amplifier minimum")
amp = Amplifier(balance=128, dc_offset=128)
check((amp.clone().balance, amp.clone().dc_offset) == (128, 128), "Amplifier maximum")
vp = VorbisPlayer(finetune=-128, data=b"OggS\0\1\2")
c = vp.clone()
check((c.finetune, c.data) == (-128, b"OggS\0\1\2"), "VorbisPlayer finetune/data")

if GOLDEN != "@" + "GOLDEN@":
    check(digest.hexdigest() == GOLDEN, f"golden digest differs: {digest.hexdigest()}")
else:
    print("digest", digest.hexdigest())

if failures:
    print("FAIL")
    for f in failures[:40]:
        print(" -", f)
    sys.exit(1)
print(f"PASS ({count} module settings)")
