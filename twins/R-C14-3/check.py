"""Behaviour check for Note.module_index / Note.mod getter and setter."""
import sys
from io import BytesIO

from rv.api import NOTE, Note, Pattern, Project, m, read_sunvox_file
from rv.errors import ModuleOwnershipError, PatternOwnershipError


def roundtrip(project):
    f = BytesIO()
    project.write_to(f)
    f.seek(0)
    return read_sunvox_file(f)


def expect(exc_type, message, fn):
    try:
        fn()
    except exc_type as exc:
        if message is not None:
            assert str(exc) == message, str(exc)
    else:
        raise AssertionError("%s not raised" % exc_type.__name__)


def main():
    # module_index: 0 -> None, otherwise module - 1
    for module, expected in [(0, None), (1, 0), (2, 1), (17, 16), (0xFFFF, 0xFFFE)]:
        n = Note(module=module)
        assert n.module_index == expected, (module, n.module_index)
    n = Note()
    assert n.module == 0 and n.module_index is None
    n.module = 5
    assert n.module_index == 4
    n.module = 0
    assert n.module_index is None

    # note without a pattern: no project to resolve
    expect(AttributeError, None, lambda: Note(module=1).mod)
    expect(AttributeError, None, lambda: Note().project)

    # pattern not owned by a project: getter refuses, even for module 0
    loose = Pattern(tracks=2, lines=2)
    ln = loose.data[0][0]
    assert ln.pattern is loose and ln.project is None
    msg = "Pattern not owned by a project"
    expect(PatternOwnershipError, msg, lambda: ln.mod)
    ln.module = 3
    expect(PatternOwnershipError, msg, lambda: ln.mod)

    # setter works without an owning project, needs an attached module
    p = Project()
    mods = [p.new_module(m.Amplifier, name="a%d" % i) for i in range(1, 6)]
    ln.mod = mods[2]
    assert ln.module == 4 and ln.module_index == 3
    ln.mod = p.output
    assert ln.module == 1 and ln.module_index == 0
    unattached = m.Generator()
    before = ln.module
    expect(ModuleOwnershipError, "Module must be attached to a project",
           lambda: setattr(ln, "mod", unattached))
    assert ln.module == before
    expect(AttributeError, None, lambda: setattr(ln, "mod", None))
    assert ln.module == before
    # parent set but no index: arithmetic on None fails, module untouched
    odd = m.Generator(parent=p)
    expect(TypeError, None, lambda: setattr(ln, "mod", odd))
    assert ln.module == before

    # owned pattern: getter resolves every position
    pat = Pattern(tracks=4, lines=8)
    p += pat
    note = pat.data[0][0]
    assert note.project is p
    assert note.mod is None  # module 0
    for i, mod in enumerate(p.modules):
        note.module = i + 1
        assert note.mod is mod and note.module_index == i
    # setter/getter round trip
    for mod in p.modules:
        note.mod = mod
        assert note.module == mod.index + 1 and note.mod is mod
    # beyond the end -> None
    for module in (len(p.modules) + 1, len(p.modules) + 2, 0xFFFF):
        note.module = module
        assert note.mod is None
    # exactly the last one
    note.module = len(p.modules)
    assert note.mod is p.modules[-1]

    # empty positions resolve to None; refilling them changes the resolution
    p.modules[2] = None
    p.modules[4] = None
    note.module = 3
    assert note.module_index == 2 and note.mod is None
    filler = p.new_module(m.Echo)
    assert filler.index == 2 and note.mod is filler
    note.module = 5
    assert note.mod is None
    filler2 = p.new_module(m.Reverb)
    assert filler2.index == 4 and note.mod is filler2
    # a module from another project can be assigned (only its index is stored)
    q = Project()
    q.new_module(m.Amplifier)
    foreign = q.new_module(m.Amplifier)
    note.mod = foreign
    assert note.module == 3 and note.mod is filler

    # every note of the pattern resolves through the same project
    targets = [x for x in p.modules if x is not None]
    k = 0
    for line in pat.data:
        for nt in line:
            nt.note = NOTE.C4
            nt.mod = targets[k % len(targets)]
            k += 1
    k = 0
    for line in pat.data:
        for nt in line:
            assert nt.mod is targets[k % len(targets)]
            k += 1

    # save/load with gaps: module numbers survive and resolve by position
    p.modules[3] = None
    pat.data[7][3].module = 4      # points at the gap
    pat.data[7][2].module = 40     # points beyond the end
    pat.data[7][1].module = 0      # no module
    r = roundtrip(p)
    rp = r.patterns[0]
    assert r.modules[3] is None
    for line_no in range(8):
        for track_no in range(4):
            a, b = pat.data[line_no][track_no], rp.data[line_no][track_no]
            assert a.module == b.module
            assert b.project is r
            if a.mod is None:
                assert b.mod is None
            else:
                assert b.mod is r.modules[a.mod.index]
                assert b.mod.index == a.mod.index and b.mod.parent is r
                assert type(b.mod) is type(a.mod)
    assert rp.data[7][3].mod is None and rp.data[7][2].mod is None and rp.data[7][1].mod is None
    newcomer = r.new_module(m.Generator)
    assert newcomer.index == 3 and rp.data[7][3].mod is newcomer
    assert pat.data[7][3].mod is None

    # removing ownership makes the getter refuse again
    pat.project = None
    expect(PatternOwnershipError, msg, lambda: note.mod)

    print("PASS")


if __name__ == "__main__":
    try:
        main()
    except AssertionError:
        import traceback
        traceback.print_exc()
        print("FAIL")
        sys.exit(1)
