"""Behaviour check for Sampler.global_config_chunks / Sampler.sample_chunks.

Run from the repository root:
    PYTHONPATH=<root>/src/python python check.py [--print]

Builds a number of samplers, serializes them, and
  * decodes the fixed-layout instrument record and the sample headers with an
    independent struct-based decoder and compares against the object state,
  * compares sha256 digests of the complete output against golden values
    recorded on the unrefactored tree,
  * checks which exception types come out of invalid inputs (and in which
    order, when two fields are invalid at once).
"""

import hashlib
import struct
import sys
from io import BytesIO

from rv.api import Project, Synth, m
from rv.note import NOTE

S = m.Sampler

failures = []


def check(cond, msg):
    if not cond:
        failures.append(msg)


def iter_chunks(data):
    pos = 0
    while pos < len(data):
        cid = data[pos : pos + 4]
        (n,) = struct.unpack("<I", data[pos + 4 : pos + 8])
        yield cid, data[pos + 8 : pos + 8 + n]
        pos += 8 + n
    assert pos == len(data), "trailing garbage"


def module_chunks(data):
    """Return {chnm: {"CHDT":..., "CHFF":..., "CHFR":...}} of a synth file."""
    out = {}
    order = []
    cur = None
    declared = None
    for cid, payload in iter_chunks(data):
        if cid == b"CHNK":
            (declared,) = struct.unpack("<I", payload)
        elif cid == b"CHNM":
            (cur,) = struct.unpack("<I", payload)
            order.append(cur)
            out[cur] = {}
        elif cid in (b"CHDT", b"CHFF", b"CHFR") and cur is not None:
            out[cur][cid.decode()] = payload
    return declared, order, out


INS_FMT = "<I22sHHHI96s48s48s" + "B" * 14 + "HBbBbI4sI128sIii"


def decode_instrument(rec):
    check(len(rec) == struct.calcsize(INS_FMT), f"instrument size {len(rec)}")
    f = struct.unpack(INS_FMT, rec)
    keys = (
        "unused1 name unused2 samples_num unused3 unused4 smp_old volpts panpts "
        "volnum pannum volsus volls volle pansus panls panle voltype pantype "
        "vibtype vibsweep vibdepth vibrate fadeout volume_old finetune unused5 "
        "relnote unused6 sign version smp_num max_version cursor selsize"
    ).split()
    assert len(keys) == len(f)
    return dict(zip(keys, f))


SMP_FMT = "<IIIBbBBbB22sI"


def decode_sample(rec):
    check(len(rec) == struct.calcsize(SMP_FMT) == 44, f"sample hdr size {len(rec)}")
    keys = "length reppnt replen volume finetune type panning relnote res2 name start"
    return dict(zip(keys.split(), struct.unpack(SMP_FMT, rec)))


def legacy_points(env):
    xs = [x for x, _ in env.points][:12]
    ys = [y // 0x200 for _, y in env.points][:12]
    xs += [0] * (12 - len(xs))
    ys += [0] * (12 - len(ys))
    vals = []
    for x, y in zip(xs, ys):
        vals += [x, y - env.range[0] // 0x200]
    return struct.pack("<24H", *vals)


def verify(mod, data, label):
    declared, order, chunks = module_chunks(data)
    check(declared == 0x10B, f"{label}: CHNK {declared}")
    check(all(n < declared for n in order), f"{label}: chnm >= CHNK")
    check(order[0] == 0, f"{label}: first chnm {order[0]}")
    ins = decode_instrument(chunks[0]["CHDT"])
    vol, pan = mod.volume_envelope, mod.panning_envelope
    last = max((i + 1 for i, s in enumerate(mod.samples) if s is not None), default=0)
    nsb = bytes(mod.note_samples.values())
    expect = dict(
        unused1=mod.unused1,
        name=mod.instrument_name.ljust(22, b"\0")[:22],
        unused2=mod.unused2,
        samples_num=last,
        unused3=mod.unused3,
        unused4=mod.unused4,
        smp_old=nsb[:96],
        volpts=legacy_points(vol),
        panpts=legacy_points(pan),
        volnum=len(vol.points),
        pannum=len(pan.points),
        volsus=vol.sustain_point,
        volls=vol.loop_start_point,
        volle=vol.loop_end_point,
        pansus=pan.sustain_point,
        panls=pan.loop_start_point,
        panle=pan.loop_end_point,
        voltype=vol.enable | vol.sustain * 2 | vol.loop * 4,
        pantype=pan.enable | pan.sustain * 2 | pan.loop * 4,
        vibtype=int(mod.vibrato_type),
        vibsweep=mod.vibrato_attack,
        vibdepth=mod.vibrato_depth,
        vibrate=mod.vibrato_rate,
        fadeout=mod.volume_fadeout,
        volume_old=mod.volume_old,
        finetune=mod.ins_finetune,
        unused5=mod.unused5,
        relnote=mod.ins_relative_note,
        unused6=mod.unused6,
        sign=b"PMAS",
        version=mod.version,
        smp_num=nsb.ljust(128, b"\0"),
        max_version=mod.max_version,
        cursor=mod.editor_cursor,
        selsize=mod.editor_selected_size,
    )
    for k, v in expect.items():
        check(ins[k] == v, f"{label}: instrument.{k} {ins[k]!r} != {v!r}")
    fmt_flag = {S.Format.int8: 0, S.Format.int16: 0x10, S.Format.float32: 0x20}
    present = [i for i, s in enumerate(mod.samples) if s is not None]
    sample_chnms = [n for n in order if 0 < n < 0x101]
    check(
        sample_chnms == [n for i in present for n in (2 * i + 1, 2 * i + 2)],
        f"{label}: sample chunk order {sample_chnms}",
    )
    for i in present:
        s = mod.samples[i]
        hdr = decode_sample(chunks[2 * i + 1]["CHDT"])
        exp = dict(
            length=len(s.data) // s.frame_size,
            reppnt=s.loop_start,
            replen=s.loop_len,
            volume=s.volume,
            finetune=s.finetune,
            type=s.loop_type.value
            | fmt_flag[s.format]
            | (0x40 if s.channels == S.Channels.stereo else 0)
            | (4 if s.loop_sustain else 0),
            panning=s.panning + 0x80,
            relnote=s.relative_note,
            res2=s.reserved2,
            name=s.name.ljust(22, b"\0")[:22],
            start=s.start_pos,
        )
        for k, v in exp.items():
            check(hdr[k] == v, f"{label}: sample[{i}].{k} {hdr[k]!r} != {v!r}")
        body = chunks[2 * i + 2]
        check(body["CHDT"] == s.data, f"{label}: sample[{i}] data")
        check(
            body["CHFF"] == struct.pack("<I", s.format.value | s.channels.value),
            f"{label}: sample[{i}] CHFF",
        )
        check(body["CHFR"] == struct.pack("<I", s.rate), f"{label}: sample[{i}] CHFR")


def make_sample(fmt, channels, nbytes, **kw):
    s = S.Sample()
    s.format = fmt
    s.channels = channels
    s.data = bytes((i * 7 + 3) % 256 for i in range(nbytes))
    for k, v in kw.items():
        setattr(s, k, v)
    return s


def build_cases():
    cases = {}

    cases["default"] = S()

    mod = S(instrument_name=b"short")
    mod.samples[0] = make_sample(S.Format.int8, S.Channels.mono, 10)
    cases["one-int8-mono"] = mod

    mod = S(instrument_name=b"x" * 30, name="A sampler with quite a long name indeed")
    mod.samples[0] = make_sample(
        S.Format.int16,
        S.Channels.stereo,
        64,
        loop_type=S.LoopType.forward,
        loop_start=2,
        loop_len=9,
        loop_sustain=True,
        volume=33,
        finetune=-128,
        panning=-128,
        relative_note=-5,
        reserved2=7,
        name=b"exactly-twenty-two-chr",
        start_pos=5,
        rate=22050,
    )
    mod.samples[5] = make_sample(
        S.Format.float32,
        S.Channels.mono,
        16,
        loop_type=S.LoopType.ping_pong,
        finetune=127,
        panning=127,
        relative_note=127,
        name=b"a name that is longer than twenty-two bytes",
        rate=96000,
    )
    mod.samples[127] = make_sample(S.Format.float32, S.Channels.stereo, 0, name=b"")
    mod.samples[3] = None
    cases["sparse-slots"] = mod

    mod = S()
    mod.unused1 = 0xFFFFFFFF
    mod.unused2 = 0xFFFF
    mod.unused3 = 0x1234
    mod.unused4 = 0xDEADBEEF
    mod.unused5 = 0xFF
    mod.unused6 = 0x01020304
    mod.volume_old = 0
    mod.ins_finetune = -128
    mod.ins_relative_note = 127
    mod.editor_cursor = -1
    mod.editor_selected_size = -(2**31)
    mod.version = 5
    mod.max_version = 7
    mod.vibrato_type = S.VibratoType.square
    mod.vibrato_attack = 255
    mod.vibrato_depth = 1
    mod.vibrato_rate = 63
    mod.volume_fadeout = 8192
    for i, k in enumerate(mod.note_samples):
        mod.note_samples[k] = (i * 5) % 128
    vol, pan = mod.volume_envelope, mod.panning_envelope
    vol.points = [(i * 10, (i * 0x0A00) % 0x8001) for i in range(14)]
    vol.sustain_point, vol.loop_start_point, vol.loop_end_point = 3, 1, 13
    vol.enable, vol.sustain, vol.loop = False, True, True
    pan.points = [(0, -0x4000), (5, 0x4000), (9, 0x200)]
    pan.sustain_point, pan.loop_start_point, pan.loop_end_point = 2, 0, 2
    pan.enable, pan.sustain, pan.loop = True, False, True
    cases["extreme-fields"] = mod

    mod = S()
    mod.volume_envelope.points = []
    mod.panning_envelope.points = [(1, 0)]
    mod.samples = [None] * 128
    mod.samples[126] = make_sample(S.Format.int8, S.Channels.stereo, 6)
    cases["empty-envelope"] = mod

    mod = S()
    mod.samples[1] = make_sample(S.Format.int16, S.Channels.mono, 8)
    mod.effect = Synth(m.Reverb(dry=100))
    cases["with-effect"] = mod

    return cases


GOLDEN = {
    # recorded on the unrefactored tree (regenerate with --print)
    "default/synth": "c665ea9372f6fad33025e98226fec67d4f928acad9d40a7a0fa087e2e9016d17",
    "one-int8-mono/synth": "d4d94d5674f95a9b67627a4993407e17e27662d9a33d7e991d57c0e445dfb3c4",
    "sparse-slots/synth": "b744ba5b05237d5173f31be98bf9a6d7e8084f4273f06923c5daabfdb29dd340",
    "extreme-fields/synth": "bd34e6f604454425a2df3ff697ca218bcc1373184630e908a97da0def203db4b",
    "empty-envelope/synth": "6e18d23ca42e6e950408f6c12145f7f79eab95c46e575cc8bd67d0dda758a3c3",
    "with-effect/synth": "1342fb851252502779daca1c63504fa3a0bbefa8f38a913346162127165a3637",
    "default/project": "bcb70da41a805ce986932467c58bc4fda9548cbeb86d8ccb7efe6ff349fca8a9",
    "one-int8-mono/project": "7a945300fff93993928e12ece4ac7cc24c0fb5cab772201cb4effa014fb55fb2",
    "sparse-slots/project": "4d482fb3bfc7c09d8ecf0ec8043a4acdc1767b3a4f1c9d6c37ef97f60fb41900",
    "extreme-fields/project": "862e8e44be42aa13510aab6a5c087db2243229ebc37c7d5f9ee57f2ce343d808",
    "empty-envelope/project": "790b936bcb80f4c35f0590be9985cfa6ef34b17cede58c39d8d6a4a1f0a949a3",
    "with-effect/project": "4b6d3237031583e4a2da53233bebace909c601338040b0b4a2ba9703c7671010",
    "file:tests/files/sampler.sunsynth": "3b0f2915c2ec0456c0932e701153dc1fe981399cffe9631e080af6bc8b9736a0",
}


def serialize(mod, in_project):
    if in_project:
        p = Project()
        p.attach_module(mod)
        p.connect(mod, p.output)
        return p.read()
    return Synth(mod).read()


def expect_raises(label, exc_type, fn):
    try:
        fn()
    except exc_type as e:
        if type(e) is not exc_type:
            failures.append(f"{label}: raised {type(e).__name__}, not {exc_type}")
    except Exception as e:  # noqa
        failures.append(f"{label}: raised {type(e).__name__}: {e}")
    else:
        failures.append(f"{label}: did not raise")


def error_cases():
    def drain(gen):
        return list(gen)

    mod = S()
    mod.unused1 = -1
    expect_raises("unused1=-1", struct.error, lambda: Synth(mod).read())

    mod = S()
    mod.ins_finetune = 128
    expect_raises("ins_finetune=128", struct.error, lambda: Synth(mod).read())

    mod = S()
    mod.instrument_name = "text"
    expect_raises("str instrument_name", TypeError, lambda: Synth(mod).read())

    # two invalid fields: the earlier one in the record wins
    mod = S()
    mod.unused1 = 2**32
    mod.instrument_name = "text"
    expect_raises("unused1 before name", struct.error, lambda: Synth(mod).read())
    mod = S()
    mod.instrument_name = "text"
    mod.unused2 = -1
    expect_raises("name before unused2", TypeError, lambda: Synth(mod).read())
    mod = S()
    mod.unused6 = -1
    mod.controller_values["vibrato_type"] = None
    expect_raises(
        "vibrato_type before unused6", AttributeError, lambda: Synth(mod).read()
    )
    mod = S()
    mod.samples = tuple(mod.samples)
    expect_raises("tuple samples", AttributeError, lambda: Synth(mod).read())

    # nothing is produced by the generator before the record is complete
    mod = S()
    mod.editor_selected_size = 2**31
    gen = mod.global_config_chunks()
    expect_raises("late field, first next()", struct.error, lambda: next(gen))

    # samples
    mod = S()
    smp = make_sample(S.Format.int8, S.Channels.mono, 4)
    smp.format = 3
    expect_raises("bad format", KeyError, lambda: drain(mod.sample_chunks(0, smp)))
    smp = make_sample(S.Format.int8, S.Channels.mono, 4)
    smp.channels = 1
    expect_raises("bad channels", KeyError, lambda: drain(mod.sample_chunks(0, smp)))
    smp = make_sample(S.Format.int8, S.Channels.mono, 4, panning=128)
    expect_raises("panning", struct.error, lambda: drain(mod.sample_chunks(0, smp)))
    smp = make_sample(S.Format.int8, S.Channels.mono, 4, finetune=200)
    smp.loop_type = None
    expect_raises(
        "finetune before type", struct.error, lambda: drain(mod.sample_chunks(0, smp))
    )
    smp = make_sample(S.Format.int8, S.Channels.mono, 4, panning=-129)
    smp.loop_type = None
    expect_raises(
        "type before panning", AttributeError, lambda: drain(mod.sample_chunks(0, smp))
    )
    smp = make_sample(S.Format.int8, S.Channels.mono, 4, volume=256)
    gen = mod.sample_chunks("x", smp)
    expect_raises("fields before chnm", struct.error, lambda: next(gen))
    smp = make_sample(S.Format.int8, S.Channels.mono, 4)
    gen = mod.sample_chunks(None, smp)
    expect_raises("chnm None", TypeError, lambda: next(gen))
    smp = make_sample(S.Format.int8, S.Channels.mono, 4, name="str")
    expect_raises("str name", TypeError, lambda: drain(mod.sample_chunks(0, smp)))

    # generator protocol: exactly these chunk ids, in this order
    smp = make_sample(S.Format.int16, S.Channels.stereo, 8)
    ids = [cid for cid, _ in S().sample_chunks(9, smp)]
    check(
        ids == [b"CHNM", b"CHDT", b"CHNM", b"CHDT", b"CHFF", b"CHFR"],
        f"sample_chunks ids {ids}",
    )
    got = list(S().global_config_chunks())
    check([c for c, _ in got] == [b"CHNM", b"CHDT"], "global_config_chunks ids")
    check(got[0][1] == b"\0\0\0\0", "global_config_chunks chnm")
    check(all(type(p) is bytes for _, p in got), "global_config_chunks payload types")


def file_roundtrips():
    """Re-serialize the sampler test files shipped with the repository."""
    from rv.api import read_sunvox_file

    out = {}
    for name in ("tests/files/sampler.sunsynth",):
        with open(name, "rb") as f:
            synth = read_sunvox_file(f)
        data = synth.read()
        out["file:" + name] = data
        if not synth.module.is_legacy:
            verify(synth.module, data, name)
        again = read_sunvox_file(BytesIO(data)).read()
        check(again == data, f"{name}: second generation differs")
    return out


def main():
    outputs = {}
    for label, mod in build_cases().items():
        data = serialize(mod, in_project=False)
        verify(mod, data, label + "/synth")
        outputs[label + "/synth"] = data
    for label, mod in build_cases().items():
        data = serialize(mod, in_project=True)
        verify(mod, data, label + "/project")
        outputs[label + "/project"] = data
    outputs.update(file_roundtrips())
    error_cases()

    digests = {k: hashlib.sha256(v).hexdigest() for k, v in outputs.items()}
    if "--print" in sys.argv:
        for k, v in digests.items():
            print(f'    "{k}": "{v}",')
        return 0
    check(set(digests) == set(GOLDEN), "golden key set differs")
    for k, v in digests.items():
        check(GOLDEN.get(k) == v, f"{k}: digest {v} != golden {GOLDEN.get(k)}")

    if failures:
        print("FAIL")
        for f in failures:
            print("  -", f)
        return 1
    print(f"PASS ({len(outputs)} serialized objects checked)")
    return 0


if __name__ == "__main__":
    sys.exit(main())
