"""Behaviour check for Note.controller / effect / val_xx / val_yy.

Each is one byte of a 16-bit word (ctl = CCEE, val = XXYY).  Verifies getters,
setters (masking to 8 bits, independence of the sibling byte and of every other
Note field, also when overwriting non-zero content), error types for
unsuitable values, behaviour for out-of-domain words, and that the 8-byte
cell image follows.
"""
import random
import sys
from struct import pack, unpack

import rv.api  # noqa: F401  (import order: rv.note alone hits a circular import)
from rv.note import NOTECMD, Note

FAILS = []


def fail(msg):
    FAILS.append(msg)
    if len(FAILS) < 20:
        print("FAIL:", msg)


# name -> (word attribute, is high byte)
FIELDS = {
    "controller": ("ctl", True),
    "effect": ("ctl", False),
    "val_xx": ("val", True),
    "val_yy": ("val", False),
}


def oracle_get(word, high):
    return word >> 8 if high else word & 0xFF


def oracle_set(word, high, value):
    if high:
        return (word & 0x00FF) | ((value & 0xFF) << 8)
    return (word & 0xFF00) | (value & 0xFF)


def outcome(fn):
    try:
        return ("ok", fn())
    except Exception as e:  # noqa
        return ("err", type(e))


for name in FIELDS:
    if not isinstance(getattr(Note, name), property):
        fail("Note.%s is not a property" % name)

# ---- getters: every 16-bit word --------------------------------------------
n = Note()
for word in range(0x10000):
    n.ctl = word
    n.val = word ^ 0xA5C3
    v = word ^ 0xA5C3
    got = (n.controller, n.effect, n.val_xx, n.val_yy)
    want = (word >> 8, word & 0xFF, v >> 8, v & 0xFF)
    if got != want:
        fail("getters for ctl=%#x val=%#x: %r != %r" % (word, v, got, want))
        break

# ---- setters: every old word x selected new values ------------------------
new_small = [0, 1, 0x7F, 0x80, 0xFF, 0x100, 0x1FF, -1, 0xABCD]
for name, (attr_name, high) in FIELDS.items():
    other_attr = "val" if attr_name == "ctl" else "ctl"
    bad = None
    for word in range(0x10000):
        for value in new_small:
            n = Note(note=5, vel=77, module=0x1234)
            setattr(n, attr_name, word)
            setattr(n, other_attr, 0xBEEF)
            setattr(n, name, value)
            new_word = getattr(n, attr_name)
            if new_word != oracle_set(word, high, value):
                bad = (word, value, new_word)
                break
            if getattr(n, name) != value & 0xFF:
                bad = (word, value, "readback %r" % getattr(n, name))
                break
            if (n.note, n.vel, n.module, getattr(n, other_attr)) != (5, 77, 0x1234, 0xBEEF):
                bad = (word, value, "other fields changed")
                break
        if bad:
            fail("%s setter: %r" % (name, bad))
            break

# ---- setters: every new byte value (and beyond) x sampled old words -------
rnd = random.Random(1212)
old_words = [0, 0xFF, 0xFF00, 0xFFFF, 0x0100, 0x0001, 0x8080] + [
    rnd.randrange(0x10000) for _ in range(40)
]
for name, (attr_name, high) in FIELDS.items():
    sibling = [k for k, (a, h) in FIELDS.items() if a == attr_name and h != high][0]
    for word in old_words:
        for value in list(range(-300, 700)) + [True, False, NOTECMD.NOTE_OFF, 2**40 + 9]:
            n = Note()
            setattr(n, attr_name, word)
            sib_before = getattr(n, sibling)
            setattr(n, name, value)
            if getattr(n, attr_name) != oracle_set(word, high, value):
                fail("%s=%r on %#x -> %#x" % (name, value, word, getattr(n, attr_name)))
            if getattr(n, name) != value & 0xFF:
                fail("%s read-back after %r on %#x" % (name, value, word))
            if getattr(n, sibling) != sib_before:
                fail("%s=%r on %#x changed %s" % (name, value, word, sibling))
            if type(getattr(n, attr_name)) is not int:
                fail("%s=%r leaves %s of type %r" % (name, value, attr_name, type(getattr(n, attr_name))))

# ---- set twice / set all four in every order ---------------------------------
import itertools  # noqa: E402

targets = {"controller": 0x12, "effect": 0x34, "val_xx": 0x56, "val_yy": 0x78}
for order in itertools.permutations(targets):
    n = Note(ctl=0xFFFF, val=0xFFFF)
    for name in order:
        setattr(n, name, 0xEE)  # first a throw-away value
    for name in order:
        setattr(n, name, targets[name])
    if (n.ctl, n.val) != (0x1234, 0x5678):
        fail("order %r -> ctl=%#x val=%#x" % (order, n.ctl, n.val))
    if n.raw_data != pack("<BBHHH", 0, 0, 0, 0x1234, 0x5678):
        fail("raw_data after order %r" % (order,))

# ---- words outside 16 bits and unsuitable types ----------------------------
for name, (attr_name, high) in FIELDS.items():
    for word in (0x12345, -1, -0x1234, 2**33 + 0x4321):
        n = Note()
        setattr(n, attr_name, word)
        if getattr(n, name) != oracle_get(word, high):
            fail("%s getter on odd word %r -> %r" % (name, word, getattr(n, name)))
        setattr(n, name, 0x5A)
        if getattr(n, attr_name) != oracle_set(word, high, 0x5A):
            fail("%s setter on odd word %r -> %r" % (name, word, getattr(n, attr_name)))
    for value in (1.0, 2.5, None, "7", b"\x01", [1]):
        n = Note(ctl=0x1122, val=0x3344)
        res = outcome(lambda: setattr(n, name, value))
        if res != ("err", TypeError):
            fail("%s=%r: %r" % (name, value, res))
        if (n.ctl, n.val) != (0x1122, 0x3344):
            fail("%s=%r mutated the note" % (name, value))
    # word of an unsuitable type
    n = Note()
    setattr(n, attr_name, 1.5)
    if outcome(lambda: getattr(n, name)) != ("err", TypeError):
        fail("%s getter on float word" % name)
    if outcome(lambda: setattr(n, name, 1)) != ("err", TypeError):
        fail("%s setter on float word" % name)
    if getattr(n, attr_name) != 1.5:
        fail("%s setter on float word mutated it" % name)
    # no deleter
    if outcome(lambda: delattr(Note(), name)) != ("err", AttributeError):
        fail("del Note().%s" % name)

# ---- cell image ------------------------------------------------------------------
for _ in range(3000):
    note, vel = int(rnd.choice(list(NOTECMD))), rnd.randrange(130)
    module, ctl, val = (rnd.randrange(0x10000) for _ in range(3))
    n = Note(note=note, vel=vel, module=module, ctl=ctl, val=val)
    cc, ee, xx, yy = (rnd.randrange(256) for _ in range(4))
    n.effect = ee
    n.val_xx = xx
    n.controller = cc
    n.val_yy = yy
    raw = n.raw_data
    if raw != pack("<BBHHH", note, vel, module, cc << 8 | ee, xx << 8 | yy) or len(raw) != 8:
        fail("raw_data %r" % (raw,))
    m = Note()
    m.raw_data = raw
    if (m.note, m.vel, m.module, m.controller, m.effect, m.val_xx, m.val_yy) != (
        note, vel, module, cc, ee, xx, yy,
    ):
        fail("decode of %r" % (raw,))
    if m != n.clone() or unpack("<BBHHH", m.raw_data) != (note, vel, module, m.ctl, m.val):
        fail("clone/decode equality for %r" % (raw,))

# tabular_repr uses the same bytes
n = Note(ctl=0x0000, val=0)
n.controller = 0x1F
n.effect = 0x2E
n.val_xx = 0x3D
n.val_yy = 0x4C
text = n.tabular_repr()
if "1F" not in text.upper() or "2E" not in text.upper() or "3D4C" not in text.upper():
    fail("tabular_repr %r" % text)

if FAILS:
    print("FAILED (%d)" % len(FAILS))
    sys.exit(1)
print("PASS")
