"""Behaviour check for the raw (stored) controller value encoding.

Focus: Range / WarnOnlyRange / CompactRange / NoOffsetRange
(to_raw_value, from_raw_value, validate, __call__, __eq__, __repr__) and their use
through Module.get_raw / Module.set_raw for every controller of every module type.

Run from the repository root:
    PYTHONPATH=<root>/src/python python check.py
"""

import logging
import sys
from enum import Enum

import rv.api  # noqa: F401  (makes sure every module class is registered)
from rv import controller as C
from rv.controller import (
    CompactRange,
    DependentRange,
    NoOffsetRange,
    Range,
    WarnOnlyRange,
)
from rv.errors import (
    ControllerValueError,
    RangeValidationError,
    override_raise_controller_value_errors,
)
from rv.modules import MODULE_CLASSES

FAILURES = []


def check(cond, *what):
    if not cond:
        FAILURES.append(" ".join(str(w) for w in what))
        if len(FAILURES) > 20:
            finish()


def finish():
    if FAILURES:
        print("FAIL")
        for f in FAILURES:
            print("  ", f)
        sys.exit(1)
    print("PASS")
    sys.exit(0)


class Capture(logging.Handler):
    def __init__(self):
        super().__init__()
        self.records = []

    def emit(self, record):
        self.records.append(record)


def expected_raw(t, v):
    if type(t) is NoOffsetRange:
        return v
    return v - t.min if t.min < 0 else v


def sample_values(t, full_limit=70000):
    lo, hi = t.min, t.max
    if hi - lo <= full_limit:
        return range(lo, hi + 1)
    vals = set(range(lo, lo + 300)) | set(range(hi - 300, hi + 1))
    vals |= set(range(lo, hi + 1, 997))
    vals |= {0, 1, -1, (lo + hi) // 2} & set(range(lo, hi + 1))
    return sorted(vals)


# ---------------------------------------------------------------- unit level
def unit_checks():
    kinds = [Range, WarnOnlyRange, CompactRange, NoOffsetRange]
    bounds = [(0, 256), (1, 4), (-128, 128), (-1, 1), (-32768, 32767), (0, 0), (5, 9)]
    for kind in kinds:
        for lo, hi in bounds:
            t = kind(lo, hi)
            check(repr(t) == f"<{kind.__name__} {lo}..{hi}>", "repr", repr(t))
            check(t == kind(lo, hi), "eq", t)
            check(not (t == kind(lo, hi + 1)), "neq bounds", t)
            for other in kinds:
                if other is not kind:
                    check(not (t == other(lo, hi)), "neq kind", t, other)
            check(not (t == (lo, hi)), "neq tuple", t)
            for v in range(lo, hi + 1) if hi - lo < 600 else (lo, lo + 1, -1, 0, 1, hi):
                raw = t.to_raw_value(v)
                check(type(raw) is int, "raw type", t, v)
                check(raw == expected_raw(t, v), "to_raw", t, v, raw)
                back = t.from_raw_value(raw)
                check(type(back) is int and back == v, "roundtrip", t, v, back)
                check(t(v) is v or t(v) == v, "call", t, v)
                if kind is not NoOffsetRange:
                    check(raw >= 0 or lo >= 0, "nonneg", t, v, raw)
            # identity is preserved when no offset applies
            if lo >= 0 or kind is NoOffsetRange:
                for probe in (True, 2.5, 7):
                    check(t.to_raw_value(probe) is probe, "to_raw identity", t, probe)
                    check(t.from_raw_value(probe) is probe, "from_raw identity", t)
            else:
                check(t.to_raw_value(0.5) == 0.5 - lo, "float shift", t)
                check(t.from_raw_value(0.5) == 0.5 + lo, "float unshift", t)

    # validate: raising kinds
    for kind in (Range, CompactRange, NoOffsetRange):
        t = kind(-3, 3)
        for bad in (-4, 4, 1000, -1000):
            try:
                t(bad)
            except RangeValidationError as e:
                check(e.args == (bad, -3, 3), "error args", kind, e.args)
            else:
                check(False, "no error", kind, bad)
            try:
                t.validate(bad)
            except RangeValidationError as e:
                check(e.args == (bad, -3, 3), "validate error args", kind, e.args)
            else:
                check(False, "validate no error", kind, bad)
        for ok in (-3, 0, 3):
            check(t.validate(ok) is None, "validate ok", kind, ok)
            check(t(ok) == ok, "call ok", kind, ok)
        check(t(float("nan")) != t(float("nan")), "nan passes validation", kind)

    # validate: warn-only kind logs and returns the value
    cap = Capture()
    C.log.addHandler(cap)
    old_level = C.log.level
    C.log.setLevel(logging.DEBUG)
    try:
        t = WarnOnlyRange(1, 256)
        for bad in (0, 257, -5):
            n = len(cap.records)
            check(t(bad) == bad, "warn-only returns value", bad)
            check(len(cap.records) == n + 1, "warn-only logs once", bad)
            rec = cap.records[-1]
            check(rec.levelno == logging.WARNING, "warn level")
            check(
                rec.getMessage() == str(RangeValidationError(bad, 1, 256)),
                "warn message",
                rec.getMessage(),
            )
        n = len(cap.records)
        for ok in (1, 100, 256):
            check(t(ok) == ok, "warn-only in range")
        check(len(cap.records) == n, "no log when in range")
    finally:
        C.log.removeHandler(cap)
        C.log.setLevel(old_level)


# -------------------------------------------------------------- module level
def concrete_types(mod, name, ctl):
    """Yield the concrete value types of a controller (all unit variants)."""
    vt = ctl.value_type
    if isinstance(vt, DependentRange):
        for unit, t in vt.range_map.items():
            mod.controller_values[vt.ctl_name] = unit
            check(ctl.instance_value_type(mod) is t, "dependent pick", name, unit)
            yield t
    else:
        yield ctl.instance_value_type(mod)


def module_checks():
    pairs = 0
    for mtype, cls in sorted(MODULE_CLASSES.items()):
        mod = cls()
        for name, ctl in cls.controllers.items():
            if type(ctl).__name__ == "UserDefinedProxy":
                continue
            for t in concrete_types(mod, name, ctl):
                if isinstance(t, Range):
                    seen = set()
                    for v in sample_values(t):
                        pairs += 1
                        mod.controller_values[name] = v
                        raw = mod.get_raw(name)
                        if raw != expected_raw(t, v) or type(raw) is not int:
                            check(False, "get_raw", mtype, name, t, v, raw)
                        if type(t) is not NoOffsetRange and raw < 0:
                            check(False, "negative raw", mtype, name, v, raw)
                        seen.add(raw)
                        mod.controller_values[name] = None
                        mod.set_raw(name, raw)
                        back = mod.controller_values[name]
                        if back != v or type(back) is not int:
                            check(False, "set_raw", mtype, name, t, v, back)
                    check(len(seen) == len(sample_values(t)), "collision", mtype, name)
                elif isinstance(t, type) and issubclass(t, Enum):
                    for member in t:
                        pairs += 1
                        mod.controller_values[name] = member
                        raw = mod.get_raw(name)
                        check(raw == member.value, "enum get_raw", mtype, name, member)
                        mod.set_raw(name, raw)
                        check(
                            mod.controller_values[name] is member,
                            "enum set_raw",
                            mtype,
                            name,
                            member,
                        )
                elif t is bool:
                    for b in (False, True):
                        pairs += 1
                        mod.controller_values[name] = b
                        raw = mod.get_raw(name)
                        check(type(raw) is int and raw == int(b), "bool raw", name)
                        mod.set_raw(name, raw)
                        check(mod.controller_values[name] is b, "bool set_raw", name)
                else:
                    check(False, "unexpected value type", mtype, name, t)
            # None is stored as 0
            mod.controller_values[name] = None
            t = ctl.instance_value_type(mod)
            if isinstance(t, Range):
                check(mod.get_raw(name) == expected_raw(t, 0), "None raw", mtype, name)
            else:
                check(mod.get_raw(name) == 0, "None raw", mtype, name)
    check(pairs > 100000, "too few pairs", pairs)
    return pairs


def out_of_range_checks():
    from rv.modules import module as M

    amp = MODULE_CLASSES["Amplifier"]()
    t = amp.controllers["balance"].instance_value_type(amp)
    check(type(t) is Range and (t.min, t.max) == (-128, 128), "balance range", t)
    try:
        amp.set_raw("balance", 257)
    except ControllerValueError as e:
        check(
            e.args == ("0(Amplifier).balance=129 is not within [-128, 128]",),
            "set_raw message",
            e.args,
        )
        check(isinstance(e.__cause__, RangeValidationError), "cause")
    else:
        check(False, "set_raw out of range did not raise")
    cap = Capture()
    M.log.addHandler(cap)
    try:
        with override_raise_controller_value_errors(False):
            amp.set_raw("balance", 300)
        check(amp.controller_values["balance"] == 172, "lenient value kept")
        check(len(cap.records) == 1, "lenient warning")
    finally:
        M.log.removeHandler(cap)

    lfo = MODULE_CLASSES["LFO"]()
    cap = Capture()
    C.log.addHandler(cap)
    try:
        lfo.set_raw("freq", 100000)
        check(lfo.controller_values["freq"] == 100000, "warn-only set_raw keeps value")
        check(len(cap.records) == 1, "warn-only set_raw logs")
    finally:
        C.log.removeHandler(cap)

    vp = MODULE_CLASSES["Vorbis player"]()
    vp.set_raw("finetune", -128)
    check(vp.finetune == -128 and vp.get_raw("finetune") == -128, "no-offset negative")
    vp.set_raw("transpose", 0)
    check(vp.transpose == -128 and vp.get_raw("transpose") == 0, "offset negative")
    try:
        vp.set_raw("finetune", 129)
    except ControllerValueError as e:
        check(
            e.args == ("0(Vorbis player).finetune=129 is not within [-128, 128]",),
            "no-offset message",
            e.args,
        )
    else:
        check(False, "no-offset out of range did not raise")


if __name__ == "__main__":
    unit_checks()
    n = module_checks()
    out_of_range_checks()
    print(f"checked {n} (controller, value) pairs")
    finish()
