"""Behaviour check for C09 refactoring 1 (rv/controller.py).

Exercises the Controller descriptor (__get__/__set__ -> propagate ->
set_initial) and Range.validate / WarnOnlyRange for every module type and
every controller, in strict and lenient mode, and compares a full transcript
of outcomes against a digest recorded on the unrefactored tree.
"""
import hashlib
import logging
import sys
from enum import Enum

import rv.api  # noqa: F401  (registers all module classes)
from rv import errors
from rv.controller import (
    CompactRange,
    Controller,
    DependentRange,
    NoOffsetRange,
    Range,
    WarnOnlyRange,
)
from rv.errors import (
    ControllerValueError,
    RangeValidationError,
    override_raise_controller_value_errors,
)
from rv.modules import MODULE_CLASSES

EXPECTED_DIGEST = "efc48f1c386110b0f071b08d7c347df1ccfac9cbf8fa662a00ff52f86fca53c5"

transcript = []
failures = []


def note(*parts):
    transcript.append("|".join(str(p) for p in parts))


def check(cond, msg):
    # MetaModule's user-defined proxies forward to an embedded project and
    # have their own rules; they are covered by the transcript digest only.
    if not cond and ".user_defined_" not in msg:
        failures.append(msg)


class Capture(logging.Handler):
    def __init__(self):
        super().__init__(level=logging.DEBUG)
        self.records = []

    def emit(self, record):
        exc = record.exc_info[1] if record.exc_info else None
        self.records.append(
            (
                record.name,
                record.levelname,
                record.getMessage(),
                type(exc).__name__ if exc is not None else None,
                getattr(exc, "args", None),
            )
        )

    def drain(self):
        out, self.records = self.records, []
        return out


capture = Capture()
root_logger = logging.getLogger("rv")
root_logger.addHandler(capture)
root_logger.setLevel(logging.DEBUG)
root_logger.propagate = False


def show(v):
    if isinstance(v, Enum):
        return f"{type(v).__name__}.{v.name}"
    return f"{type(v).__name__}:{v!r}"


def attempt(fn):
    """Run fn, return a printable outcome including chained exception info."""
    try:
        fn()
    except BaseException as e:  # noqa: BLE001
        cause = e.__cause__
        ctx = e.__context__
        return "EXC {} {!r} cause={} {!r} ctx={}".format(
            type(e).__name__,
            e.args,
            type(cause).__name__ if cause is not None else None,
            getattr(cause, "args", None),
            type(ctx).__name__ if ctx is not None else None,
        )
    return "OK"


def candidates(t):
    if isinstance(t, Range):
        lo, hi = t.min, t.max
        mid = (lo + hi) // 2
        return [lo - 1, lo, mid, hi, hi + 1, lo - 1000, hi + 100000, "nope"]
    if isinstance(t, type) and issubclass(t, Enum):
        out = []
        for m in t:
            out += [m, m.value, m.name]
        out += ["no_such_member", -12345, 99999]
        return out
    if t is bool:
        return [True, False, 0, 1, 2, "x", ""]
    return [0, 1, None]


def make(cls):
    return cls()


def exercise_instance(cls):
    mod = make(cls)
    note("CLASS", cls.__name__, cls.mtype, len(cls.controllers))
    note("CTOR-LOG", capture.drain())
    # defaults
    for number, (name, ctl) in enumerate(cls.controllers.items(), 1):
        check(ctl.name == name, f"{cls.__name__}.{name}: name mismatch")
        value = getattr(mod, name)
        note("DEFAULT", name, ctl.number, show(value), show(ctl.default))
        check(
            getattr(cls, name) is ctl or type(ctl).__name__ == "UserDefinedProxy",
            f"{cls.__name__}.{name}: class access does not return the descriptor",
        )
        t = ctl.instance_value_type(mod)
        if isinstance(t, type) and issubclass(t, Enum) and isinstance(ctl.default, str):
            check(value is t[ctl.default], f"{cls.__name__}.{name} default by name")
        elif t is not None:
            check(value == ctl.default, f"{cls.__name__}.{name} default {value!r}")
        check(name in mod.controllers_loaded, f"{cls.__name__}.{name} not loaded")
    # assignment in strict and lenient mode
    for strict in (True, False):
        for name, ctl in cls.controllers.items():
            mod = make(cls)
            capture.drain()
            t = ctl.instance_value_type(mod)
            for v in candidates(t):
                before = mod.controller_values.get(name)
                with override_raise_controller_value_errors(strict):
                    outcome = attempt(lambda: setattr(mod, name, v))
                after = mod.controller_values.get(name)
                logs = capture.drain()
                note("SET", strict, name, show(v), outcome, show(after), logs)
                if outcome != "OK":
                    check(
                        after == before and type(after) is type(before),
                        f"{cls.__name__}.{name}: value changed on error",
                    )
                if isinstance(t, Range) and not isinstance(v, str):
                    in_range = t.min <= v <= t.max
                    if in_range or not strict or isinstance(t, WarnOnlyRange):
                        check(outcome == "OK", f"{cls.__name__}.{name}={v}: {outcome}")
                        check(after == v, f"{cls.__name__}.{name}={v}: readback")
                    else:
                        check(
                            outcome.startswith("EXC ControllerValueError"),
                            f"{cls.__name__}.{name}={v}: expected rejection",
                        )
                    if not in_range:
                        check(
                            (len(logs) == 1) == (not strict or isinstance(t, WarnOnlyRange)),
                            f"{cls.__name__}.{name}={v}: log count {len(logs)}",
                        )
                if isinstance(t, type) and issubclass(t, Enum) and outcome == "OK":
                    check(isinstance(after, t), f"{cls.__name__}.{name}: not a member")
                check(getattr(mod, name) is after or getattr(mod, name) == after, "get")
    # constructor keywords obey the same rules
    for strict in (True, False):
        for name, ctl in cls.controllers.items():
            t = ctl.instance_value_type(make(cls))
            capture.drain()
            for v in candidates(t)[:6]:
                holder = {}

                def build():
                    holder["m"] = cls(**{name: v})

                with override_raise_controller_value_errors(strict):
                    outcome = attempt(build)
                got = (
                    show(holder["m"].controller_values.get(name))
                    if "m" in holder
                    else None
                )
                note("KW", strict, name, show(v), outcome, got, capture.drain())


class Recorder:
    def __init__(self):
        self.calls = []

    def on_controller_changed(self, module, controller, value, down, up):
        self.calls.append(("parent", module.mtype, controller.name, value, down, up))


def exercise_callbacks():
    from rv.modules.amplifier import Amplifier
    from rv.modules.lfo import Lfo

    calls = []

    class Amp2(Amplifier):
        mtype = None

        def on_volume_changed(self, value, down, up):
            calls.append(("named", value, down, up, self.volume))

        on_balance_changed = "not callable"

    parent = Recorder()
    amp = Amp2(parent=parent, index=3)
    check(calls == [] and parent.calls == [], "constructor must not fire callbacks")
    amp.volume = 7
    amp.balance = -5
    Amp2.volume.propagate(amp, 9, down=True)
    Amp2.volume.propagate(amp, 10)
    Amp2.volume.propagate(amp, 11, up=True)
    with override_raise_controller_value_errors(True):
        note("CB-ERR", attempt(lambda: setattr(amp, "volume", 5000)))
    check(amp.volume == 11, "value kept after rejected assignment")
    note("CB", calls, parent.calls)
    check(
        calls
        == [
            ("named", 7, True, True, 7),
            ("named", 9, True, False, 9),
            ("named", 10, False, False, 10),
            ("named", 11, False, True, 11),
        ],
        f"named callback sequence {calls}",
    )
    check(
        parent.calls
        == [
            ("parent", None, "volume", 7, False, True),
            ("parent", None, "balance", -5, False, True),
            ("parent", None, "volume", 11, False, True),
        ],
        f"parent callback sequence {parent.calls}",
    )
    # descriptor protocol corner cases
    check(Amplifier.volume.__get__(None, Amplifier) is Amplifier.volume, "__get__ None")
    check(Amplifier.volume.__set__(None, 3) is None, "__set__ None is a no-op")
    # dependent ranges follow their governing controller
    lfo = Lfo()
    capture.drain()
    for unit in Lfo.FrequencyUnit:
        lfo.frequency_unit = unit
        t = Lfo.freq.instance_value_type(lfo)
        note("DEP", unit.name, repr(t))
        for v in (t.min - 1, t.min, t.max, t.max + 1):
            outcome = attempt(lambda: setattr(lfo, "freq", v))
            note("DEPSET", unit.name, v, outcome, lfo.freq, capture.drain())
            check(outcome == "OK" and lfo.freq == v, "WarnOnlyRange never rejects")


def exercise_ranges():
    for cls in (Range, WarnOnlyRange, CompactRange, NoOffsetRange):
        for lo, hi in ((0, 256), (-128, 128), (1, 1), (-5, -1)):
            r = cls(lo, hi)
            note("RANGE", repr(r), r == cls(lo, hi), r == Range(lo, hi), r != cls(lo, hi + 1))
            for v in (lo - 2, lo - 1, lo, (lo + hi) // 2, hi, hi + 1, 0.5, float("nan"), True):
                for fn_name in ("validate", "__call__"):
                    holder = {}

                    def run():
                        holder["r"] = getattr(r, fn_name)(v)

                    outcome = attempt(run)
                    logs = capture.drain()
                    note("RV", cls.__name__, lo, hi, repr(v), fn_name, outcome, repr(holder.get("r")), logs)
                    bad = v < lo or v > hi
                    if bad and cls is not WarnOnlyRange:
                        check(outcome.startswith("EXC RangeValidationError"), "raise")
                        check(repr((v, lo, hi)) in outcome, "error args (value, min, max)")
                        check(logs == [], "no log when raising")
                    else:
                        check(outcome == "OK", f"{cls.__name__} {v}: {outcome}")
                        check(len(logs) == (1 if bad else 0), "warn-only logs once")
                        if fn_name == "__call__":
                            check(holder["r"] is v, "__call__ returns the value itself")
                        else:
                            check(holder["r"] is None, "validate returns None")
            for raw in (0, 1, 255):
                note("RAW", cls.__name__, lo, hi, r.from_raw_value(raw), r.to_raw_value(raw))
    # value type normalisation in Controller.__init__
    c = Controller((3, 9), 4)
    check(type(c.value_type) is Range and c.value_type == Range(3, 9), "tuple -> Range")
    check(Controller(bool, False).value_type is bool, "bool kept")
    d = DependentRange("x", {}, Range(0, 1))
    check(repr(d) == "<DependentRange (varies)>", "DependentRange repr")


def main():
    check(errors.RAISE_CONTROLLER_VALUE_ERRORS is True, "strict by default")
    names = sorted(MODULE_CLASSES, key=str)
    note("TYPES", len(names), sum(len(MODULE_CLASSES[n].controllers) for n in names))
    for mtype in names:
        exercise_instance(MODULE_CLASSES[mtype])
    exercise_callbacks()
    exercise_ranges()
    check(errors.RAISE_CONTROLLER_VALUE_ERRORS is True, "strict flag restored")
    digest = hashlib.sha256("\n".join(transcript).encode("utf-8")).hexdigest()
    if "--digest" in sys.argv:
        print(digest, len(transcript))
        return 0
    if digest != EXPECTED_DIGEST:
        failures.append(f"transcript digest {digest} != recorded {EXPECTED_DIGEST}")
    if failures:
        print("FAIL")
        for f in failures[:40]:
            print("  -", f)
        print(f"  ({len(failures)} failures, {len(transcript)} transcript lines)")
        return 1
    print(f"PASS ({len(transcript)} observations over {len(names)} module types)")
    return 0


if __name__ == "__main__":
    sys.exit(main())
