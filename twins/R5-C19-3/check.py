"""Behaviour check for Pattern bulk setters, Pattern.clear/data/raw_data and
Note.project / Note.mod (property C19).

Run as:  cd <root> && PYTHONPATH=<root>/src/python /venv/bin/python check.py
Passes on the unchanged tree and with the refactoring applied.
"""
import struct
import sys

from rv.api import m
from rv.errors import ModuleOwnershipError, PatternOwnershipError
from rv.note import NOTE, NOTECMD, Note
from rv.pattern import Pattern
from rv.project import Project

SHAPES = [(lines, tracks) for lines in (1, 2, 3, 4) for tracks in (1, 2, 3)]
checks = 0


def ok(cond, msg):
    global checks
    checks += 1
    if not cond:
        print("FAIL:", msg)
        sys.exit(1)


class Boom(Exception):
    pass


def make_pattern(lines, tracks, attached):
    pat = Pattern(lines=lines, tracks=tracks)
    project = None
    if attached:
        project = Project()
        project.attach_module(m.Generator())
        project.attach_pattern(pat)
    # give every cell a distinguishable starting content
    for line in range(lines):
        for track in range(tracks):
            n = pat.data[line][track]
            n.note = NOTE.C4 + line
            n.vel = 1 + track
            n.module = 2 if attached else 0
            n.ctl = 0x0102 + line
            n.val = 0x1000 + track
    return pat, project


def snapshot(pat):
    return (
        pat._data,
        [list(row) for row in pat._data],
        pat.raw_data,
    )


def unchanged(pat, snap):
    data, rows, raw = snap
    if pat._data is not data or pat.data is not data:
        return False
    if len(pat.data) != len(rows):
        return False
    for row, old_row in zip(pat.data, rows):
        if len(row) != len(old_row):
            return False
        if any(a is not b for a, b in zip(row, old_row)):
            return False
    return pat.raw_data == raw


def all_owned(pat):
    return all(note.pattern is pat for row in pat.data for note in row)


def fresh_note(line, track, gen=0):
    return Note(
        note=NOTE.C2 + line + gen,
        vel=10 + track,
        module=2,
        ctl=0x0300 + line,
        val=0x2000 + track + gen,
    )


def check_accessors(pat, project):
    for row in pat.data:
        for note in row:
            ok(note.project is project, "note.project follows pattern.project")
            if project is None:
                try:
                    note.mod
                except PatternOwnershipError:
                    pass
                else:
                    ok(False, "mod on unattached pattern must raise")
            else:
                expected = None
                if note.module:
                    idx = note.module - 1
                    ok(note.module_index == idx, "module_index")
                    if idx < len(project.modules):
                        expected = project.modules[idx]
                else:
                    ok(note.module_index is None, "module_index None for 0")
                ok(note.mod is expected, "note.mod resolves through the pattern")


# ---------------------------------------------------------------- set_via_fn
def test_set_via_fn(lines, tracks, attached):
    pat, project = make_pattern(lines, tracks, attached)
    old = snapshot(pat)
    calls = []
    made = {}

    def fn(p, line, track):
        ok(p is pat, "fn receives the pattern")
        ok(unchanged(pat, old), "pattern untouched while fn is running")
        calls.append((line, track))
        made[line, track] = fresh_note(line, track)
        return made[line, track]

    result = pat.set_via_fn(fn)
    ok(result is pat, "set_via_fn returns self")
    ok(
        calls == [(line, t) for line in range(lines) for t in range(tracks)],
        "fn called once per cell, line-major",
    )
    ok(pat._data is not old[0], "a new data array is installed")
    ok(len(pat.data) == lines and all(len(r) == tracks for r in pat.data), "shape")
    for (line, track), note in made.items():
        ok(pat.data[line][track] is note, "exactly the supplied notes installed")
    ok(all_owned(pat), "ownership after set_via_fn")
    check_accessors(pat, project)
    # the previous array was not mutated
    ok(all(a is b for r, o in zip(old[0], old[1]) for a, b in zip(r, o)), "old kept")

    # failure injected at every cell
    for fail_line in range(lines):
        for fail_track in range(tracks):
            pat, project = make_pattern(lines, tracks, attached)
            before = snapshot(pat)

            def failing(p, line, track):
                if (line, track) == (fail_line, fail_track):
                    raise Boom((line, track))
                return fresh_note(line, track)

            try:
                pat.set_via_fn(failing)
            except Boom as e:
                ok(e.args[0] == (fail_line, fail_track), "error propagates as is")
            else:
                ok(False, "failure must propagate")
            ok(unchanged(pat, before), "fn failure leaves the pattern as before")
            ok(all_owned(pat), "ownership intact after failed edit")
            check_accessors(pat, project)


# --------------------------------------------------------------- set_via_gen
def test_set_via_gen(lines, tracks, attached):
    cells = [(line, t) for line in range(lines) for t in range(tracks)]
    # yield only every other cell, in reverse order, so some stay untouched
    chosen = list(reversed(cells[::2]))

    pat, project = make_pattern(lines, tracks, attached)
    old = snapshot(pat)
    made = {}
    seen = {}

    def gen(p, new):
        ok(p is pat, "gen receives the pattern")
        ok(new is not pat._data, "gen receives the working copy")
        ok(len(new) == lines and all(len(r) == tracks for r in new), "copy shape")
        ok(
            b"".join(n.raw_data for r in new for n in r) == old[2],
            "working copy starts with the old content",
        )
        ok(
            all(a is not b for r, o in zip(new, old[1]) for a, b in zip(r, o)),
            "working copy holds copies",
        )
        seen["new"] = new
        for i, (line, track) in enumerate(chosen):
            note = fresh_note(line, track, gen=1)
            made[line, track] = note
            yield line, track, note
            ok(new[line][track] is note, "intermediate state visible to gen")
            ok(unchanged(pat, old), "pattern untouched while gen is running")

    result = pat.set_via_gen(gen)
    ok(result is pat, "set_via_gen returns self")
    ok(pat._data is seen["new"], "the working copy is what gets installed")
    ok(pat._data is not old[0], "a new data array is installed")
    for line, track in cells:
        note = pat.data[line][track]
        if (line, track) in made:
            ok(note is made[line, track], "supplied note installed")
        else:
            prev = old[1][line][track]
            ok(note is not prev, "untouched cell is a copy")
            ok(note.raw_data == prev.raw_data, "untouched cell keeps content")
    ok(all_owned(pat), "ownership after set_via_gen")
    check_accessors(pat, project)
    ok(old[0] is not pat._data and all(
        a is b for r, o in zip(old[0], old[1]) for a, b in zip(r, o)
    ), "old array not mutated")

    # empty generator: content preserved, still a fresh owned copy
    pat, project = make_pattern(lines, tracks, attached)
    before = snapshot(pat)
    ok(pat.set_via_gen(lambda p, new: iter(())) is pat, "empty gen returns self")
    ok(pat.raw_data == before[2], "empty gen keeps content")
    ok(pat._data is not before[0], "empty gen still installs a copy")
    ok(all_owned(pat), "ownership after empty gen")
    check_accessors(pat, project)

    # failure at each yield index (including before the first yield and
    # after the last one)
    for fail_at in range(len(cells) + 1):
        pat, project = make_pattern(lines, tracks, attached)
        before = snapshot(pat)

        def failing(p, new):
            for i, (line, track) in enumerate(cells):
                if i == fail_at:
                    raise Boom(i)
                yield line, track, fresh_note(line, track)
            if fail_at == len(cells):
                raise Boom(fail_at)

        try:
            pat.set_via_gen(failing)
        except Boom as e:
            ok(e.args[0] == fail_at, "gen error propagates as is")
        else:
            ok(False, "gen failure must propagate")
        ok(unchanged(pat, before), "gen failure leaves the pattern as before")
        ok(all_owned(pat), "ownership intact after failed gen edit")
        check_accessors(pat, project)

    # a bad cell address fails without touching the pattern
    pat, project = make_pattern(lines, tracks, attached)
    before = snapshot(pat)
    try:
        pat.set_via_gen(lambda p, new: iter([(lines, 0, Note())]))
    except IndexError:
        pass
    else:
        ok(False, "out-of-range line must raise IndexError")
    ok(unchanged(pat, before), "bad address leaves the pattern as before")


# ------------------------------------------------------- successive histories
def test_history(lines, tracks, attached):
    pat, project = make_pattern(lines, tracks, attached)
    for step in range(4):
        before = snapshot(pat)
        if step % 2 == 0:
            pat.set_via_fn(lambda p, l, t: fresh_note(l, t, gen=step))
        else:
            pat.set_via_gen(
                lambda p, new: iter([(lines - 1, tracks - 1, fresh_note(0, 0, step))])
            )
            ok(
                pat.raw_data[:-8] == before[2][:-8],
                "gen edit of the last cell keeps the other cells",
            )
        ok(all_owned(pat), "ownership across successive edits")
        check_accessors(pat, project)
        # now a failing edit of each kind
        now = snapshot(pat)
        for bad in (
            lambda: pat.set_via_fn(lambda p, l, t: (_ for _ in ()).throw(Boom())),
            lambda: pat.set_via_gen(lambda p, new: (_ for _ in ()).throw(Boom())),
        ):
            try:
                bad()
            except Boom:
                pass
            else:
                ok(False, "must raise")
            ok(unchanged(pat, now), "failed edit in a history is a no-op")
    # round trip of the final content through raw_data
    other = Pattern(lines=lines, tracks=tracks)
    other.raw_data = pat.raw_data
    ok(other.raw_data == pat.raw_data, "raw_data round trip")
    ok(all_owned(other), "raw_data setter keeps ownership")


# -------------------------------------------------- clear / data / raw_data
def test_clear_and_raw(lines, tracks, attached):
    pat = Pattern(lines=lines, tracks=tracks)
    ok(not hasattr(pat, "_data"), "data is created lazily")
    data = pat.data
    ok(pat.data is data and pat._data is data, "data is cached")
    ok(len(data) == lines and all(len(r) == tracks for r in data), "clear shape")
    ok(len({id(r) for r in data}) == lines, "distinct rows")
    ok(len({id(n) for r in data for n in r}) == lines * tracks, "distinct notes")
    ok(all(n.is_empty() and n.module == 0 for r in data for n in r), "blank notes")
    ok(all_owned(pat), "clear creates owned notes")
    ok(pat.raw_data == b"\0" * (8 * lines * tracks), "blank raw data")
    ok(pat.clear() is None, "clear returns None")
    ok(pat._data is not data, "clear installs a new array")
    ok(all_owned(pat), "owned after second clear")

    pat, project = make_pattern(lines, tracks, attached)
    raw = pat.raw_data
    ok(len(raw) == 8 * lines * tracks, "raw_data length")
    expected = b"".join(
        struct.pack(
            "<BBHHH",
            NOTE.C4 + line,
            1 + track,
            2 if attached else 0,
            0x0102 + line,
            0x1000 + track,
        )
        for line in range(lines)
        for track in range(tracks)
    )
    ok(raw == expected, "raw_data is line-major packed notes")
    target = Pattern(lines=lines, tracks=tracks)
    cells = [n for r in target.data for n in r]
    target.raw_data = raw + b"trailing bytes are ignored"
    ok(target.raw_data == raw, "raw_data setter fills every cell")
    ok([n for r in target.data for n in r] == cells
       and all(a is b for a, b in zip((n for r in target.data for n in r), cells)),
       "raw_data setter updates notes in place")
    ok(target.data[0][0].note == NOTE.C4, "note value written")
    try:
        target.raw_data = raw[:-1]
    except struct.error:
        pass
    else:
        ok(False, "short raw data must raise struct.error")
    ok(target.raw_data[:-8] == raw[:-8], "cells before the short one were written")
    pat.clear()
    ok(pat.raw_data == b"\0" * len(raw) and all_owned(pat), "clear blanks content")
    check_accessors(pat, project)
    text = pat.tabular_repr()
    ok(len(text.split("\n")) == lines + 1, "tabular_repr has one row per line")


# ------------------------------------------------------------ Note accessors
def test_note_accessors():
    project = Project()
    gen = project.attach_module(m.Generator())
    pat = Pattern(lines=2, tracks=2)
    note = pat.data[0][0]
    ok(note.project is None, "project None when pattern unattached")
    try:
        note.mod
    except PatternOwnershipError as e:
        ok(str(e) == "Pattern not owned by a project", "message kept")
    else:
        ok(False, "must raise")
    project.attach_pattern(pat)
    ok(note.project is project, "project through pattern")
    ok(note.module == 0 and note.module_index is None and note.mod is None, "no mod")
    note.module = 1
    ok(note.module_index == 0 and note.mod is project.output, "module 1 is output")
    note.mod = gen
    ok(note.module == gen.index + 1 and note.mod is gen, "mod setter")
    note.module = 50
    ok(note.module_index == 49 and note.mod is None, "out of range module is None")
    try:
        note.mod = m.Generator()
    except ModuleOwnershipError as e:
        ok(str(e) == "Module must be attached to a project", "message kept")
    else:
        ok(False, "must raise")
    ok(note.module == 50, "failed mod setter leaves module")
    orphan = Note()
    try:
        orphan.project
    except AttributeError:
        pass
    else:
        ok(False, "note without pattern has no project")
    # raw_data / clone
    note.raw_data = struct.pack("<BBHHH", 128, 129, 0xFFFF, 0xABCD, 0x1234)
    ok(note.note == NOTECMD.NOTE_OFF and note.vel == 129, "raw setter unpacks")
    ok((note.controller, note.effect, note.val_xx, note.val_yy)
       == (0xAB, 0xCD, 0x12, 0x34), "ctl/val halves")
    ok(note.raw_data == struct.pack("<BBHHH", 128, 129, 0xFFFF, 0xABCD, 0x1234),
       "raw round trip")
    twin = note.clone()
    ok(twin is not note and twin.raw_data == note.raw_data, "clone copies fields")
    ok(twin.pattern is None and type(twin) is Note, "clone is not owned")
    for bad in (b"", b"\0" * 7, b"\0" * 9):
        try:
            note.raw_data = bad
        except struct.error:
            pass
        else:
            ok(False, "bad raw length must raise struct.error")
    ok(str(Note(note=NOTE.C4, vel=3, ctl=5, val=7)) == "n49v3c5v7", "__str__")


def test_raw_layout():
    """Cell addressing of raw_data, and lazily created / re-created data."""
    import random

    rng = random.Random(19)
    for lines, tracks in [(1, 1), (5, 4), (32, 4), (3, 32), (17, 7)]:
        size = 8 * lines * tracks
        raw = bytes(
            b
            for _ in range(lines * tracks)
            for b in struct.pack(
                "<BBHHH",
                rng.randrange(256),
                rng.randrange(130),
                rng.randrange(0x10000),
                rng.randrange(0x10000),
                rng.randrange(0x10000),
            )
        )
        for source in (raw, bytearray(raw), memoryview(raw), raw + b"\xff" * 11):
            pat = Pattern(lines=lines, tracks=tracks)
            ok(not hasattr(pat, "_data"), "no data before first use")
            pat.raw_data = source
            ok(hasattr(pat, "_data"), "raw_data setter creates the data")
            ok(pat.raw_data == raw and len(pat.raw_data) == size, "round trip")
            ok(isinstance(pat.raw_data, bytes), "raw_data is bytes")
            for line in range(lines):
                for track in range(tracks):
                    start = (line * tracks + track) * 8
                    ok(
                        pat.data[line][track].raw_data == raw[start : start + 8],
                        "cell (line, track) holds its 8-byte slice",
                    )
            ok(all_owned(pat), "owned after loading raw data")
        # too little data: struct.error at the first incomplete cell,
        # earlier cells already written, later ones still blank
        for cut in (0, 8, size - 8, size - 1):
            if cut >= size:
                continue
            pat = Pattern(lines=lines, tracks=tracks)
            try:
                pat.raw_data = raw[:cut]
            except struct.error:
                pass
            else:
                ok(False, "truncated raw data must raise struct.error")
            whole = cut // 8
            ok(
                pat.raw_data == raw[: whole * 8] + b"\0" * (size - whole * 8),
                "cells are filled in order up to the truncation point",
            )
    # shape attributes changed after the data exists
    pat = Pattern(lines=2, tracks=2)
    first = pat.data
    pat.lines = 3
    ok(pat.data is first and len(pat.data) == 2, "data is not rebuilt implicitly")
    try:
        pat.raw_data = b"\0" * 48
    except IndexError:
        pass
    else:
        ok(False, "raw_data setter indexes by the current lines/tracks")
    pat.clear()
    ok(len(pat.data) == 3 and all(len(r) == 2 for r in pat.data), "clear re-reads shape")
    ok(pat.data is not first and all_owned(pat), "clear builds a new owned array")
    pat.lines, pat.tracks = 1, 3
    pat.clear()
    ok([len(r) for r in pat.data] == [3], "clear after shrinking")
    del pat._data
    ok([len(r) for r in pat.data] == [3] and all_owned(pat), "data recreated if missing")
    # notes of one line are independent objects in independent lists
    pat = Pattern(lines=2, tracks=2)
    pat.data[0][0].vel = 5
    pat.data[0].append("extra")
    ok([len(r) for r in pat.data] == [3, 2], "lines do not share a list")
    ok(pat.data[1][0].vel == 0 and pat.data[0][1].vel == 0, "notes are not shared")


def main():
    for attached in (False, True):
        for lines, tracks in SHAPES:
            test_set_via_fn(lines, tracks, attached)
            test_set_via_gen(lines, tracks, attached)
            test_history(lines, tracks, attached)
            test_clear_and_raw(lines, tracks, attached)
    test_note_accessors()
    test_raw_layout()
    print("PASS (%d checks)" % checks)


if __name__ == "__main__":
    main()
