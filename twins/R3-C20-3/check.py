"""C20-3: convert_value arithmetic and the MultiCtl.Mapping / MappingArray record.

convert_value is compared against a frozen copy of the reference arithmetic
(complete value axis for sampled parameter tuples, with and without curves) and
checked for range containment / monotonicity; the mapping record is checked for
field order, defaults, error behaviour and byte-exact (de)serialisation.
Must PASS before and after the patch.
"""
import io
import random
import struct
import sys

from rv.api import Project, m, read_sunvox_file
from rv.modules.multictl import MultiCtl, convert_value

failures = []


def check(cond, msg):
    if not cond:
        failures.append(msg)


def frozen(gain, qsteps, smin, smax, dmin, dmax, vmax, value, curve=None):
    value = (value * gain) / 256
    value = min(value, 32768)
    if curve is not None:
        bucket = int(value / 128)
        start = 128 * bucket
        offset = value - start
        b = curve[bucket]
        a = curve[bucket + 1] if bucket < 256 else b
        c = min(offset / 128, 1.0)
        value = int((c * a) + ((1.0 - c) * b))
    srange = smax - smin
    if qsteps < 32768:
        quant = max(qsteps - 1, 1)
        step = 32768 / quant
        value = int(value / step)
        value = (value * step) / 32768
        value = smin + int(srange * value)
    else:
        value = smin + (srange * value) // 32768
    drange = dmax - dmin
    if vmax is not None:
        value /= 32768 / vmax
    if drange > 0:
        value += dmin
    else:
        value = dmin - value
    return int(value)


def outcome(fn, *args):
    try:
        r = fn(*args)
        return (type(r).__name__, r)
    except Exception as e:
        return ("raised", type(e).__name__)


LINEAR = [min(128 * i, 32768) for i in range(257)]
CURVES = [
    None,
    LINEAR,
    [int((i / 256) ** 2 * 32768) for i in range(257)],
    [int((i / 256) ** 0.5 * 32768) for i in range(257)],
    [(i // 32) * 4096 for i in range(257)],
    [min(i * 300, 32768) for i in range(257)],
    [0] * 257,
    [32768] * 257,
]

# --- 1. pinned numbers from the library's own tests
for gain, q, smin, smax, value, expected in [
    (256, 2, 0, 32768, 0, 0), (0, 32768, 0, 32768, 32768, 0),
    (128, 32768, 0, 32768, 24576, 96), (384, 32768, 0, 32768, 24576, 256),
    (1024, 32768, 0, 32768, 4096, 128), (256, 32768, 5000, 25000, 0, 39),
    (256, 32768, 5000, 25000, 32768, 195), (256, 32768, 25000, 5000, 8192, 156),
    (128, 32768, 32768, 0, 8192, 224), (256, 2, 0, 32768, 24576, 0),
    (256, 2, 0, 32768, 32768, 256), (256, 3, 0, 32768, 16384, 128),
    (256, 7, 0, 32768, 8192, 42), (256, 7, 32768, 0, 24576, 85),
    (256, 20, 0, 32768, 16384, 121), (256, 20, 32768, 0, 8192, 202),
    (256, 61, 0, 32768, 24576, 192),
]:
    dmin, dmax = (0, 256) if smin <= smax else (0, 256)
    got = convert_value(gain, q, smin, smax, dmin, dmax, 256, value)
    check(got == expected, f"pinned {(gain, q, smin, smax, value)}: {got} != {expected}")


# --- 2. complete value axis for sampled parameter tuples (as on_value_changed calls it)
def full_axis(gain, q, wmin, wmax, span, compact, curve, values):
    if wmin > wmax:
        args = (wmax, wmin, span, 0)
    else:
        args = (wmin, wmax, 0, span)
    vmax = None if compact else span
    prev = None
    label = f"g={gain} q={q} w={wmin}..{wmax} span={span} compact={compact} curve#{CURVES.index(curve)}"
    monotone_curve = curve is None or all(x <= y for x, y in zip(curve, curve[1:]))
    for v in values:
        got = convert_value(gain, q, *args, vmax, v, curve)
        want = frozen(gain, q, *args, vmax, v, curve)
        if got != want or type(got) is not int:
            check(False, f"{label}: value {v} -> {got!r}, expected {want!r}")
            return
        if not 0 <= got <= span:
            check(False, f"{label}: value {v} -> {got} outside 0..{span}")
            return
        if prev is not None and monotone_curve:
            if not (got >= prev if wmin <= wmax else got <= prev):
                check(False, f"{label}: not monotone at {v}: {prev} -> {got}")
                return
        prev = got


rnd = random.Random(2020)
FULL = range(0, 32769)
COARSE = sorted(set(list(range(0, 32769, 61)) + [1, 127, 128, 129, 32639, 32640, 32641, 32767]))
EDGE_G = [0, 1, 255, 256, 257, 512, 1023, 1024]
EDGE_Q = [0, 1, 2, 3, 4, 32767, 32768]
EDGE_W = [0, 1, 16384, 32767, 32768]
SPANS = [1, 2, 9, 100, 255, 256, 1000, 1024, 5000, 32768]
for fixed in [
    (256, 32768, 0, 32768, 1024, False, None),
    (256, 32768, 0, 32768, 1024, False, LINEAR),
    (256, 32768, 32768, 0, 256, False, LINEAR),
    (1024, 32768, 0, 32768, 32768, False, CURVES[2]),
    (333, 5, 5000, 25000, 256, False, CURVES[3]),
    (700, 32767, 25000, 5000, 5000, False, CURVES[4]),
    (256, 32768, 0, 256, 256, True, LINEAR),
    (512, 9, 200, 3, 256, True, CURVES[5]),
    (1, 1, 32768, 32768, 9, False, LINEAR),
]:
    full_axis(*fixed, FULL)
for n in range(400):
    gain = rnd.choice(EDGE_G) if rnd.random() < 0.5 else rnd.randint(0, 1024)
    q = rnd.choice(EDGE_Q) if rnd.random() < 0.5 else rnd.randint(0, 32768)
    span = rnd.choice(SPANS)
    compact = rnd.random() < 0.25
    top = span if compact else 32768
    wmin = rnd.choice([w for w in EDGE_W if w <= top]) if rnd.random() < 0.4 else rnd.randint(0, top)
    wmax = rnd.choice([w for w in EDGE_W if w <= top]) if rnd.random() < 0.4 else rnd.randint(0, top)
    full_axis(gain, q, wmin, wmax, span, compact, rnd.choice(CURVES), FULL if n < 12 else COARSE)

# --- 3. out-of-domain calls keep doing whatever they did (result type, or exception type)
for args in [
    (256, 32768, 0, 32768, 0, 256, 256, 40000, None),
    (256, 32768, 0, 32768, 0, 256, 256, 40000, LINEAR),
    (4096, 32768, 0, 32768, 0, 256, 256, 32768, LINEAR),
    (256, 32768, 0, 32768, 0, 256, 256, -300, None),
    (256, 32768, 0, 32768, 0, 256, 256, -300, LINEAR),
    (256, 10, 0, 32768, 0, 256, 256, -300, LINEAR),
    (256, 32768, 0, 32768, 0, 0, 0, 100, LINEAR),
    (256, 32768, 0, 32768, 0, 0, None, 100, LINEAR),
    (256, 32768, 0, 32768, 7, 7, 5, 100, None),
    (256, 32768, 0, 32768, 0, 256, 256, 32768, LINEAR[:256]),
    (256, 32768, 0, 32768, 0, 256, 256, 32700, LINEAR[:256]),
    (256, 32768, 0, 32768, 0, 256, 256, 32768, LINEAR + [5, 6, 7]),
    (256, 32768, 0, 32768, 0, 256, 256, 100.5, LINEAR),
    (256.5, 50.5, 0, 32768, 0, 256, 256, 100, LINEAR),
    (256, 32768, 0, 32768, 0, 256, 256, float("nan"), LINEAR),
    (256, 32768, 0, 32768, 0, 256, 256, 100, ()),
    (256, -5, 10, 20, 3, 1, 2, 100, None),
]:
    got, want = outcome(convert_value, *args), outcome(frozen, *args)
    check(got == want, f"out-of-domain {args[:8]}: {got} != {want}")
check(convert_value(256, 32768, 0, 32768, 0, 256, 256, 16384) == 128, "curve is optional")
check(convert_value(gain=256, qsteps=32768, smin=0, smax=32768, dmin=0, dmax=256, vmax=256,
                    value=16384, curve=LINEAR) == 128, "keyword call")

# --- 4. Mapping record
NAMES = ["min", "max", "controller", "flags", "future_use2", "future_use3", "future_use4",
         "future_use5"]


def record(mp):
    return tuple(getattr(mp, n) for n in NAMES)


for src in [(1, 2, 3, 4, 5, 6, 7, 8), [8, 7, 6, 5, 4, 3, 2, 1], tuple(range(10, 22)),
            "abcdefghij", range(100, 120)]:
    mp = MultiCtl.Mapping(src)
    check(record(mp) == tuple(src[:8]), f"Mapping({src!r}) -> {record(mp)}")
    check(sorted(vars(mp)) == sorted(NAMES), f"Mapping attrs {sorted(vars(mp))}")
for bad, exc in [((1, 2, 3), ValueError), ((), ValueError), ((1,) * 7, ValueError),
                 (5, TypeError), (None, TypeError), (iter((1,) * 8), TypeError)]:
    try:
        MultiCtl.Mapping(bad)
        check(False, f"Mapping({bad!r}) accepted")
    except exc:
        pass
    except Exception as e:
        check(False, f"Mapping({bad!r}) raised {type(e).__name__}, expected {exc.__name__}")
mp = MultiCtl.Mapping((1, 2, 3, 4, 5, 6, 7, 8))
mp.min, mp.future_use5 = 99, 77
check(record(mp) == (99, 2, 3, 4, 5, 6, 7, 77), "Mapping fields are plain attributes")

# --- 5. MappingArray layout, defaults, bytes
arr = MultiCtl.MappingArray()
check((arr.chnm, arr.length, arr.type, arr.element_size) == (0, 16, "IIIIIIII", 32),
      f"array layout {(arr.chnm, arr.length, arr.type, arr.element_size)}")
check(arr.python_type is MultiCtl.Mapping, "python_type")
check(len(arr.values) == 16 and len({id(x) for x in arr.values}) == 16, "16 distinct defaults")
check(all(record(x) == (0, 32768, 0, 0, 0, 0, 0, 0) for x in arr.values), "default record")
check(record(arr.default(3)) == (0, 32768, 0, 0, 0, 0, 0, 0), "default()")
enc = arr.encoded_values
check(type(enc) is list and enc == [0, 32768, 0, 0, 0, 0, 0, 0] * 16, "default encoded_values")
check(arr.bytes == struct.pack("<128I", *([0, 32768, 0, 0, 0, 0, 0, 0] * 16)), "default bytes")
check(list(arr.chunks()) == [(b"CHNM", struct.pack("<I", 0)), (b"CHDT", arr.bytes)], "chunks")
flat = [rnd.randint(0, 2**32 - 1) for _ in range(128)]
for i in range(16):
    arr.values[i] = MultiCtl.Mapping(flat[8 * i: 8 * i + 8])
check(arr.encoded_values == flat, "encoded_values order")
raw = arr.bytes
check(raw == struct.pack("<128I", *flat), "bytes")
arr2 = MultiCtl.MappingArray()
arr2.bytes = raw
check([record(x) for x in arr2.values] == [tuple(flat[8 * i: 8 * i + 8]) for i in range(16)],
      "bytes setter")
check(arr2.bytes == raw, "bytes round trip")
arr2.bytes = raw[:96]  # shorter chunks give fewer records
check(len(arr2.values) == 3 and record(arr2.values[2]) == tuple(flat[16:24]), "short chunk")
arr2.reset()
check(arr2.encoded_values == [0, 32768, 0, 0, 0, 0, 0, 0] * 16, "reset")
arr2.values[0].max = -1
try:
    arr2.bytes
    check(False, "negative field packed")
except struct.error:
    pass

# --- 6. constructor kwargs and project round trip
mc = MultiCtl(mappings=[(1, 2, 3, 0, 0, 0, 0, 0), [4, 5, 6, 1, 9, 9, 9, 9, 1234]], curve=CURVES[2])
check([record(x) for x in mc.mappings.values[:3]] ==
      [(1, 2, 3, 0, 0, 0, 0, 0), (4, 5, 6, 1, 9, 9, 9, 9), (0, 32768, 0, 0, 0, 0, 0, 0)],
      "mappings kwarg")
check(mc.curve.values == CURVES[2], "curve kwarg")
try:
    MultiCtl(mappings=[(1, 2, 3)])
    check(False, "3-field mapping accepted")
except ValueError:
    pass
try:
    MultiCtl(mappings=[(0,) * 8] * 17)
    check(False, "17 mappings accepted")
except IndexError:
    pass

p = Project()
amp, lfo = p.new_module(m.Amplifier), p.new_module(m.Lfo)
p.output << amp
mc = MultiCtl.macro(p, (amp, "volume"), (lfo, "amplitude"), initial=8192)
mc.mappings.values[1].min, mc.mappings.values[1].max = 30000, 2000
mc.mappings.values[1].flags = 1
mc.curve.values = list(CURVES[3])
mc.quantization = 11
mc.value = 20000
sent = (amp.volume, lfo.amplitude)
check(sent == (frozen(256, 11, 0, 32768, 0, 1024, 1024, 20000, CURVES[3]),
               frozen(256, 11, 2000, 30000, 256, 0, 256, 20000, CURVES[3])),
      f"project delivery {sent}")
f = io.BytesIO()
p.write_to(f)
first = f.getvalue()
f.seek(0)
p2 = read_sunvox_file(f)
mc2 = p2.modules[mc.index]
check(isinstance(mc2, MultiCtl), "reloaded type")
check([record(x) for x in mc2.mappings.values] == [record(x) for x in mc.mappings.values],
      "reloaded mappings")
check(mc2.curve.values == mc.curve.values and mc2.out_links == mc.out_links, "reloaded curve/links")
check((mc2.value, mc2.gain, mc2.quantization) == (20000, 256, 11), "reloaded controllers")
f2 = io.BytesIO()
p2.write_to(f2)
check(f2.getvalue() == first, "second write differs")
mc2.value = 3000
check((p2.modules[amp.index].volume, p2.modules[lfo.index].amplitude) ==
      (frozen(256, 11, 0, 32768, 0, 1024, 1024, 3000, CURVES[3]),
       frozen(256, 11, 2000, 30000, 256, 0, 256, 3000, CURVES[3])), "reloaded delivery")

if failures:
    print("FAIL")
    for msg in failures[:40]:
        print("  ", msg)
    sys.exit(1)
print("PASS")
